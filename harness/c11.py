"""C11 — property paths denote the relation SPARQL defines, for every binding of the ends.  DESIGN §6 C11.

Case = {"triples": [[s,p,o,part]…],      part 0 = first member / default graph, 1 = second member / named
                                         graph, 2 = both
        "path":    AST                   ["i",p] | ["v",X] | ["s",[X,…]] (≥1) | ["a",[X,…]] | ["m","?|*|+",X]
                                         | ["n",[fw…],[bw…]]
        "ends":    [[s|None, o|None]…]   bindings of start / end to evaluate
        "routes":  [route…]              which API routes to drive (see ROUTES)
        "style":   0|1                   how the rdflib objects / the SPARQL text are spelled}
Terms are small integers (vocabulary below: IRIs, a blank node, literals incl. the Python-falsy ones;
predicates 10…12).  A term that does not occur in the triples is "absent from the graph".

Observation per (binding, route): the pairs (start, end) produced — as a sorted *list* when the path is a
closure (`*`, `+`, `?` outermost, possibly under `^`), so duplicates show; as a sorted set otherwise
(`/` and `|` legitimately repeat a pair once per derivation; the property only demands the *set*).
Property oracle (independent of Lean): composition / union / converse / closure computed naively over
the node set of the graph plus the given ends.
"""
import re
import warnings

import core  # noqa: F401
from rdflib import BNode, ConjunctiveGraph, Dataset, Graph, Literal, URIRef
from rdflib.graph import ReadOnlyGraphAggregate
from rdflib.namespace import RDF
from rdflib.paths import (AlternativePath, InvPath, MulPath, NegatedPath, SequencePath, eval_path, evalPath, inv_path,
                          mul_path, neg_path, path_alternative, path_sequence)
from rdflib.resource import Resource

warnings.filterwarnings("ignore", category=DeprecationWarning)
warnings.filterwarnings("ignore", category=UserWarning)

ID = "C11"
LEAN_TARGETS = ["RV.C11.Props", "RV.C11.Audit"]
AUDIT = "RV/C11/Audit.lean"
DRIVER = "drv_c11"
CASE_TIMEOUT_S = 90   # an exhaustive block is ~1.5 s of work; the box is shared and often 5-10x oversubscribed
EX_BLOCK = 128
EX_BLOCKS = (1 << 18) // EX_BLOCK
CASES = {"quick": 1200, "thorough": EX_BLOCKS + 16000, "search": 12000}
RULE = ("random path expressions (depth <= 4 quick / <= 6 thorough; iri, ^, /, |, ?, *, +, negated sets with forward and "
        "inverse members; a family of all-nullable sequences) over random graphs of 2-10 triples on 4-6 nodes (falsy "
        "literals, literal subjects, self-loops, 2- and 3-cycles), four bindings of the ends per case (given terms may be "
        "falsy or absent from the graph), driven through Graph.triples / subjects / objects / subject_objects / "
        "__contains__, Dataset (default_union on / off, named graph), ReadOnlyGraphAggregate over a split of the graph, "
        "and SPARQL SELECT with the ends given as constants, VALUES or initBindings, over a Graph, over a ReadOnlyGraphAggregate "
        "of 2-3 member graphs (hops of a path in different members; also `(s, path, o) in aggregate`), also over a Dataset (union, default graph, GRAPH <g>); one case in twelve "
        "builds paths incrementally from shared sub-path objects with the operators / constructors and evaluates every object before "
        "and after it was used as an operand (constructors must not mutate operands), one in twelve has an EMPTY active graph (fresh, emptied after adds, empty default graph, empty registered named graph); the thorough tier first sweeps ALL 2^18 graphs over 3 nodes x 2 "
        "predicates (blocks of 128) against 24 fixed path shapes with the oracle (one shape per graph also against the "
        "model).  Round g, on every ordinary case: route sparql_n3 (the query text of the path is the object's own n3(), plain or with a "
        "namespace manager; lines n3| = the text's tokens vs the Lean writer, readn3 = rdflib's parse tree and translatePath object of that "
        "text vs the Lean reader and translate), route api (in / objects / subjects / subject_objects with unique False and True, [x, x] as "
        "a list-valued end, Graph.value), route first_false (MulPath.eval(..., first=False) when the top is a MulPath) and the binding shapes of a path pattern in a "
        "BGP: ?x path ?x (same variable twice; also pre-bound by initBindings / VALUES), an end bound by another triple pattern written before / after.  Round h: every route that takes the case's graph object runs on one of five KINDS (plain Graph; Dataset(default_union=True), ConjunctiveGraph - three contexts of one store read as their union; ReadOnlyGraphAggregate of 2-3 members; ds.graph(g1) - a named-graph view beside other contexts holding other triples), route view compares triples() with the Lean evaluator over that OBJECT (plainView / unionView / aggView of the members), routes sparql_gvar1/2 = GRAPH ?g { s path o } per named graph.  non-trivial = the path has an operator and some binding with a given end has a non-empty answer; "
        "distinct = distinct (triples, path, ends)")
ASSUMPTIONS = ["the store answers triples(pattern, context) with the matching triples of that context (C01/C02/C15); that a path evaluation over a "
               "Graph / Dataset / ConjunctiveGraph / aggregate / named-graph object reads it through that method only is theorem view_eval_same",
               "VALUES-bound ends are only compared when the term occurs in the graph (for an absent term the algebra's "
               "answer differs from the answer for a constant in the pattern - C15-K1; the property speaks of given terms)"]
TRUSTED = ["harness/c11.py generators, oracle and canonicalisation (incl. the lexer n3_words of n3() text and the sorting of negated-set members)",
           "lean/RV/C11/Drive.lean line protocol and path parser"]

E = "http://e/"
NODE = {1: URIRef(E + "a"), 2: URIRef(E + "b"), 3: URIRef(E + "c"), 4: Literal(""), 5: Literal(0), 6: Literal(False),
        7: BNode("n7"), 8: Literal("x", lang="en"), 9: URIRef(E + "d"), 13: URIRef("")}
PRED = {10: URIRef(E + "p"), 11: URIRef(E + "q"), 12: URIRef(E + "r"), 14: RDF.type}
PFX = "PREFIX e: <%s> " % E
TERM = {**NODE, **PRED}
REV = {v: k for k, v in TERM.items()}
FALSY = [4, 5, 6, 13]
NO_SPARQL_TERM = {7}          # a blank node in a query is a variable
GNAME = URIRef(E + "g1")

ROUTES = ["triples", "so", "so_unique", "so_list", "value", "slice", "resource", "eval_direct", "interleave", "interleave_b",
          "ds_union", "ds_default", "ds_named", "agg", "in_agg", "in_ds", "sparql_const", "sparql_values",
          "sparql_tree", "sparql_init", "sparql_ds_union", "sparql_ds_default", "sparql_ds_graph", "sparql_ds_init",
          "sparql_agg", "sparql_agg_values", "sparql_agg_init", "sparql_n3", "api", "first_false",
          "sparql_same", "sparql_join_before", "sparql_join_after", "sparql_same_init", "sparql_same_values", "view",
          "sparql_gvar1", "sparql_gvar2"]
FULL, DEFAULT, NAMED, AGG = 0, 1, 2, 3
ROUTE_GRAPH = {"so_unique": FULL, "so_list": FULL, "value": FULL, "slice": FULL, "resource": FULL, "eval_direct": FULL,
               "interleave": FULL, "interleave_b": DEFAULT,
               "triples": FULL, "so": FULL, "ds_union": FULL, "ds_default": DEFAULT, "ds_named": NAMED, "agg": AGG,
               "in_agg": AGG, "in_ds": FULL,
               "sparql_const": FULL, "sparql_values": FULL, "sparql_tree": FULL, "sparql_init": FULL,
               "sparql_ds_union": FULL, "sparql_ds_default": DEFAULT, "sparql_ds_graph": NAMED, "sparql_ds_init": FULL,
               "sparql_agg": AGG, "sparql_agg_values": AGG, "sparql_agg_init": AGG, "sparql_n3": FULL, "api": FULL, "first_false": FULL,
               "sparql_same": FULL, "sparql_join_before": FULL, "sparql_join_after": FULL, "sparql_same_init": FULL,
               "sparql_same_values": FULL, "view": FULL, "sparql_gvar1": NAMED, "sparql_gvar2": NAMED}
BGP_ROUTES = ("sparql_same", "sparql_join_before", "sparql_join_after", "sparql_same_init", "sparql_same_values")
GNAME2 = URIRef(E + "g2")
# round h: the KIND of graph object every `env["g"]` route runs on (case["kind"]):
#   graph     a plain Graph holding all the triples
#   ds_union  Dataset(default_union=True): default graph + named graphs g1, g2, read as their union
#   cg        ConjunctiveGraph with the same three contexts (its default view is the union)
#   agg       ReadOnlyGraphAggregate of 2-3 member graphs
#   named     ds.graph(g1): a named-graph view of a dataset whose other graphs hold OTHER triples on the same store
KINDS = ["graph", "ds_union", "cg", "agg", "named"]
VIEW_ROUTES = {"view", "triples", "so", "so_unique", "so_list", "value", "slice", "resource", "eval_direct", "interleave",
               "sparql_const", "sparql_values", "sparql_tree", "sparql_init", "sparql_n3", "api", "first_false",
               "sparql_same", "sparql_join_before", "sparql_join_after", "sparql_same_init", "sparql_same_values"}


def view_part(case):
    """which list of triples the view of the case holds (index into _graphs(case))"""
    return {"agg": AGG, "named": NAMED}.get(case.get("kind", "graph"), FULL)


def route_part(route, case):
    return view_part(case) if route in VIEW_ROUTES else ROUTE_GRAPH[route]


# ------------------------------------------------------------------ paths


def is_closure(ast):
    return ast[0] == "m" or (ast[0] == "v" and is_closure(ast[1]))


def ops_of(ast, acc=None):
    acc = {} if acc is None else acc
    k = ast[0]
    name = {"i": "iri", "v": "inv", "s": "seq", "a": "alt", "n": "neg"}.get(k) or {"?": "opt", "*": "star", "+": "plus"}[ast[1]]
    acc[name] = acc.get(name, 0) + 1
    if k == "v":
        ops_of(ast[1], acc)
    elif k in "sa":
        for x in ast[1]:
            ops_of(x, acc)
    elif k == "m":
        ops_of(ast[2], acc)
    return acc


def depth(ast):
    k = ast[0]
    if k in "in":
        return 1
    if k == "v":
        return 1 + depth(ast[1])
    if k == "m":
        return 1 + depth(ast[2])
    return 1 + max([depth(x) for x in ast[1]] or [0])


def has_empty_alt(ast):
    k = ast[0]
    if k == "a" and not ast[1]:
        return True
    if k == "v":
        return has_empty_alt(ast[1])
    if k == "m":
        return has_empty_alt(ast[2])
    if k in "sa":
        return any(has_empty_alt(x) for x in ast[1])
    return False


def to_rdflib(ast, style):
    """the objects a user builds: class constructors (style 0), the overloaded operators on URIRef / Path objects
    (style 1), or the helper functions path_sequence / path_alternative / inv_path / mul_path / neg_path (style 2)"""
    k = ast[0]
    if k == "i":
        return PRED[ast[1]]
    if k == "v":
        x = to_rdflib(ast[1], style)
        return inv_path(x) if style == 2 else ~x if style else InvPath(x)
    if k in "sa":
        xs = [to_rdflib(x, style) for x in ast[1]]
        if style and len(xs) >= 2:
            r = xs[0]
            for x in xs[1:]:
                if style == 2:
                    r = path_sequence(r, x) if k == "s" else path_alternative(r, x)
                else:
                    r = r / x if k == "s" else r | x
            return r
        if style == 2:      # positional arguments arriving through a generator / a tuple
            return SequencePath(*(x for x in xs)) if k == "s" else AlternativePath(*tuple(xs))
        return SequencePath(*xs) if k == "s" else AlternativePath(*xs)
    if k == "m":
        x = to_rdflib(ast[2], style)
        return mul_path(x, ast[1]) if style == 2 else x * ast[1] if style else MulPath(x, ast[1])
    if k == "n":
        members = [PRED[i] for i in ast[1]] + [(inv_path(PRED[i]) if style == 2 else InvPath(PRED[i])) for i in ast[2]]
        if style and len(members) % 2 == 0:
            members.reverse()
        if len(members) == 1:
            return neg_path(members[0]) if style == 2 else -members[0] if style else NegatedPath(members[0])
        alt = AlternativePath(*members)
        return neg_path(alt) if style == 2 else NegatedPath(alt)
    raise ValueError(k)


def sparql_text(ast, style):
    """style 0: every sub-expression parenthesised; style 1, 2: only where the grammar needs it; style 2 also spells
    IRIs as prefixed names (PREFIX e:) and rdf:type as `a`"""

    def iri(i):
        if style == 2:      # prefixed name / the keyword `a`
            return "a" if i == 14 else "e:" + str(PRED[i])[len(E):]
        return "<%s>" % PRED[i]

    def prim(a):
        if a[0] == "i":
            return iri(a[1])
        if a[0] == "n":
            ms = [iri(i) for i in a[1]] + ["^" + iri(i) for i in a[2]]
            if style and len(ms) % 2 == 0:
                ms.reverse()
            if len(ms) == 1 and style:
                return "!" + ms[0]
            return "!(" + "|".join(ms) + ")"
        return "(" + alt(a) + ")"

    def elt(a):
        if a[0] == "m":
            return prim(a[2]) + a[1]
        return prim(a)

    def eltinv(a):
        if a[0] == "v":
            return "^" + elt(a[1])
        return elt(a)

    def seq(a):
        if a[0] == "s":
            return "/".join(eltinv(x) for x in a[1])
        return eltinv(a)

    def alt(a):
        if a[0] == "a":
            return "|".join(seq(x) for x in a[1])
        return seq(a)

    def full(a):
        k = a[0]
        if k in "in":
            return prim(a)
        if k == "v":
            return "^(" + full(a[1]) + ")"
        if k == "m":
            return "(" + full(a[2]) + ")" + a[1]
        return "(" + ("/" if k == "s" else "|").join("(" + full(x) + ")" for x in a[1]) + ")"

    return alt(ast) if style else full(ast)


def path_tokens(ast):
    k = ast[0]
    if k == "i":
        return ["i", str(ast[1])]
    if k == "v":
        return ["v"] + path_tokens(ast[1])
    if k in "sa":
        out = [k, str(len(ast[1]))]
        for x in ast[1]:
            out += path_tokens(x)
        return out
    if k == "m":
        return ["m", ast[1]] + path_tokens(ast[2])
    return ["n", str(len(ast[1])), str(len(ast[2]))] + [str(i) for i in ast[1]] + [str(i) for i in ast[2]]


def syn_tokens(node):
    """rdflib's parse tree of a path (before translatePath) in the driver's prefix form:
       i N | A k x… (PathAlternative) | S k x… (PathSequence) | E mod|- x (PathElt) | V x (PathEltOrInverse)
       | N F B f… b… (PathNegatedPropertySet with iri / InversePath members)"""
    if isinstance(node, URIRef):
        return ["i", str(REV[node])]
    name = getattr(node, "name", None)
    if name == "pname":
        return ["i", str(REV[URIRef(E + node.localname)])]
    if name in ("PathAlternative", "PathSequence"):
        out = ["A" if name == "PathAlternative" else "S", str(len(node.part))]
        for x in node.part:
            out += syn_tokens(x)
        return out
    if name == "PathElt":
        part = node.part
        if isinstance(part, list):
            (part,) = part
        return ["E", str(node.mod) if node.mod else "-"] + syn_tokens(part)
    if name == "PathEltOrInverse":
        part = node.part
        if isinstance(part, list):
            (part,) = part
        return ["V"] + syn_tokens(part)
    if name == "PathNegatedPropertySet":
        un = lambda m: URIRef(E + m.localname) if getattr(m, "name", None) == "pname" else m  # noqa: E731
        fw = [REV[un(m)] for m in (node.part or []) if isinstance(un(m), URIRef)]
        bw = [REV[un(m.part)] for m in (node.part or []) if getattr(m, "name", None) == "InversePath"]
        if len(fw) + len(bw) != len(node.part or []):
            raise ValueError("unknown member in negated property set")
        return ["N", str(len(fw)), str(len(bw))] + [str(i) for i in fw] + [str(i) for i in bw]
    raise ValueError("unknown path node %r" % (node,))


def parser_tree_tokens(ast, style):
    """print the expression as SPARQL, run rdflib's parser, return the tree of the path it produced"""
    from rdflib.plugins.sparql.parser import parseQuery
    q = parseQuery(PFX + "SELECT * WHERE { ?s %s ?o }" % sparql_text(ast, style))
    triples = q[1]["where"]["part"][0]["triples"][0]
    return syn_tokens(triples[1])


# ------------------------------------------------------------------ round g: Path.n3() text, read back as SPARQL

_NSM_G = Graph()
_NSM_G.bind("e", E)
NSM = _NSM_G.namespace_manager
TOK_RE = re.compile(r"<[^>]*>|[A-Za-z_][\w-]*:[\w-]+|[\^/|()!?*+]")
N3ID = {}
for _i, _u in PRED.items():
    N3ID[_u.n3()] = _i
    N3ID[_u.n3(NSM)] = _i


class Unreadable(Exception):
    """the text Path.n3() wrote is not a SPARQL path (rdflib's own parser rejects the query)"""


def n3_words(text):
    """the harness's lexer: n3() text -> the driver's token words (iN ^ / | ( ) ! ? * +)"""
    ws = TOK_RE.findall(text)
    if "".join(ws) != text.replace(" ", ""):
        return ["lexerr"]
    return ["i%d" % N3ID[w] if w in N3ID else (w if len(w) == 1 else "lexerr") for w in ws]


def canon_n3_line(line):
    """the order of the members of a negated property set carries no meaning and the model keeps plain and inverse
    members as two lists: sort the members inside every `! ( … )` group (plain ones first), on both sides"""
    ws = line[3:].split()
    out, i = [], 0
    while i < len(ws):
        if ws[i] == "!" and i + 1 < len(ws) and ws[i + 1] == "(" and ")" in ws[i + 2:]:
            j = ws.index(")", i + 2)
            ms = " ".join(ws[i + 2:j]).split(" | ") if j > i + 2 else []
            ms.sort(key=lambda m: (m.startswith("^"), int(m.split("i")[-1]) if m.split("i")[-1].isdigit() else -1, m))
            out += ["!", "("] + " | ".join(ms).split() + [")"]
            i = j + 1
        else:
            out.append(ws[i])
            i += 1
    return "n3|" + " ".join(out)


def n3_level(P):
    """what the n3() text of P is in SPARQL's grammar, given that n3() only parenthesises sequences / alternatives with
    two or more members: 0 PathPrimary, 1 PathElt (primary + modifier), 2 '^' PathElt, None = not a path
    (a modifier on something that is not a primary, '^' on something that is not a PathElt, an empty alternative)"""
    if isinstance(P, (URIRef, NegatedPath)):
        return 0
    if isinstance(P, (SequencePath, AlternativePath)):
        if not P.args:
            return None
        if len(P.args) == 1:
            return n3_level(P.args[0])
        return 0 if all(n3_level(a) is not None for a in P.args) else None
    if isinstance(P, MulPath):
        return 1 if n3_level(P.path) == 0 else None
    if isinstance(P, InvPath):
        return 2 if n3_level(P.arg) in (0, 1) else None
    return None


def obj_ast(P):
    """an rdflib path object as the AST of this module (members of a negated set: plain ones, inverse ones, in order)"""
    if isinstance(P, URIRef):
        return ["i", REV[P]]
    if isinstance(P, InvPath):
        return ["v", obj_ast(P.arg)]
    if isinstance(P, SequencePath):
        return ["s", [obj_ast(a) for a in P.args]]
    if isinstance(P, AlternativePath):
        return ["a", [obj_ast(a) for a in P.args]]
    if isinstance(P, MulPath):
        return ["m", P.mod, obj_ast(P.path)]
    if isinstance(P, NegatedPath):
        return ["n", [REV[a] for a in P.args if isinstance(a, URIRef)], [REV[a.arg] for a in P.args if isinstance(a, InvPath)]]
    raise ValueError("not a path: %r" % (P,))


def n3_tree_line(text):
    """rdflib's parser + translatePath on the n3() text: the parser's tree ` => ` the path object built from it"""
    from rdflib.plugins.sparql.algebra import translatePath, traverse
    from rdflib.plugins.sparql.parser import parseQuery
    try:
        q = parseQuery("SELECT * WHERE { ?s %s ?o }" % text)
    except Exception as e:
        if "Parse" in type(e).__name__:
            return "unreadable"
        raise
    tree = q[1]["where"]["part"][0]["triples"][0][1]
    toks = syn_tokens(tree)
    obj = traverse(tree, visitPost=translatePath)
    return " ".join(toks) + " => " + " ".join(path_tokens(obj_ast(obj)))


# ------------------------------------------------------------------ the property's own oracle


def rel(ast, T, U, as_coded=False):
    """the relation the path denotes over triple set T, with zero-length steps on the terms of U.
    `as_coded=True` replaces the negated property set by what NegatedPath.eval computes (known finding C11-F5);
    it is only used to recognise that finding, never to decide a violation."""
    k = ast[0]
    if as_coded:
        if k == "n":
            Ts = set(T)
            return {(s, o) for s, p, o in T if p not in ast[1] and all((o, a, s) not in Ts for a in ast[2])}
        if k == "v":
            return {(o, s) for s, o in rel(ast[1], T, U, True)}
        if k == "s":
            r = rel(ast[1][0], T, U, True)
            for x in ast[1][1:]:
                r2 = rel(x, T, U, True)
                r = {(a, d) for a, b in r for c, d in r2 if b == c}
            return r
        if k == "a":
            r = set()
            for x in ast[1]:
                r |= rel(x, T, U, True)
            return r
        if k == "m":
            r = rel(ast[2], T, U, True)
            ident = {(u, u) for u in U}
            if ast[1] == "?":
                return ident | r
            clo = set(r)
            while True:
                new = {(a, d) for a, b in clo for c, d in r if b == c} - clo
                if not new:
                    break
                clo |= new
            return clo if ast[1] == "+" else clo | ident
    if k == "i":
        return {(s, o) for s, p, o in T if p == ast[1]}
    if k == "v":
        return {(o, s) for s, o in rel(ast[1], T, U)}
    if k == "s":
        r = rel(ast[1][0], T, U)
        for x in ast[1][1:]:
            r2 = rel(x, T, U)
            r = {(a, d) for a, b in r for c, d in r2 if b == c}
        return r
    if k == "a":
        r = set()
        for x in ast[1]:
            r |= rel(x, T, U)
        return r
    if k == "m":
        r = rel(ast[2], T, U)
        ident = {(u, u) for u in U}
        if ast[1] == "?":
            return ident | r
        clo = set(r)
        while True:
            new = {(a, d) for a, b in clo for c, d in r if b == c} - clo
            if not new:
                break
            clo |= new
        return clo if ast[1] == "+" else clo | ident
    if k == "n":
        fw, bw = ast[1], ast[2]
        r = set()
        if fw or not bw:
            r |= {(s, o) for s, p, o in T if p not in fw}
        if bw:
            r |= {(o, s) for s, p, o in T if p not in bw}
        return r
    raise ValueError(k)


def expected(ast, T, s, o, as_coded=False):
    U = {x for t in T for x in (t[0], t[2])} | {x for x in (s, o) if x is not None}
    return {(x, y) for x, y in rel(ast, T, U, as_coded) if (s is None or x == s) and (o is None or y == o)}


def has_inv_neg(ast):
    """a negated property set with an inverse member somewhere in the path (Lean: `¬ Path.noInvNeg`)"""
    k = ast[0]
    if k == "n":
        return bool(ast[2])
    if k == "v":
        return has_inv_neg(ast[1])
    if k == "m":
        return has_inv_neg(ast[2])
    if k in "sa":
        return any(has_inv_neg(x) for x in ast[1])
    return False


def bgp_want(route, ast, T, s, o, as_coded=False):
    """the oracle for the binding shapes of a path pattern inside a BGP (None for the ordinary routes)"""
    if route == "sparql_same":
        return {(x, y) for x, y in expected(ast, T, None, None, as_coded) if x == y}
    if route in ("sparql_same_init", "sparql_same_values"):
        return expected(ast, T, s, s, as_coded)
    if route == "sparql_join_before":
        subj = {t[0] for t in T}
        return {(x, y) for x, y in expected(ast, T, None, None, as_coded) if x in subj}
    if route == "sparql_join_after":
        obj = {t[2] for t in T}
        return {(x, y) for x, y in expected(ast, T, None, None, as_coded) if y in obj}
    return None


def relation_tag(ast, T, s, o, got_set):
    """`neginv` = the known finding C11-F5 and nothing else: the path contains a negated property set with an
    inverse member AND the wrong answer is exactly what NegatedPath.eval's forward-triple test predicts"""
    if has_inv_neg(ast) and got_set == expected(ast, T, s, o, as_coded=True):
        return "neginv"
    return "relation"


class TooBig(Exception):
    pass


def bag(ast, T, U, limit):
    """number of derivations per pair (rdflib's generators repeat a pair once per derivation under `/` and `|`;
    closures are duplicate-free).  Only used by the generator to keep cases cheap: a path whose answer, or an
    intermediate answer, has more than `limit` derivations is not generated (evaluation cost is exponential in
    the nesting of `/` and `|` over dense graphs — a cost, not a property, question)."""
    k = ast[0]
    if k in "in":
        return {pr: 1 for pr in rel(ast, T, U)}
    if k == "m":
        inner = bag(ast[2], T, U, limit)
        if sum(inner.values()) * max(1, len(U)) > 4 * limit:   # the traversal re-evaluates the inner path per node
            raise TooBig()
        return {pr: 1 for pr in rel(ast, T, U)}
    if k == "v":
        return {(o, s): c for (s, o), c in bag(ast[1], T, U, limit).items()}
    if k == "a":
        r = {}
        for x in ast[1]:
            for pr, c in bag(x, T, U, limit).items():
                r[pr] = r.get(pr, 0) + c
        if sum(r.values()) > limit:
            raise TooBig()
        return r
    r = bag(ast[1][0], T, U, limit)
    for x in ast[1][1:]:
        r2 = bag(x, T, U, limit)
        by = {}
        for (c_, d), n in r2.items():
            by.setdefault(c_, []).append((d, n))
        out = {}
        for (a, b), n in r.items():
            for d, n2 in by.get(b, ()):
                out[(a, d)] = out.get((a, d), 0) + n * n2
        if sum(out.values()) > limit:
            raise TooBig()
        r = out
    return r


def cheap(ast, T, limit=1500):
    U = {x for t in T for x in (t[0], t[2])}
    try:
        bag(ast, [tuple(t[:3]) for t in T], U, limit)
        return True
    except TooBig:
        return False


# ------------------------------------------------------------------ generator


def gen_path(rng, d, preds):
    r = rng.random()
    if d <= 1 or r < 0.16:
        if rng.random() < 0.22:
            k = rng.choice([0, 1, 1, 1, 2, 2, 3])
            ms = [(rng.choice(preds), rng.random() < 0.45) for _ in range(k)]
            fw = sorted({p for p, inv in ms if not inv})
            bw = sorted({p for p, inv in ms if inv})
            return ["n", fw, bw]
        return ["i", rng.choice(preds)]
    if r < 0.30:
        return ["v", gen_path(rng, d - 1, preds)]
    if r < 0.50:
        n = rng.choice([1, 2, 2, 2, 3, 3, 4])
        return ["s", [gen_path(rng, d - 1, preds) for _ in range(n)]]
    if r < 0.66:
        n = rng.choice([0, 1, 2, 2, 2, 3])
        return ["a", [gen_path(rng, d - 1, preds) for _ in range(n)]]
    return ["m", rng.choice("?*+*+"), gen_path(rng, d - 1, preds)]


def gen_nullable_seq(rng, preds):
    """sequences whose members can all match with zero length: the shapes where a given but absent (or falsy)
    end has to survive every step, in either direction"""
    def nullable(d):
        r = rng.random()
        inner = gen_path(rng, d, preds)
        if r < 0.75:
            return ["m", rng.choice("?*"), inner]
        if r < 0.85:
            return ["v", ["m", rng.choice("?*"), inner]]
        return ["a", [["m", rng.choice("?*"), inner], gen_path(rng, d, preds)]]
    n = rng.choice([2, 3, 3, 4])
    seq = ["s", [nullable(rng.choice([1, 1, 2])) for _ in range(n)]]
    r = rng.random()
    if r < 0.15:
        return ["v", seq]
    if r < 0.3:
        return ["m", rng.choice("?*+"), seq]
    if r < 0.4:
        return ["s", [seq, nullable(1)]]
    return seq


def gen_graph(rng):
    ids = list(NODE)
    k = rng.randint(4, 6)
    nodes = rng.sample(ids, k)
    if not any(f in nodes for f in FALSY) and rng.random() < 0.7:
        nodes[0] = rng.choice(FALSY)
    preds = rng.sample(list(PRED), rng.choice([1, 2, 2, 3]))
    T = set()
    n = rng.randint(2, 10)
    if rng.random() < 0.35:
        a = rng.choice(nodes)
        T.add((a, rng.choice(preds), a))
    if rng.random() < 0.4:
        a, b = rng.sample(nodes, 2)
        p = rng.choice(preds)
        T |= {(a, p, b), (b, rng.choice([p, p, rng.choice(preds)]), a)}
    if rng.random() < 0.3:
        a, b, c = rng.sample(nodes, 3)
        p = rng.choice(preds)
        T |= {(a, p, b), (b, p, c), (c, rng.choice([p, p, rng.choice(preds)]), a)}
    while len(T) < n:
        T.add((rng.choice(nodes), rng.choice(preds), rng.choice(nodes)))
    T = sorted(T)
    rng.shuffle(T)
    split = rng.choice([[0, 0, 1, 1, 2], [0, 1, 3], [0, 1, 1, 3, 3, 2]])
    return nodes, preds, [[s, p, o, rng.choice(split)] for s, p, o in T]


def pick_end(rng, nodes, used):
    r = rng.random()
    absent = [i for i in NODE if i not in used]
    if r < 0.22 and absent:
        fa = [i for i in absent if i in FALSY]
        return rng.choice(fa) if fa and rng.random() < 0.5 else rng.choice(absent)
    fu = [i for i in used if i in FALSY]
    if r < 0.5 and fu:
        return rng.choice(fu)
    return rng.choice(sorted(used))


# exhaustive slice (thorough): graphs over 3 nodes x 2 predicates = subsets of 18 triples, by index
EX_NODES = [1, 5, 4]
EX_PREDS = [10, 11]
EX_TRIPLES = [(s, p, o) for s in EX_NODES for p in EX_PREDS for o in EX_NODES]
_P, _Q = ["i", 10], ["i", 11]
EX_PATHS = [
    ["m", "*", _P], ["m", "+", _P], ["m", "?", _P], ["v", ["m", "*", _P]], ["m", "+", ["v", _P]],
    ["m", "*", ["a", [_P, _Q]]], ["m", "+", ["s", [_P, _Q]]], ["s", [["m", "*", _P], ["m", "*", _Q]]],
    ["s", [["m", "?", _P], _Q, ["m", "*", _P]]], ["s", [["m", "*", _P], ["m", "?", _Q], ["m", "*", _P]]],
    ["a", [["m", "+", _P], ["v", _Q]]], ["m", "*", ["m", "?", _P]], ["m", "+", ["m", "*", _P]],
    ["n", [10], []], ["n", [], [10]], ["n", [10], [11]], ["m", "*", ["n", [], [10]]], ["m", "+", ["n", [10], [10]]],
    ["s", [_P, ["v", _P]]], ["m", "*", ["s", [_P, ["v", _Q]]]], ["v", ["s", [_P, ["m", "+", _Q]]]],
    ["m", "?", ["s", [["m", "*", _P], _Q]]], ["a", [["s", [_P, _Q]], ["m", "*", ["v", _P]]]], ["n", [], []],
]
EX_ENDS = EX_NODES + [9]   # 9 does not occur in any of these graphs


def ex_graph(gi):
    return [EX_TRIPLES[b] for b in range(18) if gi >> b & 1]


def ex_bindings(gi, pi):
    """(free, free) + one binding of each other kind, rotating with the graph and the shape"""
    k = gi * 7 + pi * 3
    a, b = EX_ENDS[k % 4], EX_ENDS[(k // 4) % 4]
    return [[None, None], [a, None], [None, b], [a, b if (k // 16) % 3 else a]]


def gen_exhaustive(rng, block):
    return {"ex": block, "style": block % 2}


def gen_empty_view(rng):
    """an EMPTY active graph somewhere: a fresh graph, a graph emptied again, a dataset whose default graph is empty,
    an empty registered named graph — with given ends, where the zero-length matches of `?`/`*` are the whole answer"""
    preds = rng.sample(list(PRED), 2)
    kind = rng.choice(["all", "all", "default", "named"])
    if kind == "all":
        T = []
    else:
        nodes = rng.sample(list(NODE), 4)
        part = 1 if kind == "default" else 0      # every triple in the *other* graph
        T = sorted({(rng.choice(nodes), rng.choice(preds), rng.choice(nodes)) for _ in range(rng.randint(1, 5))})
        T = [[s, p, o, part] for s, p, o in T]
    ghost = []
    if rng.random() < 0.5:
        ghost = [[rng.choice(list(NODE)), rng.choice(preds), rng.choice(list(NODE))] for _ in range(rng.randint(1, 3))]
    r = rng.random()
    if r < 0.45:
        path = ["m", rng.choice("?*"), gen_path(rng, rng.choice([1, 1, 2]), preds)]
    elif r < 0.8:
        path = gen_nullable_seq(rng, preds)
    elif r < 0.9:
        path = ["a", [["m", rng.choice("?*"), ["i", preds[0]]], ["v", ["m", "*", ["i", preds[1]]]]]]
    else:
        path = ["m", "+", gen_path(rng, 2, preds)]
    s, o = rng.choice(list(NODE)), rng.choice(list(NODE))
    if rng.random() < 0.3:
        o = s
    return {"triples": T, "ghost": ghost, "path": path, "ends": [[s, None], [None, o], [s, o], [None, None]],
            "routes": ["triples", "so", "agg", "ds_default", "ds_named", "sparql_const", "sparql_tree", "sparql_ds_union",
                       "sparql_ds_default", "sparql_ds_graph", "sparql_n3"] + list(BGP_ROUTES) + ["view", "sparql_gvar1", "sparql_gvar2"],
            "style": rng.choice([0, 1, 2]), "kind": rng.choice(KINDS)}


# ---- incremental construction from shared sub-path objects ------------------------------------------------
# case["inc"] = list of steps, step k creates object k from earlier objects:
#   ["iri", p] | ["inv", i] | ["seq", i, j] | ["alt", i, j] | ["mul", i, mod] | ["neg", i]
# Every object is evaluated right after it was created and again after each later step that used it as an operand
# (and all objects once more at the end): a constructor must not change its operands.


def inc_asts(steps):
    asts = []
    for st in steps:
        k = st[0]
        if k == "iri":
            asts.append(["i", st[1]])
        elif k == "inv":
            asts.append(["v", asts[st[1]]])
        elif k == "seq":
            asts.append(["s", [asts[st[1]], asts[st[2]]]])
        elif k == "alt":
            asts.append(["a", [asts[st[1]], asts[st[2]]]])
        elif k == "mul":
            asts.append(["m", st[2], asts[st[1]]])
        elif k == "neg":
            a = asts[st[1]]
            ms = a[1] if a[0] == "a" else [a]
            asts.append(["n", [m[1] for m in ms if m[0] == "i"], [m[1][1] for m in ms if m[0] == "v"]])
        else:
            raise ValueError(k)
    return asts


def _negatable(ast):
    member = lambda a: a[0] == "i" or (a[0] == "v" and a[1][0] == "i")  # noqa: E731
    return member(ast) or (ast[0] == "a" and len(ast[1]) >= 1 and all(member(x) for x in ast[1]))


def inc_events(steps):
    """(object index) in evaluation order: the new object and its operands after every step, everything at the end"""
    ev = []
    for k, st in enumerate(steps):
        ev.append(k)
        for x in st[1:]:
            if isinstance(x, int) and st[0] != "iri" and x not in ev[-3:]:
                ev.append(x)
    ev += list(range(len(steps)))
    return ev


def gen_incremental(rng):
    nodes, preds, T = gen_graph(rng)
    steps = [["iri", p] for p in preds]
    if len(steps) == 1:
        steps.append(["iri", rng.choice(list(PRED))])
    for _ in range(rng.randint(3, 8)):
        asts = inc_asts(steps)
        n = len(steps)
        r = rng.random()
        # prefer recently built composite objects as (leading) operands: that is where sharing bites
        comp = [k for k in range(n) if asts[k][0] in "sa"]
        lead = rng.choice(comp) if comp and rng.random() < 0.6 else rng.randrange(n)
        if r < 0.4:
            st = ["seq", lead, rng.randrange(n)] if rng.random() < 0.7 else ["seq", rng.randrange(n), lead]
        elif r < 0.65:
            st = ["alt", lead, rng.randrange(n)] if rng.random() < 0.7 else ["alt", rng.randrange(n), lead]
        elif r < 0.78:
            st = ["inv", rng.randrange(n)]
        elif r < 0.92:
            st = ["mul", rng.randrange(n), rng.choice("?*+")]
        else:
            cand = [k for k in range(n) if _negatable(asts[k])]
            st = ["neg", rng.choice(cand)] if cand else ["inv", rng.randrange(n)]
        if not cheap(inc_asts(steps + [st])[-1], T, 600):
            continue
        steps.append(st)
    used = {x for t in T for x in (t[0], t[2])}
    s, o = pick_end(rng, nodes, used), pick_end(rng, nodes, used)
    return {"inc": steps, "triples": T, "ends": [[None, None], [s, None], [None, o]], "style": rng.choice([0, 1, 1, 2])}


def _inc_build(st, objs, style):
    k = st[0]
    if k == "iri":
        return PRED[st[1]]
    a = objs[st[1]]
    if k == "inv":
        return inv_path(a) if style == 2 else ~a if style else InvPath(a)
    if k == "seq":
        b = objs[st[2]]
        return path_sequence(a, b) if style == 2 else a / b if style else SequencePath(a, b)
    if k == "alt":
        b = objs[st[2]]
        return path_alternative(a, b) if style == 2 else a | b if style else AlternativePath(a, b)
    if k == "mul":
        return mul_path(a, st[2]) if style == 2 else a * st[2] if style else MulPath(a, st[2])
    return neg_path(a) if style == 2 else -a if style else NegatedPath(a)


def _run_inc(case):
    steps, asts = case["inc"], inc_asts(case["inc"])
    T = sorted({tuple(t[:3]) for t in case["triples"]})
    g = Graph()
    for s, p, o in T:
        g.add((TERM[s], TERM[p], TERM[o]))
    style = case.get("style", 0)
    obs, viol, objs = [], [], []
    stats = {"inc_cases": 1, "inc_steps": len(steps), "inc_evaluations": 0,
             "inc_same_object_twice": sum(1 for st in steps if st[0] in ("seq", "alt") and st[1] == st[2]),
             "axis_build_" + {0: "constructors", 1: "operators", 2: "helper_functions"}[case.get("style", 0)]: 1}
    for st in steps:
        stats["inc_op_" + st[0]] = stats.get("inc_op_" + st[0], 0) + 1
    events = inc_events(steps)
    built = 0
    nontrivial = False
    for n_ev, k in enumerate(events):
        while built <= k:
            try:
                objs.append(_inc_build(steps[built], objs, style))
            except Exception as e:
                viol.append(f"raise: building step {built} {steps[built]} raised {type(e).__name__}: {str(e)[:100]}")
                objs.append(None)
            built += 1
        P, ast = objs[k], asts[k]
        later = any(k in st[1:] and st[0] != "iri" for st in steps[k + 1:built])
        for s, o in case["ends"]:
            stats["inc_evaluations"] += 1
            if P is None or isinstance(P, URIRef) and False:
                obs.append("ERR:Other")
                continue
            S, O = (None if s is None else TERM[s]), (None if o is None else TERM[o])
            try:
                got = [(REV[a], REV[b]) for a, _p, b in g.triples((S, P, O))]
            except core.CaseTimeout:
                raise
            except Exception as e:
                obs.append("ERR:" + _err(e))
                viol.append(f"raise: object {k} {ast} ends ({s},{o}) raised {type(e).__name__}: {str(e)[:100]}")
                continue
            obs.append(_line(got, is_closure(ast)))
            want = expected(ast, T, s, o)
            gs = set(got)
            if gs != want:
                tag = relation_tag(ast, T, s, o, gs)
                if tag == "relation" and later:
                    tag = "operand"      # the object was fine when built (else an earlier event fails too)
                viol.append(f"{tag}: object {k} built as {ast}, evaluated {'after' if later else 'before'} being used as an "
                            f"operand, ends ({s},{o}) on {T}: missing {sorted(want - gs)} extra {sorted(gs - want)}")
            if is_closure(ast) and len(got) != len(gs):
                viol.append(f"dup: object {k} closure {ast} ends ({s},{o}) on {T} yields duplicates")
            if want and later:
                nontrivial = True
    return {"obs": obs, "viol": viol, "nontrivial": nontrivial, "key": repr((T, steps, case["ends"])), "stats": stats}


def gen_case(rng, tier, i):
    if tier == "thorough" and i < EX_BLOCKS:
        return gen_exhaustive(rng, i)
    if i % 12 == 9:
        return gen_incremental(rng)
    if i % 12 == 5:
        return gen_empty_view(rng)
    nodes, preds, T = gen_graph(rng)
    dmax = 4 if tier == "quick" else 6
    used = {x for t in T for x in (t[0], t[2])}
    nullable = rng.random() < 0.15
    for attempt in range(30):
        if nullable:
            path = gen_nullable_seq(rng, preds)
        else:
            path = gen_path(rng, rng.randint(2, dmax if attempt < 20 else 3), preds if rng.random() < 0.85 else list(PRED))
            if path[0] in "in" and rng.random() < 0.7:
                path = ["m", rng.choice("?*+"), path]
        if cheap(path, T):
            break
    else:
        path = ["m", "*", ["i", preds[0]]]
    if nullable:
        absent = [x for x in NODE if x not in used]
        s, o = [rng.choice(absent) if absent and rng.random() < 0.6 else pick_end(rng, nodes, used) for _ in range(2)]
    else:
        s, o = pick_end(rng, nodes, used), pick_end(rng, nodes, used)
    if rng.random() < 0.15:
        o = s
    ends = [[None, None], [s, None], [None, o], [s, o]]
    routes = ["triples", "view", "so", "agg", "in_agg", "sparql_n3", "api", "first_false"] + list(BGP_ROUTES)
    routes += rng.sample(["so_unique", "so_list", "value", "slice", "resource", "eval_direct", "interleave"],
                         2 if tier == "quick" else 4)
    if "interleave" in routes:
        routes.append("interleave_b")
    r = rng.random()
    if r < 0.5:
        routes += ["ds_union", "ds_default", "ds_named", "in_ds"]
    if i % 2 == 0:
        routes += ["sparql_const", "sparql_values", "sparql_tree"]
        if "ds_union" in routes:
            routes += ["sparql_ds_union", "sparql_ds_default", "sparql_ds_graph", "sparql_ds_init", "sparql_gvar1", "sparql_gvar2"]
        else:
            # SPARQL over the composite graph: the hops of a path lie in different member graphs
            routes += ["sparql_agg", "sparql_agg_values", "sparql_agg_init", "sparql_init"]
    kind = rng.choice(["graph", "graph", "ds_union", "cg", "agg", "named"])
    if kind == "named":
        # the ends refer to the named graph's own triples where possible
        usedn = {x for t in T if t[3] in (1, 2) for x in (t[0], t[2])}
        if usedn and rng.random() < 0.7:
            s2, o2 = rng.choice(sorted(usedn)), rng.choice(sorted(usedn))
            ends = [[None, None], [s2, None], [None, o2], [s2, o2 if rng.random() < 0.8 else s2]]
    return {"triples": T, "path": path, "ends": ends, "routes": routes, "style": rng.choice([0, 1, 2]),
            "store": rng.choice(["Memory", "Memory", "SimpleMemory"]) if kind == "graph" else "Memory", "kind": kind}


# ------------------------------------------------------------------ implementation side


def _err(e):
    for cls in (IndexError, KeyError, ValueError, TypeError, AssertionError, RecursionError):
        if isinstance(e, cls):
            return cls.__name__
    return "ParseError" if "Parse" in type(e).__name__ else "Other"


def _third(case):
    """triples held only by the third member graph / the second named graph (part 3)"""
    return sorted({tuple(t[:3]) for t in case["triples"] if t[3] == 3})


def _graphs(case):
    T = [tuple(t[:3]) for t in case["triples"]]
    full = sorted(set(T))
    dflt = sorted({tuple(t[:3]) for t in case["triples"] if t[3] in (0, 2)})
    named = sorted({tuple(t[:3]) for t in case["triples"] if t[3] in (1, 2)})
    # 4th view, for the aggregate: the concatenation of its (three) members (a shared triple occurs twice).  rdflib's
    # aggregate de-duplicates such triples; the model is run on the concatenation on purpose — its theorems hold for
    # any list, and the answers (sets; duplicate-free lists for closures) must not depend on the multiplicity
    return [full, dflt, named, dflt + named + _third(case)]


def _applicable(route, case, s, o, parts):
    if route.startswith("sparql"):
        if has_empty_alt(case["path"]) and route != "sparql_n3":
            return False        # no SPARQL spelling (sparql_n3 takes whatever n3() writes, readable or not)
        if any(x in NO_SPARQL_TERM for x in (s, o) if x is not None):
            return False
    if route == "sparql_tree" and "sparql_const" not in case["routes"]:
        return False
    if route in ("sparql_same", "sparql_join_before", "sparql_join_after") and not (s is None and o is None):
        return False        # shapes of the both-ends-free pattern: `?x path ?x`, an end also bound by another pattern
    if route in ("sparql_same_init", "sparql_same_values") and (s is None or o is not None):
        return False        # `?x path ?x` with ?x pre-bound to the case's start term
    if route == "sparql_same_values" and s not in {x for t in parts[view_part(case)] for x in (t[0], t[2])}:
        return False        # VALUES with a term absent from the graph: C15-K1 (see ASSUMPTIONS)
    if route == "sparql_gvar2" and not _third(case):
        return False        # the second named graph is only registered in ds_u / ds_d when it holds a triple
    if route == "first_false" and case["path"][0] != "m":
        return False        # MulPath.eval(graph, s, o, first=False): only a MulPath has the flag
    one_end = (s is None) != (o is None)
    if route in ("value", "resource", "so_list") and not one_end:
        return False        # Graph.value / Resource.objects|subjects / objects([s], …): exactly one end given
    if route == "slice" and (s is not None and o is not None):
        return False        # g[s:path], g[:path:o], g[:path]
    if route in ("slice", "resource") and s is not None and isinstance(TERM[s], Literal):
        return False        # these two APIs refuse a literal subject by assertion / construction
    if route == "interleave_b" and "interleave" not in case["routes"]:
        return False
    if route in ("in_agg", "in_ds") and (s is None or o is None):
        return False        # `(s, path, o) in graph`: both ends given
    if route.endswith("_init") and s is None and o is None:
        return False
    if route in ("sparql_values", "sparql_agg_values"):
        used = {x for t in parts[route_part(route, case)] for x in (t[0], t[2])}
        if (s is None and o is None) or any(x not in used for x in (s, o) if x is not None):
            return False
    return True


def _n3(i):
    return "<>" if i == 13 else TERM[i].n3()


def _run_route(route, env, path_ast, s, o):
    """list of (start, end) id pairs produced by the real code through one route"""
    S, O = (None if s is None else TERM[s]), (None if o is None else TERM[o])
    P = env["path"]
    back = lambda pairs: [(REV[a], REV[b]) for a, b in pairs]  # noqa: E731
    if route in ("triples", "view"):     # `view`: same call, compared with the Lean evaluator over the graph OBJECT (veval)
        return back((a, b) for a, _p, b in env["g"].triples((S, P, O)))
    if route == "so":
        g = env["g"]
        if S is None and O is None:
            return back(g.subject_objects(P))
        if O is None:
            return back((S, b) for b in g.objects(S, P))
        if S is None:
            return back((a, O) for a in g.subjects(P, O))
        return [(s, o)] if (S, P, O) in g else []
    if route == "so_unique":
        g = env["g"]
        if S is None and O is None:
            return back(g.subject_objects(P, unique=True))
        if O is None:
            return back((S, b) for b in g.objects(S, P, unique=True))
        if S is None:
            return back((a, O) for a in g.subjects(P, O, unique=True))
        return [(s, o)] if (S, P, O) in g else []
    if route == "so_list":          # the subject / object given as a list of nodes
        g = env["g"]
        if O is None:
            return back((S, b) for b in g.objects([S], P))
        return back((a, O) for a in g.subjects(P, [O]))
    if route == "value":
        # Graph.value picks one answer: it must be one of the answers, and None only if there is none.  Reported as
        # the whole expected answer when it is one of them (so that the observation is deterministic)
        g = env["g"]
        v = g.value(S, P, None) if O is None else g.value(None, P, O)
        if v is None:
            return []
        pair = (s, REV[v]) if O is None else (REV[v], o)
        # (membership is tested against the relation the code computes, which is the specified one except for known
        #  finding C11-F5; the violation itself is decided in run_impl against the specification as for every route)
        want = expected(path_ast, env["T"], s, o, as_coded=True)
        return sorted(want) if pair in want else [pair]
    if route == "slice":
        g = env["g"]
        if S is None and O is None:
            return back(g[:P])
        if O is None:
            return back((S, b) for b in g[S:P])
        return back((a, O) for a in g[:P:O])
    if route == "resource":
        g = env["g"]
        ident = lambda x: x.identifier if isinstance(x, Resource) else x  # noqa: E731
        if O is None:
            return back((S, ident(b)) for b in Resource(g, S).objects(P))
        return back((ident(a), O) for a in Resource(g, O).subjects(P))
    if route == "first_false":
        return back(P.eval(env["g"], S, O, first=False))
    if route == "eval_direct":
        g = env["g"]
        if isinstance(P, URIRef) or env["style"] == 1:
            return back(eval_path(g, (S, P, O)))
        if env["style"] == 2:
            return back(evalPath(g, (S, P, O)))
        return back(P.eval(g, S, O))
    if route == "interleave":
        # two lazy evaluations of the SAME path object over two graphs, consumed alternately
        it1, it2 = env["g"].triples((S, P, O)), env["g0"].triples((S, P, O))
        r1, r2, live = [], [], [True, True]
        while any(live):
            for k, (it, acc) in enumerate(((it1, r1), (it2, r2))):
                if live[k]:
                    try:
                        a, _p, b = next(it)
                        acc.append((a, b))
                    except StopIteration:
                        live[k] = False
        env.setdefault("_il", {})[(s, o)] = back(r2)
        return back(r1)
    if route == "interleave_b":
        return env["_il"][(s, o)]
    if route == "ds_union":
        return back((a, b) for a, _p, b in env["ds_u"].triples((S, P, O)))
    if route == "ds_default":
        return back((a, b) for a, _p, b in env["ds_d"].triples((S, P, O)))
    if route == "ds_named":
        ds = env["ds_d"] if env["style"] else env["ds_u"]
        ng = ds.graph(GNAME)
        if s is None:
            return back((a, b) for a, _p, b in ds.triples((S, P, O, ng)))
        if o is None:
            return back((a, b) for a, _p, b in ds.triples((S, P, O), context=ng))
        return back((a, b) for a, _p, b in ng.triples((S, P, O)))
    if route == "agg":
        return back((a, b) for a, _p, b in env["agg"].triples((S, P, O)))
    if route == "in_agg":
        return [(s, o)] if (S, P, O) in env["agg"] else []
    if route == "in_ds":
        return [(s, o)] if (S, P, O) in env["ds_u"] else []
    txt = None if has_empty_alt(path_ast) else sparql_text(path_ast, env["style"])
    g = env["g"]
    if route in ("sparql_gvar1", "sparql_gvar2"):
        # GRAPH ?g { s path o } over the dataset: one evaluation per named graph (never the default graph), ?g bound to it
        ds = env["ds_d"] if env["style"] else env["ds_u"]
        pat = "%s %s %s" % ("?s" if s is None else _n3(s), txt, "?o" if o is None else _n3(o))
        rows = ds.query(PFX + "SELECT ?g ?s ?o WHERE { GRAPH ?g { %s } }" % pat).bindings
        from rdflib.term import Variable
        vg, vs, vo = Variable("g"), Variable("s"), Variable("o")
        strange = {r[vg] for r in rows} - {GNAME, GNAME2}
        if strange:
            raise ValueError("GRAPH ?g bound to %r" % sorted(strange))
        want_g = GNAME if route == "sparql_gvar1" else GNAME2
        return back((r.get(vs, S), r.get(vo, O)) for r in rows if r[vg] == want_g)
    if route in BGP_ROUTES:
        if route == "sparql_same":
            res = g.query(PFX + "SELECT ?x WHERE { ?x %s ?x }" % txt)
        elif route == "sparql_same_init":
            res = g.query(PFX + "SELECT ?x WHERE { ?x %s ?x }" % txt, initBindings={"x": S})
        elif route == "sparql_same_values":
            q = ("SELECT ?x WHERE { VALUES ?x { %s } ?x %s ?x }" if env["style"] else "SELECT ?x WHERE { ?x %s ?x } VALUES ?x { %s }")
            res = g.query(PFX + (q % ((_n3(s), txt) if env["style"] else (txt, _n3(s)))))
        elif route == "sparql_join_before":
            return back((r[0], r[1]) for r in g.query(PFX + "SELECT DISTINCT ?s ?o WHERE { ?s ?pp ?zz . ?s %s ?o }" % txt))
        else:
            return back((r[0], r[1]) for r in g.query(PFX + "SELECT DISTINCT ?s ?o WHERE { ?s %s ?o . ?zz ?pp ?o }" % txt))
        return back((r[0], r[0]) for r in res)
    if route == "sparql_n3":
        # the query text of the path is what the object's own n3() writes (with the prefixes of a namespace manager in
        # style 2); the query is then parsed, translated and evaluated by rdflib as any other
        txt = P.n3(NSM) if env["style"] == 2 else P.n3()
        route = "sparql_n3_const"
    if route == "sparql_agg":
        route, g = "sparql_const", env["agg"]
    elif route == "sparql_agg_values":
        route, g = "sparql_values", env["agg"]
    if route in ("sparql_init", "sparql_agg_init", "sparql_ds_init"):
        # the given ends arrive as initBindings: the pattern's variables are already bound when evalBGP runs
        target = {"sparql_init": g, "sparql_agg_init": env.get("agg"), "sparql_ds_init": env.get("ds_u")}[route]
        init = {v: x for v, x in (("s", S), ("o", O)) if x is not None}
        return back((r[0], r[1]) for r in target.query(PFX + "SELECT ?s ?o WHERE { ?s %s ?o }" % txt, initBindings=init))
    if route in ("sparql_const", "sparql_n3_const", "sparql_ds_union", "sparql_ds_default", "sparql_ds_graph"):
        pat = "%s %s %s" % ("?s" if s is None else _n3(s), txt, "?o" if o is None else _n3(o))
        if route == "sparql_ds_graph":
            # the named graph is registered in the dataset even when it holds no triple
            pat = "GRAPH <%s> { %s }" % (GNAME, pat)
        q = "SELECT %s WHERE { %s }" % (" ".join(v for v, x in (("?s", s), ("?o", o)) if x is None) or "*", pat)
        target = {"sparql_const": g, "sparql_n3_const": g, "sparql_ds_union": env.get("ds_u"), "sparql_ds_default": env.get("ds_d"),
                  "sparql_ds_graph": env.get("ds_d") if env["style"] else env.get("ds_u")}[route]  # g may be the aggregate
        if route == "sparql_n3_const":
            from rdflib.plugins.sparql.parser import parseQuery
            try:
                parseQuery(PFX + "PREFIX rdf: <%s> " % RDF + q)
            except Exception as e:
                if "Parse" in type(e).__name__:
                    raise Unreadable(txt)
                raise
        res = target.query(PFX + q)
        if s is not None and o is not None:
            # no variable left: one empty solution per match (Result.__iter__ skips empty solutions, so count them)
            return [(s, o)] * len(res.bindings)
        rows = list(res)
        if s is None and o is None:
            return back((r[0], r[1]) for r in rows)
        if o is None:
            return back((S, r[0]) for r in rows)
        return back((r[0], O) for r in rows)
    if route == "sparql_values":
        bound = [(v, x) for v, x in (("?s", s), ("?o", o)) if x is not None]
        if env["style"]:
            vals = "".join("VALUES %s { %s } " % (v, _n3(x)) for v, x in bound)
            q = "SELECT ?s ?o WHERE { %s ?s %s ?o }" % (vals, txt)
        else:
            vals = "VALUES (%s) { (%s) }" % (" ".join(v for v, _x in bound), " ".join(_n3(x) for _v, x in bound))
            q = "SELECT ?s ?o WHERE { ?s %s ?o } %s" % (txt, vals)
        return back((r[0], r[1]) for r in g.query(PFX + q))
    raise ValueError(route)


def _fill(graph, triples, ghost):
    """add the triples; `ghost` triples are added first and removed again (a graph that was emptied / shrunk)"""
    keep = set(triples)
    for s, p, o in ghost:
        graph.add((TERM[s], TERM[p], TERM[o]))
    for s, p, o in triples:
        graph.add((TERM[s], TERM[p], TERM[o]))
    for t in ghost:
        if tuple(t) not in keep:
            graph.remove((TERM[t[0]], TERM[t[1]], TERM[t[2]]))


def _build_env(case, parts):
    env = {"style": case.get("style", 0)}
    ghost = [tuple(t) for t in case.get("ghost", [])]
    kind = case.get("kind", "graph")
    third0 = _third(case)
    if kind == "graph":
        g = Graph(store=case.get("store", "Memory"))
        _fill(g, parts[FULL], ghost)
    elif kind in ("ds_union", "cg", "named"):
        # one store, three contexts; `named` looks at it through ds.graph(g1) only (union on or off by style)
        ds = ConjunctiveGraph() if kind == "cg" else Dataset(default_union=(kind == "ds_union" or case.get("style", 0) == 1))
        _fill(ds.default_context, parts[DEFAULT], ghost)
        ng = ds.get_context(GNAME) if kind == "cg" else ds.graph(GNAME)
        _fill(ng, parts[NAMED], ghost)
        if third0 or case.get("style"):
            _fill(ds.get_context(GNAME2) if kind == "cg" else ds.graph(GNAME2), third0, ghost)
        g = ng if kind == "named" else ds
        env["view_owner"] = ds
    else:
        m0, m1 = Graph(), Graph()
        _fill(m0, parts[DEFAULT], ghost)
        _fill(m1, parts[NAMED], ghost)
        ms = [m0, m1]
        if third0 or case.get("style"):
            m2 = Graph()
            _fill(m2, third0, ghost)
            ms.append(m2)
        g = ReadOnlyGraphAggregate(ms)
    env["g"] = g
    env["T"] = parts[view_part(case)]
    if "interleave" in case["routes"]:
        g0 = Graph()
        _fill(g0, parts[DEFAULT], ghost)
        env["g0"] = g0
    third = _third(case)
    if any(r.startswith("ds_") or r.startswith("sparql_ds") or r.startswith("sparql_gvar") or r == "in_ds" for r in case["routes"]):
        for key, union in (("ds_u", True), ("ds_d", False)):
            ds = Dataset(default_union=union)
            _fill(ds.default_context if hasattr(ds, "default_context") else ds, parts[DEFAULT], ghost)
            ng = ds.graph(GNAME)
            _fill(ng, parts[NAMED], ghost)
            if third:
                _fill(ds.graph(GNAME2), third, ghost)
            env[key] = ds
    if any(r == "agg" or r == "in_agg" or r.startswith("sparql_agg") for r in case["routes"]):
        g0, g1 = Graph(), Graph()
        _fill(g0, parts[DEFAULT], ghost)
        _fill(g1, parts[NAMED], ghost)
        members = [g0, g1]
        if third or case.get("style"):      # a third member, possibly holding nothing
            g2 = Graph()
            _fill(g2, third, ghost)
            members.append(g2)
        env["agg"] = ReadOnlyGraphAggregate(members)
    return env


def _api_line(env, ast, s, o, T, viol):
    """round g: the Graph API entry points with the path as predicate, one canonical line (see Drive.lean `api`)"""
    g, P = env["g"], env["path"]
    S, O = (None if s is None else TERM[s]), (None if o is None else TERM[o])
    terms = lambda xs: " ".join(str(i) for i in sorted(REV[x] for x in xs))  # noqa: E731
    pairs = lambda ps: " ".join("%d,%d" % p for p in sorted((REV[a], REV[b]) for a, b in ps))  # noqa: E731
    want = expected(ast, T, s, o)
    if S is not None and O is not None:
        got = (S, P, O) in g
        if got != bool(want):
            tag = relation_tag(ast, T, s, o, {(s, o)} if got else set())
            viol.append(f"{tag}: route api `in` path {ast} ends ({s},{o}) on {T}: {got}, expected {bool(want)}")
        return "in|" + ("T" if got else "F")
    if S is None and O is None:
        plain, uq = list(g.subject_objects(P)), list(g.subject_objects(P, unique=True))
        if len(uq) != len(set(uq)):
            viol.append(f"uniq: subject_objects(path, unique=True) yields duplicates, path {ast} on {T}")
        if set(uq) != set(plain):
            viol.append(f"uniq: subject_objects(path, unique=True) differs from unique=False as a set, path {ast} on {T}")
        return "so|" + pairs(set(plain)) + "|uniq|" + pairs(uq)
    if O is None:
        plain, uq = list(g.objects(S, P)), list(g.objects(S, P, unique=True))
        twice, val, name = list(g.objects([S, S], P, unique=True)), g.value(S, P), "objs"
    else:
        plain, uq = list(g.subjects(P, O)), list(g.subjects(P, O, unique=True))
        twice, val, name = list(g.subjects(P, [O, O], unique=True)), g.value(None, P, O), "subjs"
    if len(uq) != len(set(uq)):
        viol.append(f"uniq: {name}(…, unique=True) yields duplicates, path {ast} ends ({s},{o}) on {T}")
    if set(uq) != set(plain):
        viol.append(f"uniq: {name}(…, unique=True) differs from unique=False as a set, path {ast} ends ({s},{o}) on {T}")
    if sorted(REV[x] for x in twice) != sorted(2 * [REV[x] for x in uq]):
        viol.append(f"uniq: {name} over the list [x, x] is not twice the answer for x, path {ast} ends ({s},{o}) on {T}")
    if (val is None) != (not plain) or (val is not None and val not in plain):
        viol.append(f"value: Graph.value gives {val!r}, answers {plain!r}, path {ast} ends ({s},{o}) on {T}")
    return "%s|%s|uniq|%s|twice|%s|value|%d" % (name, terms(set(plain)), terms(uq), terms(twice), int(val is not None))


def _line(pairs, closure):
    ps = sorted(pairs) if closure else sorted(set(pairs))
    return "T|" + " ".join("%d,%d" % p for p in ps)


def _plan(case):
    """(binding, route) in observation order, shared by run_impl and select_model_obs"""
    parts = _graphs(case)
    plan = []
    for s, o in case["ends"]:
        for route in ROUTES:
            if route in case["routes"] and _applicable(route, case, s, o, parts):
                plan.append((s, o, route))
    return parts, plan


def _ex_items(case):
    """(graph index, shape index) of the block, in order"""
    b = case["ex"]
    return [(gi, pi) for gi in range(b * EX_BLOCK, (b + 1) * EX_BLOCK) for pi in range(len(EX_PATHS))]


def _ex_case(gi, pi, style=0):
    """the ordinary case equivalent to one (graph, shape) of a block — used for replay / shrinking"""
    return {"triples": [[*t, 0] for t in ex_graph(gi)], "path": EX_PATHS[pi], "ends": ex_bindings(gi, pi),
            "routes": ["triples"], "style": style}


def _run_ex(case):
    obs, viol = [], []
    stats = {"ex_blocks": 1, "ex_graphs": EX_BLOCK, "ex_evaluations": 0}
    style = case.get("style", 0)
    paths = [to_rdflib(a, style) for a in EX_PATHS]
    closures = [is_closure(a) for a in EX_PATHS]
    g, cur = None, None
    ntag = {}
    for gi, pi in _ex_items(case):
        if gi != cur:
            cur, T = gi, ex_graph(gi)
            g = Graph()
            for s, p, o in T:
                g.add((TERM[s], TERM[p], TERM[o]))
        to_model = pi == gi % len(EX_PATHS)
        for s, o in ex_bindings(gi, pi):
            S, O = (None if s is None else TERM[s]), (None if o is None else TERM[o])
            stats["ex_evaluations"] += 1
            try:
                got = [(REV[a], REV[b]) for a, _p, b in g.triples((S, paths[pi], O))]
            except core.CaseTimeout:
                raise
            except Exception as e:
                if to_model:
                    obs.append("ERR:" + _err(e))
                ntag["raise"] = ntag.get("raise", 0) + 1
                if ntag["raise"] <= 3:
                    viol.append(f"raise: route triples path {EX_PATHS[pi]} ends ({s},{o}) on {T} raised {type(e).__name__}")
                continue
            if to_model:
                obs.append(_line(got, closures[pi]))
            want = expected(EX_PATHS[pi], T, s, o)
            gs = set(got)
            if gs != want:
                tag = relation_tag(EX_PATHS[pi], T, s, o, gs)
                ntag[tag] = ntag.get(tag, 0) + 1
                if ntag[tag] <= 3:   # a few of each kind: the known shape must not crowd out anything else
                    viol.append(f"{tag}: route triples path {EX_PATHS[pi]} ends ({s},{o}) on {T}: missing "
                                f"{sorted(want - gs)} extra {sorted(gs - want)}")
            if closures[pi] and len(got) != len(gs):
                ntag["dup"] = ntag.get("dup", 0) + 1
                if ntag["dup"] <= 3:
                    viol.append(f"dup: route triples closure path {EX_PATHS[pi]} ends ({s},{o}) on {T} yields duplicates: {sorted(got)}")
    viol.sort(key=lambda v: v.startswith("neginv:"))   # anything that is not the known shape comes first
    stats["ex_known_neginv"] = ntag.get("neginv", 0)
    return {"obs": obs, "viol": viol, "nontrivial": True, "key": "ex:%d" % case["ex"], "stats": stats}


def run_impl(case):
    if "ex" in case:
        return _run_ex(case)
    if "inc" in case:
        return _run_inc(case)
    parts, plan = _plan(case)
    ast = case["path"]
    closure = is_closure(ast)
    obs, viol = [], []
    stats = {"cases": 1, "triples": len(parts[FULL]), "depth_%d" % depth(ast): 1, "closure_top": int(closure)}
    for k, v in ops_of(ast).items():
        stats["op_" + k] = v
    used = {x for t in parts[FULL] for x in (t[0], t[2])}
    stats["self_loop"] = int(any(t[0] == t[2] for t in parts[FULL]))
    stats["axis_build_" + {0: "constructors", 1: "operators", 2: "helper_functions"}[case.get("style", 0)]] = 1
    stats["axis_store_" + case.get("store", "Memory")] = 1
    stats["axis_kind_" + case.get("kind", "graph")] = 1
    stats["axis_members_3"] = int(bool(_third(case)))
    if any(t[1] == 14 for t in parts[FULL]) or _has(ast, lambda a: a[0] == "i" and a[1] == 14):
        stats["axis_rdf_type_a"] = 1
    for name, part in (("full", FULL), ("default", DEFAULT), ("named", NAMED)):
        if not parts[part]:
            stats["empty_" + name + "_graph"] = 1
    if case.get("ghost"):
        stats["emptied_after_adds"] = 1
    try:
        env = _build_env(case, parts)
        env["path"] = to_rdflib(ast, env["style"])
    except Exception as e:  # building the path object / the graphs must not fail
        viol.append(f"raise: constructing the path {ast} raised {type(e).__name__}: {e}")
        return {"obs": ["ERR:" + _err(e)] * len(plan), "viol": viol, "nontrivial": False, "key": "construct", "stats": stats}
    nontrivial = False
    const_line = {}
    for s, o, route in plan:
        if route == "sparql_tree":
            # same observation as sparql_const; the model side gets rdflib's own parse tree (model_lines) and applies
            # the Lean model of translatePath to it
            obs.append(const_line.get((s, o), "ERR:Other"))
            stats["route_sparql_tree"] = stats.get("route_sparql_tree", 0) + 1
            continue
        T = parts[route_part(route, case)] if route != "sparql_gvar2" else _third(case)
        want = expected(ast, T, s, o)
        ast_r = ast
        if route == "first_false" and not (s is None and o is None):
            # first=False skips the zero-length step on the given end(s): one or more steps (`?`: exactly one)
            ast_r = ["m", "+", ast[2]] if ast[1] in "*+" else ast[2]
            want = expected(ast_r, T, s, o)
        if route in BGP_ROUTES:
            want = bgp_want(route, ast, T, s, o)
        stats["route_" + route] = stats.get("route_" + route, 0) + 1
        stats["bind_%s%s" % ("s" if s is not None else "-", "o" if o is not None else "-")] = \
            stats.get("bind_%s%s" % ("s" if s is not None else "-", "o" if o is not None else "-"), 0) + 1
        for x in (s, o):
            if x is not None:
                if x in FALSY:
                    stats["end_falsy"] = stats.get("end_falsy", 0) + 1
                if x not in used:
                    stats["end_absent"] = stats.get("end_absent", 0) + 1
        try:
            if route == "api":
                obs.append(_api_line(env, ast, s, o, T, viol))
                continue
            got = _run_route(route, env, ast, s, o)
        except core.CaseTimeout:
            raise
        except Unreadable as e:
            # n3() wrote something that is not a SPARQL path.  An observation (the model's reader must reject the
            # model's text too); a violation only when the path has a spelling n3() could have written
            obs.append("unreadable")
            stats["n3_unreadable"] = stats.get("n3_unreadable", 0) + 1
            if n3_level(env["path"]) is not None:
                viol.append(f"n3parse: route sparql_n3 path {ast}: n3() wrote {str(e)!r}, which rdflib's parser rejects")
            continue
        except Exception as e:
            obs.append("ERR:" + _err(e))
            if route == "sparql_const":
                const_line[(s, o)] = obs[-1]
            stats["raised"] = stats.get("raised", 0) + 1
            viol.append(f"raise: route {route} path {ast} ends ({s},{o}) raised {type(e).__name__}: {str(e)[:120]}")
            continue
        obs.append(_line(got, closure))
        if route == "sparql_const":
            const_line[(s, o)] = obs[-1]
        gs = set(got)
        if gs != want:
            if route in BGP_ROUTES:
                tag = "neginv" if has_inv_neg(ast) and gs == bgp_want(route, ast, T, s, o, as_coded=True) else "relation"
            else:
                tag = relation_tag(ast_r, T, s, o, gs)
            viol.append(f"{tag}: route {route} path {ast} ends ({s},{o}) on {T}: missing "
                        f"{sorted(want - gs)} extra {sorted(gs - want)}")
        if closure and len(got) != len(gs):
            viol.append(f"dup: route {route} closure path {ast} ends ({s},{o}) on {T} yields duplicates: {sorted(got)}")
        if want:
            stats["answers_nonempty"] = stats.get("answers_nonempty", 0) + 1
            if (s is not None or o is not None) and ast[0] != "i":
                nontrivial = True
    if "sparql_n3" in case["routes"]:
        # the text itself (without and with a namespace manager), and what rdflib's parser + translatePath make of it
        P = env["path"]
        lvl = n3_level(P)
        stats["n3_level_" + {None: "none", 0: "primary", 1: "elt", 2: "inverse"}[lvl]] = 1
        for text in (P.n3(), P.n3(NSM)):
            obs.append(canon_n3_line("n3|" + " ".join(n3_words(text))))
        try:
            line = n3_tree_line(P.n3())
        except core.CaseTimeout:
            raise
        except Exception as e:
            line = "ERR:" + _err(e)
            viol.append(f"raise: parsing / translating the n3() text {P.n3()!r} of {ast} raised {type(e).__name__}: {str(e)[:100]}")
        obs.append(line)
        if line == "unreadable":
            stats["n3_text_unreadable"] = 1
            if lvl is not None:
                viol.append(f"n3parse: path {ast}: n3() wrote {P.n3()!r}, which rdflib's parser rejects")
    return {"obs": obs, "viol": viol, "nontrivial": nontrivial,
            "key": repr((parts[FULL], ast, case["ends"])), "stats": stats}


# ------------------------------------------------------------------ model side


def _w(x):
    return "*" if x is None else str(x)


def model_lines(case):
    if "inc" in case:
        asts = inc_asts(case["inc"])
        T = sorted({tuple(t[:3]) for t in case["triples"]})
        lines = ["graph " + " ".join("%d,%d,%d" % t for t in T)]
        for k in inc_events(case["inc"]):
            toks = " ".join(path_tokens(asts[k]))
            for s, o in case["ends"]:
                lines.append(f"eval {_w(s)} {_w(o)} {toks}")
        return lines
    if "ex" in case:
        lines = []
        b = case["ex"]
        for gi in range(b * EX_BLOCK, (b + 1) * EX_BLOCK):
            pi = gi % len(EX_PATHS)
            lines.append("graph " + " ".join("%d,%d,%d" % t for t in ex_graph(gi)))
            toks = " ".join(path_tokens(EX_PATHS[pi]))
            for s, o in ex_bindings(gi, pi):
                lines.append(f"eval {_w(s)} {_w(o)} {toks}")
        return lines
    parts = _graphs(case)
    vT = parts[view_part(case)]
    toks = " ".join(path_tokens(case["path"]))
    lines = []
    for T in parts:
        lines.append("graph " + " ".join("%d,%d,%d" % t for t in T))
        for s, o in case["ends"]:
            lines.append(f"eval {_w(s)} {_w(o)} {toks}")
    if "sparql_tree" in case["routes"] and not has_empty_alt(case["path"]):
        try:
            stoks = " ".join(parser_tree_tokens(case["path"], case.get("style", 0)))
        except Exception as e:  # the parser rejects / mangles the text: shows as a divergence on this route
            stoks = "unparsed " + type(e).__name__
        lines.append("graph " + " ".join("%d,%d,%d" % t for t in vT))
        for s, o in case["ends"]:
            lines.append(f"evalsyn {_w(s)} {_w(o)} {stoks}")
    if "sparql_n3" in case["routes"]:
        lines.append("graph " + " ".join("%d,%d,%d" % t for t in vT))
        for s, o in case["ends"]:
            lines.append(f"evaln3 {_w(s)} {_w(o)} {toks}")
        lines.append("n3 " + toks)
        try:        # the model's reader is given the text rdflib wrote (the writer is compared separately)
            words = " ".join(n3_words(to_rdflib(case["path"], case.get("style", 0)).n3()))
        except Exception as e:
            words = "unwritten " + type(e).__name__
        lines.append("readn3 " + words)
    if "api" in case["routes"]:
        lines.append("graph " + " ".join("%d,%d,%d" % t for t in vT))
        for s, o in case["ends"]:
            lines.append(f"api {_w(s)} {_w(o)} {toks}")
    if "first_false" in case["routes"] and case["path"][0] == "m":
        lines.append("graph " + " ".join("%d,%d,%d" % t for t in vT))
        for s, o in case["ends"]:
            lines.append(f"evalf {_w(s)} {_w(o)} {toks}")
    if "sparql_same" in case["routes"]:
        lines.append("graph " + " ".join("%d,%d,%d" % t for t in vT))
        lines += ["bgp same * " + toks, "bgp before " + toks, "bgp after " + toks]
        for s, o in case["ends"]:
            lines.append(f"bgp same {_w(s)} {toks}")
    if "sparql_gvar1" in case["routes"]:
        for T in (parts[NAMED], _third(case)):
            for s, o in case["ends"]:
                lines.append(f"veval plain {_w(s)} {_w(o)} {toks} / " + " ".join("%d,%d,%d" % t for t in T))
    if "view" in case["routes"]:
        kind = case.get("kind", "graph")
        tl = lambda T: " ".join("%d,%d,%d" % t for t in T)  # noqa: E731
        if kind in ("graph", "named"):
            vk, ms = "plain", [vT]
        else:
            # the contexts of the store / the members of the aggregate, as _build_env fills them
            vk, ms = ("agg" if kind == "agg" else "union"), [parts[DEFAULT], parts[NAMED]]
            if _third(case) or case.get("style"):
                ms.append(_third(case))
        tail = "".join(" / " + tl(m) for m in ms)
        for s, o in case["ends"]:
            lines.append(f"veval {vk} {_w(s)} {_w(o)} {toks}{tail}")
    return lines


def _dedup_line(line):
    flag, body = line.split("|", 1)
    ps = sorted({tuple(map(int, w.split(","))) for w in body.split()})
    return flag + "|" + " ".join("%d,%d" % p for p in ps)


def select_model_obs(case, out):
    if "inc" in case:
        return list(out[1:])     # the driver already prints sets for non-closures, lists for closures
    if "ex" in case:
        res, k = [], 0
        b = case["ex"]
        for gi in range(b * EX_BLOCK, (b + 1) * EX_BLOCK):
            pi = gi % len(EX_PATHS)
            k += 1
            for _ in range(4):
                res.append(out[k] if is_closure(EX_PATHS[pi]) or "|" not in out[k] else _dedup_line(out[k]))
                k += 1
        return res
    parts, plan = _plan(case)
    n = len(case["ends"])
    closure = is_closure(case["path"])
    idx = {}
    for gi in range(4):
        for bi, (s, o) in enumerate(case["ends"]):
            idx[(gi, bi)] = out[gi * (n + 1) + 1 + bi]
    res = []
    pos = {}
    for bi, (s, o) in enumerate(case["ends"]):
        pos.setdefault((s, o), bi)
    n3_base = 4 * (n + 1) + ((n + 1) if "sparql_tree" in case["routes"] and not has_empty_alt(case["path"]) else 0)
    api_base = n3_base + ((n + 3) if "sparql_n3" in case["routes"] else 0)
    ff_base = api_base + ((n + 1) if "api" in case["routes"] else 0)
    bgp_base = ff_base + ((n + 1) if "first_false" in case["routes"] and case["path"][0] == "m" else 0)
    gvar_base = bgp_base + ((n + 4) if "sparql_same" in case["routes"] else 0)
    view_base = gvar_base + (2 * n if "sparql_gvar1" in case["routes"] else 0)
    for s, o, route in plan:
        if route in ("sparql_gvar1", "sparql_gvar2"):
            line = out[gvar_base + (n if route == "sparql_gvar2" else 0) + pos[(s, o)]]
            res.append(_dedup_line(line) if not closure and "|" in line else line)
            continue
        if route == "view":
            line = out[view_base + pos[(s, o)]]
            res.append(_dedup_line(line) if not closure and "|" in line else line)
            continue
        if route in BGP_ROUTES:
            k = {"sparql_same": 1, "sparql_join_before": 2, "sparql_join_after": 3}.get(route, 4 + pos[(s, o)])
            line = out[bgp_base + k]
            res.append(_dedup_line(line) if not closure and "|" in line else line)
            continue
        if route == "api":
            res.append(out[api_base + 1 + pos[(s, o)]])
            continue
        if route == "first_false":
            res.append(out[ff_base + 1 + pos[(s, o)]])
            continue
        if route == "sparql_tree":
            line = out[4 * (n + 1) + 1 + pos[(s, o)]]
        elif route == "sparql_n3":
            line = out[n3_base + 1 + pos[(s, o)]]
        else:
            line = idx[(route_part(route, case), pos[(s, o)])]
        if not closure and "|" in line:
            line = _dedup_line(line)
        res.append(line)
    if "sparql_n3" in case["routes"]:
        res += [canon_n3_line(out[n3_base + n + 1]) if out[n3_base + n + 1].startswith("n3|") else out[n3_base + n + 1]] * 2
        res.append(out[n3_base + n + 2])
    return res


# ------------------------------------------------------------------ shrinking, matchers


def _simpler_paths(ast):
    k = ast[0]
    if k == "v":
        yield ast[1]
        for x in _simpler_paths(ast[1]):
            yield ["v", x]
    elif k == "m":
        yield ast[2]
        for x in _simpler_paths(ast[2]):
            yield ["m", ast[1], x]
    elif k in "sa":
        xs = ast[1]
        for x in xs:
            yield x
        if len(xs) > 1:
            for i in range(len(xs)):
                yield [k, xs[:i] + xs[i + 1:]]
        for i, x in enumerate(xs):
            for y in _simpler_paths(x):
                yield [k, xs[:i] + [y] + xs[i + 1:]]
    elif k == "n":
        for i in range(len(ast[1])):
            yield ["n", ast[1][:i] + ast[1][i + 1:], ast[2]]
        for i in range(len(ast[2])):
            yield ["n", ast[1], ast[2][:i] + ast[2][i + 1:]]


def shrink(case):
    if "inc" in case:
        steps = case["inc"]
        for n in range(len(steps) - 1, 1, -1):      # drop trailing steps (never referenced by earlier ones)
            yield {**case, "inc": steps[:n]}
        if len(case["ends"]) > 1:
            for e in case["ends"]:
                yield {**case, "ends": [e]}
        T = case["triples"]
        for i in range(len(T)):
            yield {**case, "triples": T[:i] + T[i + 1:]}
        return
    if "ex" in case:
        # locate the failing (graph, shape) pairs of the block and continue with ordinary cases
        n = 0
        for gi, pi in _ex_items(case):
            c = _ex_case(gi, pi, case.get("style", 0))
            if run_impl(c)["viol"]:
                n += 1
                yield c
                if n >= 40:
                    return
        return
    if len(case["routes"]) > 1:
        for r in case["routes"]:
            yield {**case, "routes": [r]}
    if len(case["ends"]) > 1:
        for e in case["ends"]:
            yield {**case, "ends": [e]}
    if case.get("ghost"):
        yield {**case, "ghost": []}
    T = case["triples"]
    for i in range(len(T)):
        yield {**case, "triples": T[:i] + T[i + 1:]}
    for p in _simpler_paths(case["path"]):
        yield {**case, "path": p}
    for i, t in enumerate(T):
        if t[3] != 0:
            yield {**case, "triples": T[:i] + [[t[0], t[1], t[2], 0]] + T[i + 1:]}


def _viol(result, tag, route=None):
    return any(v.startswith(tag + ":") and (route is None or ("route " + route) in v) for v in result["viol"])


def _has(ast, pred):
    if pred(ast):
        return True
    k = ast[0]
    if k == "v":
        return _has(ast[1], pred)
    if k == "m":
        return _has(ast[2], pred)
    if k in "sa":
        return any(_has(x, pred) for x in ast[1])
    return False


def _bound(case):
    return [x for e in case.get("ends", []) for x in e if x is not None]


# Matchers of the findings (all fixed except C11-F5): narrow predicates over a shrunk case and its result.  They are only
# consulted for `known` entries; they are kept so that an entry can be switched back to `known` if a repair is
# ever reverted upstream.
MATCHERS = {
    "mul_falsy_end": lambda c, r: _viol(r, "relation") and _has(c["path"], lambda a: a[0] == "m")
    and any(x in FALSY for x in _bound(c)) and not _has(c["path"], lambda a: a[0] == "s"),
    "mul_zero_pair_twice": lambda c, r: _viol(r, "dup") and "agg" not in c["routes"] and c["path"][0] == "m"
    and c["path"][1] in "?*" and bool(_bound(c)),
    "seq_direction_falsy": lambda c, r: _viol(r, "relation") and _has(c["path"], lambda a: a[0] == "s" and len(a[1]) == 2)
    and any(e[0] is None and e[1] in FALSY for e in c["ends"]),
    "seq_bw_forward_scan": lambda c, r: _viol(r, "relation") and _has(c["path"], lambda a: a[0] == "s" and len(a[1]) >= 3)
    and any(e[0] is None and e[1] is not None for e in c["ends"]),
    # C11-F5 (known): every violation of the case carries the tag `neginv`, which run_impl only gives when the path
    # has a negated property set with an inverse member and the wrong answer is exactly the one NegatedPath.eval's
    # forward-triple test predicts (relation_tag); any other violation in the same case keeps the case unmatched
    "neg_inverse_member": lambda c, r: bool(r["viol"]) and all(v.startswith("neginv:") for v in r["viol"]),
    "sparql_nps_inverse_raises": lambda c, r: _viol(r, "raise", "sparql") and _has(c["path"], lambda a: a[0] == "n" and bool(a[2])),
    "sparql_nps_empty_raises": lambda c, r: _viol(r, "raise", "sparql") and _has(c["path"], lambda a: a[0] == "n" and not a[1] and not a[2]),
    "aggregate_contains_per_member": lambda c, r: _viol(r, "relation", "in_agg") and not _viol(r, "relation", "agg "),
    "aggregate_path_per_member": lambda c, r: c["routes"] == ["agg"] and (_viol(r, "dup", "agg") or _viol(r, "raise", "agg")),
}
