"""C03 — regenerate lean/RV/C03/Tables.lean from rdflib's BEHAVIOUR (DESIGN §2.4).

The literal writers are probed through the public serializers (a one-triple graph written as N-Triples / Turtle,
the object text read off), never through their source text, so a rewrite that keeps the output (chained
`.replace`, `str.translate`, a regex, …) regenerates the same table:

  ntMap     character -> text the N-Triples writer puts between the quotes, for every character of the probe alphabet
            that is not written as itself
  shortMap  the same for the Turtle writer's short form `"…"` (texts without a newline)
  longMap   the same for its long form `\"\"\"…\"\"\"` (texts with a newline), for every character except `"`

and it is CHECKED here, behaviourally, that the writers really are what the Lean model assumes they are:
  * per-character maps: the text of every two-character string over the interesting characters is the
    concatenation of the texts of its characters (N-Triples, Turtle short form);
  * the long form is the per-character map plus the two context rules for quotes that the model has built in
    (`\"\"\"` -> `\\"\\"\\"` leftmost-first, a final `"` -> `\\"`): all strings of length <= 4 over `" \\ x CR` agree
    with a Python transcription of the model's one-pass writer.
A writer that cannot be expressed this way raises (core: table extraction failed -> search for a failing input).
"""
import itertools

ALPHABET = ([chr(i) for i in range(128)] +
            [chr(c) for c in (0x85, 0xA0, 0xE9, 0x2028, 0x2029, 0x540D, 0xD7FF, 0xE000, 0xFEFF, 0xFFFD, 0xFFFE, 0xFFFF,
                              0x10000, 0x1F600, 0x10FFFF)])
_S = "urn:x-probe-s"
_P = "http://www.w3.org/1999/02/22-rdf-syntax-ns#value"


def _object_text(text, fmt):
    """what rdflib's `fmt` writer (nt | turtle) writes for the plain literal `text` in object position"""
    from rdflib import Graph, Literal, URIRef
    g = Graph(bind_namespaces="none")
    g.bind("rdf", URIRef("http://www.w3.org/1999/02/22-rdf-syntax-ns#"))
    g.add((URIRef(_S), URIRef(_P), Literal(text)))
    out = g.serialize(format=fmt)
    i = out.index("<" + _S + "> ")
    rest = out[i + len(_S) + 3:]
    rest = rest[rest.index(" ") + 1:].rstrip()
    if not rest.endswith("."):
        raise ValueError(f"{fmt}: cannot find the object text in {out!r}")
    return rest[:-1].rstrip(" ")


def _between(text, open_, close, what):
    if not (text.startswith(open_) and text.endswith(close) and len(text) >= len(open_) + len(close)):
        raise ValueError(f"{what}: {text!r} is not {open_}…{close}")
    return text[len(open_):len(text) - len(close)]


def _model_long(lmap, s):
    """Python transcription of the Lean one-pass long-form writer `encLong` (quotes: built-in rules; rest: the map)"""
    out, i, n = [], 0, len(s)
    while i < n:
        if s.startswith('"""', i):
            out.append('\\"\\"\\"')
            i += 3
            continue
        c = s[i]
        if c == '"':
            out.append('\\"' if i == n - 1 else '"')
        else:
            out.append(lmap.get(c, c))
        i += 1
    return "".join(out)


def extract():
    nt = lambda t: _between(_object_text(t, "nt"), '"', '"', "N-Triples literal")  # noqa: E731
    ttl = lambda t: _object_text(t, "turtle")  # noqa: E731
    nt_map, short_map, long_map = {}, {}, {}
    for c in ALPHABET:
        w = nt(c)
        if w != c:
            nt_map[c] = w
        if c != "\n":
            w = _between(ttl(c), '"', '"', "Turtle short literal")
            if w != c:
                short_map[c] = w
    lf_text = _between(ttl("\nx"), '"""', 'x"""', "Turtle long literal")
    if lf_text != "\n":
        long_map["\n"] = lf_text
    for c in ALPHABET:
        if c in '"\n':
            continue
        w = _between(ttl("\n" + c + "x"), '"""' + lf_text, 'x"""', "Turtle long literal")
        if w != c:
            long_map[c] = w
    # per-character maps?  (two-character contexts over the characters that matter)
    interesting = sorted(set(nt_map) | set(short_map) | set('"\\xnrtu0\' '))
    for a, b in itertools.product(interesting, repeat=2):
        if nt(a + b) != nt_map.get(a, a) + nt_map.get(b, b):
            raise ValueError(f"N-Triples writer is not a per-character map at {a + b!r}")
        if "\n" not in a + b:
            got = _between(ttl(a + b), '"', '"', "Turtle short literal")
            if got != short_map.get(a, a) + short_map.get(b, b):
                raise ValueError(f"Turtle short-form writer is not a per-character map at {a + b!r}")
    # long form = map + the built-in quote rules?
    for n in range(0, 5):
        for t in itertools.product('"\\x\r', repeat=n):
            s = "\n" + "".join(t)
            got = _between(ttl(s), '"""', '"""', "Turtle long literal")
            if got != _model_long(long_map, s):
                raise ValueError(f"Turtle long-form writer differs from map + quote rules at {s!r}: {got!r}")
    try:
        from rdflib import compat
        emap = sorted(dict(compat._string_escape_map).items())
    except Exception:
        emap = []
    return {"ntMap": sorted(nt_map.items()), "shortMap": sorted(short_map.items()), "longMap": sorted(long_map.items()),
            "echarMap": emap}


def _ch(c):
    return f"Char.ofNat {ord(c)}"


def _str(s):
    return "[" + ", ".join(_ch(c) for c in s) + "]"


def _table(name, doc, pairs):
    body = ",\n   ".join(f"({_ch(k)}, {_str(v)})" for k, v in pairs)
    return [f"/-- {doc} -/", f"def {name} : List (Char × List Char) :=", "  [" + body + "]", ""]


def render(d=None):
    d = d or extract()
    L = ["/- GENERATED by harness/c03tables.py from rdflib's BEHAVIOUR on every run — do not edit.",
         f"   Probe alphabet: {len(ALPHABET)} characters (all of ASCII, NEL, NBSP, LS, PS, BOM, non-characters, non-BMP);",
         "   a character without an entry is written as itself. -/",
         "namespace RV.C03.Tables", ""]
    L += _table("ntMap", "N-Triples writer (serialize(format=\"nt\")): character ↦ text between the quotes", d["ntMap"])
    L += _table("shortMap", "Turtle writer, short form `\"…\"` (texts without a newline)", d["shortMap"])
    L += _table("longMap", "Turtle writer, long form (texts with a newline), every character except `\"` "
                "(quotes follow the two context rules built into the model)", d["longMap"])
    L += ["/-- rdflib/compat.py:_string_escape_map — the escapes rdflib's readers accept after a backslash -/",
          "def echarMap : List (Char × Char) :=",
          "  [" + ", ".join(f"({_ch(k)}, {_ch(v)})" for k, v in d["echarMap"]) + "]", "",
          "end RV.C03.Tables", ""]
    return "\n".join(L)


if __name__ == "__main__":
    import sys
    sys.path.insert(0, "/root/wt/r-C03")
    print(render())
