"""C13 — reading a graph never changes it; repeated reads agree.  DESIGN §6 C13.

Case = {"cfg": "ds"|"dsu"|"cg"|"cgd"|"g"|"view",   Dataset(default_union off/on), ConjunctiveGraph (bnode id /
                                                    id = urn:x-rdflib:default), plain Graph, Graph view of a Dataset
        "quads": [[s,p,o,g]…], "empty": [g…],       term ids (vocabulary below), graph ids (GN below); `empty` =
                                                    graphs registered without triples
        "view": g,                                  (cfg view) the graph the reads are applied to
        "reads": [[api, args…]…],                   the read-only calls, in order
        "twice": bool}                              run every read twice in a row and compare the two answers
                                                    (else: each once, then the first read again at the end)

Oracle (independent of Lean): the quad set `set(top.quads())` (with graph names) and the set of registered graph
names (`store.contexts()`, the always-existing default graph added on both sides) are snapshotted before the first
read and after every read and must not change:  viol `mutated:<api>`.  Two answers of the same read are compared
canonically (sorted lines / bags; other serialisations re-parsed and compared up to blank-node renaming with
harness/isoutil.py):  viol `nondeterministic:<api>`.

Observation compared with the Lean model: after every read, the quads and the (normalised) graph-name set.
"""
import io
import json as _json
import os
import re
import shutil
import signal
import tempfile
import warnings

import core  # noqa: F401
import isoutil
import rdflib
import rdflib.compare as rcompare
import rdflib.plugins.sparql as rsparql
from rdflib import BNode, ConjunctiveGraph, Dataset, Graph, Literal, URIRef
from rdflib.collection import Collection
from rdflib.graph import DATASET_DEFAULT_GRAPH_ID, ReadOnlyGraphAggregate
from rdflib.namespace import RDF, XSD
from rdflib.paths import AlternativePath, InvPath, MulPath, NegatedPath, SequencePath
from rdflib.plugins.sparql import prepareQuery

warnings.filterwarnings("ignore")
import logging  # noqa: E402
logging.getLogger("rdflib").setLevel(logging.CRITICAL)

ID = "C13"
LEAN_TARGETS = ["RV.C13.Props", "RV.C13.Audit"]
AUDIT = "RV/C13/Audit.lean"
DRIVER = "drv_c13"
CASES = {"quick": 600, "thorough": 16000, "search": 6000}
RULE = ("random datasets (0-3 named graphs incl. blank-node-named, empty and registered-empty ones, ~30 terms incl. unbound namespaces, "
        "blank nodes, RDF lists, falsy literals) as Dataset (default_union on/off), ConjunctiveGraph, plain Graph or a "
        "Graph view; 18-30 read-only calls per case drawn from all serializer formats x option sets, ~50 SPARQL "
        "templates, property paths, compare functions, membership/iteration/slicing/graph-listing calls; snapshot of "
        "quads + graph names after every call; 30 % of the cases are R, R', R schedules of RELATED reads, and these plus "
        "a sample of the others are also compared read by read with a pristine forked process; after every read the model is "
        "compared on three axes: quads + graph names, the vocabulary namespaces that have a prefix, and (reads whose answer the "
        "model computes: len/iter/pattern/membership/cbd/graph listing/quad reads/nt/nquads/aggregate reads/6 exact SPARQL shapes "
        "with FROM / FROM NAMED) the answer itself.  non-trivial = the dataset has >= 1 quad and >= 10 reads completed "
        "without raising; distinct = distinct (cfg, quads, empty, reads)")
ASSUMPTIONS = ["Memory store only (the property's quantifier does not name other stores)",
               "contexts passed to read calls are identifiers or views on the dataset's own store; handing a FOREIGN "
               "graph object to triples()/quad membership copies it into the store by design (ConjunctiveGraph._graph) "
               "and is treated as a write (Lean: foreign_graph_copy_is_write)",
               "namespace bindings and the always-existing default graph's registration are outside the statement",
               "reads involving RAND/NOW/UUID/BNODE()/template blank nodes are exempt from the twice-in-a-row clause "
               "(compared up to blank-node renaming where applicable)"]
TRUSTED = ["harness/c13.py generators, read drivers, canonicalisation and the forked pristine-process reference; harness/isoutil.py",
           "lean/RV/C13/Drive.lean line protocol"]

# ------------------------------------------------------------------ vocabulary
EX = "http://e/"
TERM = {
    1: URIRef(EX + "a"), 2: URIRef(EX + "b"), 3: URIRef(EX + "c"),
    4: BNode("b1"), 5: BNode("b2"), 6: BNode("gb"),       # 6 is also the name of graph 3
    7: BNode("l1"), 8: BNode("l2"), 9: BNode("l3"),       # list cells
    10: URIRef(EX + "p"), 11: URIRef(EX + "q"), 12: RDF.type, 13: RDF.first, 14: RDF.rest,
    15: URIRef("http://o/ns#r"),                           # a predicate whose namespace has no prefix: serializers bind one
    29: URIRef("http://t/ns#T"),                           # a class in another unbound namespace
    30: URIRef("http://one/s"), 31: URIRef("http://one/p"),     # namespaces for `_x` / `p_x` prefix pairs
    32: URIRef("http://two/s"), 33: URIRef("http://three/p"),
    34: URIRef("http://dot/ns#s"), 35: URIRef("http://dot/ns#p."),   # a predicate whose local name ends in "."
    36: URIRef(EX + "zz"), 37: URIRef("http://other/ns#x"),           # IRIs handed to qname / compute_qname only
    20: Literal(""), 21: Literal(0), 22: Literal(False), 23: Literal("x", lang="en"), 24: Literal("1"),
    25: Literal("2024-02-03", datatype=XSD.date), 26: RDF.nil, 27: Literal("a\"b\nc"), 28: URIRef(EX + "C"),
}
# namespaces (ids owned by the harness; the Lean driver gets the term -> namespace table as `nsof` lines).  The
# namespace of an IRI is everything up to its last '#', else its last '/' — written down here, not taken from rdflib.
NS = {1: EX, 2: "http://www.w3.org/1999/02/22-rdf-syntax-ns#", 3: "http://o/ns#", 4: "http://t/ns#", 5: "http://one/",
      6: "http://two/", 7: "http://three/", 8: "http://dot/ns#", 9: "http://other/ns#"}
NS_REV = {v: k for k, v in NS.items()}


def _ns_of_iri(iri):
    cut = iri.rfind("#") if "#" in iri else iri.rfind("/")
    return iri[:cut + 1]


TERM_NS = {tid: NS_REV[_ns_of_iri(str(t))] for tid, t in sorted(TERM.items()) if isinstance(t, URIRef)}
SUBJ = [1, 2, 3, 4, 5, 6]
PRED = [10, 11, 12, 15]
OBJ = [1, 2, 3, 4, 5, 6, 20, 21, 22, 23, 24, 25, 27, 28, 29]
IRIS = [1, 2, 3, 28]
TERM_REV = {v: k for k, v in TERM.items()}
# graph ids: 0 = the default graph (whatever identifier the configuration gives it)
GN = {1: URIRef("urn:g:1"), 2: URIRef("urn:g:2"), 3: BNode("gb"), 4: BNode("gc"), 9: URIRef("urn:g:unknown")}
GTOK = {0: "d", 1: "i1", 2: "i2", 3: "b3", 4: "b4", 9: "i9"}
NAMED = [1, 2, 3, 4]
CG_DEFAULT = BNode("cgdefault")
PLAIN_ID = URIRef("urn:g:plain")

SER_FORMATS = ["nt", "nt11", "nquads", "turtle", "longturtle", "n3", "trig", "trix", "xml", "pretty-xml", "json-ld",
               "hext", "patch"]
LINE_FORMATS = {"nt", "nt11", "nquads", "hext", "patch"}
QUAD_FORMATS = {"nquads", "trig", "trix", "json-ld", "hext"}
# option sets: name -> kwargs
SER_OPTS = {
    "plain": {}, "base": {"base": EX}, "bytes": {"encoding": "utf-8"}, "stream": {"_stream": True},
    "compact": {"auto_compact": True}, "ctx": {"context": {"@vocab": EX, "g": "urn:g:"}},
    "native": {"use_native_types": True, "use_rdf_type": True}, "spacious": {"spacious": True},
    "patch_add": {"operation": "add"}, "patch_remove": {"operation": "remove"},
    "patch_hdr": {"operation": "add", "header_id": "urn:h:1", "header_prev": "urn:h:0"},
    "maxdepth": {"max_depth": 1}, "maxdepth5": {"max_depth": 5}, "xmlbase": {"xml_base": EX},
    "canon": {"canon": True}, "canon_base": {"canon": True, "base": EX},
    "sortkeys": {"sort_keys": False, "indent": None}, "rdftype": {"use_rdf_type": True},
    "nativeonly": {"use_native_types": True}, "patch_target": {"_target": True},
}
OPTS_FOR = {
    "json-ld": ["plain", "base", "compact", "ctx", "native", "bytes", "stream", "sortkeys", "rdftype", "nativeonly"],
    "patch": ["patch_add", "patch_remove", "patch_hdr", "patch_target", "patch_target"],
    "turtle": ["plain", "base", "spacious", "bytes", "stream"],
    "longturtle": ["plain", "base", "canon", "canon", "canon_base", "spacious"],
    "trig": ["plain", "base", "spacious", "stream"], "n3": ["plain", "base", "spacious"],
    "pretty-xml": ["plain", "base", "maxdepth", "maxdepth5", "xmlbase"], "xml": ["plain", "base", "bytes", "xmlbase"],
}

# ------------------------------------------------------------------ SPARQL templates
# {S}/{S2} subject IRIs, {P}/{P2} predicate IRIs, {O} any object term, {L} a literal, {G}/{G2} graph IRIs, {N} 1..3
QT = [
    "SELECT ?s ?p ?o WHERE { ?s ?p ?o }",
    "SELECT * WHERE { {S} ?p ?o }",
    "SELECT ?s WHERE { ?s {P} {O} }",
    "SELECT DISTINCT ?p WHERE { ?s ?p ?o } ORDER BY ?p",
    "SELECT ?s ?o WHERE { ?s {P} ?o } ORDER BY DESC(?o) ?s LIMIT {N} OFFSET 1",
    "SELECT ?s ?x WHERE { ?s {P} ?o OPTIONAL { ?o {P2} ?x } }",
    "SELECT ?s WHERE { { ?s {P} ?o } UNION { ?s {P2} ?o } }",
    "SELECT ?s WHERE { ?s ?p ?o MINUS { ?s {P} {O} } }",
    "SELECT ?s ?o WHERE { ?s ?p ?o FILTER(isLiteral(?o)) }",
    "SELECT ?s ?o WHERE { ?s ?p ?o FILTER(?o = {L}) }",
    "SELECT ?s WHERE { ?s ?p ?o FILTER NOT EXISTS { ?o ?q ?z } }",
    "SELECT ?s WHERE { ?s ?p ?o FILTER EXISTS { ?s {P} ?z } }",
    "SELECT ?s WHERE { ?s ?p ?o . FILTER(?o IN ({L}, {O})) }",
    "SELECT ?s (IF(BOUND(?x), ?x, \"none\") AS ?y) WHERE { ?s ?p ?o OPTIONAL { ?s {P} ?x } }",
    "SELECT ?g ?s WHERE { GRAPH ?g { ?s ?p ?o } }",
    "SELECT ?s ?o WHERE { GRAPH {G} { ?s ?p ?o } }",
    "SELECT ?g (COUNT(*) AS ?n) WHERE { GRAPH ?g { ?s ?p ?o } } GROUP BY ?g",
    "SELECT ?s ?g WHERE { ?s {P} ?o . GRAPH ?g { ?s ?p2 ?o2 } }",
    "SELECT ?g WHERE { GRAPH ?g { } }",
    "SELECT ?s ?x WHERE { GRAPH {G} { ?s {P} ?o } OPTIONAL { GRAPH {G2} { ?s ?q ?x } } }",
    "SELECT ?s WHERE { { SELECT ?s WHERE { ?s ?p ?o } ORDER BY ?s LIMIT 2 } }",
    "SELECT ?p (COUNT(?o) AS ?n) WHERE { ?s ?p ?o } GROUP BY ?p",
    "SELECT (COUNT(DISTINCT ?s) AS ?n) WHERE { ?s ?p ?o }",
    "SELECT ?p (GROUP_CONCAT(STR(?o); separator=\",\") AS ?c) WHERE { ?s ?p ?o } GROUP BY ?p HAVING (COUNT(?o) > 0)",
    "SELECT ?s (MIN(?o) AS ?m) (MAX(?o) AS ?M) WHERE { ?s ?p ?o } GROUP BY ?s",
    "SELECT ?s ?o WHERE { ?s {P}+ ?o }",
    "SELECT ?s ?o WHERE { ?s {P}* ?o }",
    "SELECT ?o WHERE { {S} ({P}|{P2})/{P}? ?o }",
    "SELECT ?s ?o WHERE { ?s ^{P} ?o }",
    "SELECT ?s ?o WHERE { ?s !({P}) ?o }",
    "SELECT ?x WHERE { ?l rdf:rest*/rdf:first ?x }",
    "SELECT ?g ?x WHERE { GRAPH ?g { ?l rdf:rest*/rdf:first ?x } }",
    "SELECT ?s ?v WHERE { VALUES ?s { {S} {S2} } ?s ?p ?v }",
    "SELECT ?s ?v WHERE { ?s ?p ?o BIND(STR(?o) AS ?v) }",
    "SELECT ?s ?o FROM {G} WHERE { ?s ?p ?o }",
    "SELECT ?s ?o FROM {G} FROM {G2} WHERE { ?s ?p ?o }",
    "SELECT ?g ?s FROM NAMED {G} WHERE { GRAPH ?g { ?s ?p ?o } }",
    "SELECT ?g ?s FROM {G} FROM NAMED {G2} WHERE { { ?s ?p ?o } UNION { GRAPH ?g { ?s ?p ?o } } }",
    "SELECT ?s FROM {G} FROM NAMED {G} WHERE { ?s {P} ?o . GRAPH {G} { ?s ?p2 ?o2 } }",
    "ASK { ?s {P} {O} }",
    "ASK { {S} ?p ?o }",
    "ASK { GRAPH {G} { ?s ?p ?o } }",
    "ASK FROM {G} { ?s ?p ?o }",
    "CONSTRUCT { ?o {P} ?s } WHERE { ?s {P} ?o }",
    "CONSTRUCT WHERE { ?s {P} ?o }",
    "CONSTRUCT { ?s {P2} ?o } WHERE { GRAPH ?g { ?s ?p ?o } }",
    "CONSTRUCT { ?s ?p ?o } FROM {G} WHERE { ?s ?p ?o }",
    "CONSTRUCT { ?s {P} [ {P2} ?o ] } WHERE { ?s {P} ?o }",          # template blank node: fresh labels
    "DESCRIBE {S}",
    "DESCRIBE ?s WHERE { ?s {P} ?o }",
    "DESCRIBE ?s FROM {G} WHERE { ?s ?p ?o }",
    "DESCRIBE ?o {S2} WHERE { GRAPH ?g { {S} ?p ?o } }",
    "SELECT ?s ?p ?o WHERE { ?s ?p ?o }",                              # exact shapes: answers compared with the model
    "SELECT ?g ?s ?p ?o WHERE { GRAPH ?g { ?s ?p ?o } }",
    "SELECT ?s ?p ?o WHERE { GRAPH {G} { ?s ?p ?o } }",
    "ASK { ?s ?p ?o }",
    "CONSTRUCT { ?s ?p ?o } WHERE { ?s ?p ?o }",
    "DESCRIBE ?s WHERE { ?s ?p ?o }",
    "SELECT ?s (BNODE() AS ?b) WHERE { ?s {P} ?o }",                   # fresh blank nodes: exempt from determinism
    "SELECT ?s (RAND() AS ?r) (NOW() AS ?t) (UUID() AS ?u) WHERE { ?s ?p ?o } LIMIT 1",
]
FRESH_MARKS = ("BNODE()", "RAND()", "NOW()", "UUID()", "[ ", "_:t")


# documents a FROM / FROM NAMED clause can LOAD (QueryContext.load): written into a temp dir per case, named in the
# case by placeholders so that a replay does not depend on the directory
DOCS = {
    "<doc:ttl>": ("a.ttl", "@prefix e: <http://e/> .\ne:b e:p e:c .\ne:a e:q \"1\" .\n"),
    "<doc:nt>": ("b.nt", "<http://e/c> <http://e/p> \"x\"@en .\n<http://e/b> <http://e/q> <http://e/C> .\n"),
    "<doc:bad>": ("bad.ttl", "this is <not RDF in any syntax ;;\n"),
    "<doc:missing>": ("missing.ttl", None),
}
DOC_TOK = {"<doc:ttl>": "i50", "<doc:nt>": "i51", "<doc:bad>": "i52", "<doc:missing>": "i53"}
FROM_BODIES = [
    "SELECT ?s ?p ?o {C} WHERE { ?s ?p ?o }",
    "SELECT ?s ?o {C} WHERE { ?s {P} ?o } ORDER BY ?s ?o",
    "SELECT ?g ?s ?o {C} WHERE { { ?s ?p ?o } UNION { GRAPH ?g { ?s ?p ?o } } }",
    "SELECT (COUNT(*) AS ?n) {C} WHERE { GRAPH ?g { ?s ?p ?o } }",
    "SELECT ?s {C} WHERE { ?s {P} ?o . GRAPH {G} { ?s ?p2 ?o2 } }",
    "ASK {C} { ?s ?p ?o }",
    "ASK {C} { GRAPH ?g { ?s {P} ?o } }",
    "CONSTRUCT { ?s ?p ?o } {C} WHERE { ?s ?p ?o }",
    "DESCRIBE ?s {C} WHERE { ?s ?p ?o }",
    "SELECT ?g ?s ?p ?o {C} WHERE { GRAPH ?g { ?s ?p ?o } }",
    "SELECT ?s ?p ?o {C} WHERE { GRAPH {G} { ?s ?p ?o } }",
    "SELECT ?s ?p ?o {C} WHERE { ?s ?p ?o }",
]


def gen_from_query(rng, quads):
    """a query whose dataset clause mixes known non-empty / empty / unknown graphs and loadable documents"""
    nonempty = [GN[g].n3() for g in sorted({q[3] for q in quads} & {1, 2})]
    others = ["<urn:g:1>", "<urn:g:2>", "<urn:g:unknown>"]
    docs = ["<doc:ttl>", "<doc:nt>", "<doc:ttl>", "<doc:nt>", "<doc:bad>", "<doc:missing>"]

    def src():
        r = rng.random()
        if nonempty and r < 0.4:
            return rng.choice(nonempty)
        if r < 0.8:
            return rng.choice(docs if rng.random() < 0.8 else docs[:2])
        return rng.choice(others)
    nf, nn = rng.choice([1, 2, 2, 2, 3]), rng.choice([0, 0, 1, 1, 2])
    clauses = ["FROM " + src() for _ in range(nf)] + ["FROM NAMED " + src() for _ in range(nn)]
    rng.shuffle(clauses)
    q = rng.choice(FROM_BODIES).replace("{C}", " ".join(clauses))
    q = q.replace("{P}", _n3(TERM[rng.choice(PRED)])).replace("{G}", rng.choice(nonempty + others + docs[:2]))
    return q


def _n3(t):
    return t.n3()


def inst_query(rng, tmpl):
    def pick(ids):
        return _n3(TERM[rng.choice(ids)])
    lits = [20, 21, 22, 23, 24, 27]
    giris = [1, 2, 9]

    def gname():     # a graph IRI; sometimes a document that FROM / FROM NAMED can load
        if rng.random() < 0.15:
            return rng.choice(["<doc:ttl>", "<doc:nt>", "<doc:bad>"])
        return _n3(GN[rng.choice(giris)])
    q = tmpl
    for key, f in (("{S2}", lambda: pick(IRIS)), ("{S}", lambda: pick(IRIS)), ("{P2}", lambda: pick(PRED + [13])),
                   ("{P}", lambda: pick(PRED)), ("{O}", lambda: pick([i for i in OBJ if i not in (4, 5, 6)])),
                   ("{L}", lambda: pick(lits)), ("{G2}", lambda: gname()),
                   ("{G}", lambda: gname()), ("{N}", lambda: str(rng.randint(1, 3)))):
        while key in q:
            q = q.replace(key, f(), 1)
    return q


# ------------------------------------------------------------------ generator

def gen_dataset(rng, cfg):
    if cfg == "g":
        gids = [0]
    else:
        k = rng.choice([0, 1, 2, 2, 3, 3])
        gids = [0] + rng.sample(NAMED, k)
        if rng.random() < 0.55 and 3 not in gids and k:   # make blank-node-named graphs frequent
            gids[-1] = 3
    quads, empty = [], []
    pop = [g for g in gids if g == 0 or rng.random() < 0.8]
    if cfg != "g":
        empty = [g for g in gids if g not in pop and g != 0]
        if 0 not in pop and rng.random() < 0.5:
            empty.append(0)                                # default graph registered but empty
    if not pop and rng.random() < 0.7:
        pop = [gids[-1]]
        empty = [g for g in empty if g != gids[-1]]
    n = rng.choice([0, 1, 2, 3, 5, 8, 12])
    for _ in range(n):
        if not pop:
            break
        g = rng.choice(pop)
        q = [rng.choice(SUBJ), rng.choice(PRED), rng.choice(OBJ if rng.random() < 0.8 else [20, 21, 22]), g]
        if q[1] == 12:
            q[2] = rng.choice([28, 28, 29]) if rng.random() < 0.7 else q[2]
        if rng.random() < 0.25 and quads:                   # same triple in a second graph
            q = quads[rng.randrange(len(quads))][:3] + [g]
        if q not in quads:
            quads.append(q)
    if pop and rng.random() < 0.45:                         # a well-formed RDF list (1-3 members), maybe shared
        g = rng.choice(pop)
        cells = [7, 8, 9][: rng.randint(1, 3)]
        for i, c in enumerate(cells):
            quads.append([c, 13, rng.choice(OBJ), g])
            quads.append([c, 14, cells[i + 1] if i + 1 < len(cells) else 26, g])
        quads.append([rng.choice(SUBJ), rng.choice([10, 11]), cells[0], g])
        if rng.random() < 0.25:
            quads.append([rng.choice(SUBJ), 11, cells[-1], g])   # shared tail
    elif pop and rng.random() < 0.1:
        quads.append([rng.choice(SUBJ), 10, 26, rng.choice(pop)])  # empty list as object
    if pop and rng.random() < 0.08:
        quads.append([34, 35, rng.choice([24, 34]), rng.choice(pop)])   # predicate local name ends in "."
    if pop and rng.random() < 0.3:
        # a cycle and a diamond along e:p (nodes reached twice: transitive walks, paths)
        g = rng.choice(pop)
        for t in ([1, 10, 2], [2, 10, 3], [3, 10, 1], [1, 10, 3], [3, 10, 28]):
            if t + [g] not in quads and rng.random() < 0.85:
                quads.append(t + [g])
    if pop and rng.random() < 0.3:
        # a GROUND dataset (no blank nodes: isomorphism is equality, the compare functions' answers are determined) …
        sub = {4: 1, 5: 2, 6: 3, 7: 1, 8: 2, 9: 3}
        ground = []
        for q in quads:
            q2 = [sub.get(q[0], q[0]), q[1], sub.get(q[2], q[2]), q[3]]
            if q2 not in ground:
                ground.append(q2)
        quads = ground
        named = [g for g in pop if g != 0]
        if len(pop) >= 2 and rng.random() < 0.6:
            # … with a graph that is another one's copy, or its copy with one object changed (same size, not isomorphic)
            a, b = rng.sample(pop, 2)
            quads = [q for q in quads if q[3] != b]
            src = [q for q in quads if q[3] == a]
            for i, q in enumerate(src):
                o = q[2]
                if i == 0 and rng.random() < 0.6:
                    o = 28 if o != 28 else 1
                if [q[0], q[1], o, b] not in quads:
                    quads.append([q[0], q[1], o, b])
    return quads, sorted(set(empty))


def _gen_path(rng, depth=0):
    r = rng.random()
    if depth >= 2 or r < 0.35:
        return ["p", rng.choice(PRED + [13, 14])]
    if r < 0.45:
        return ["inv", _gen_path(rng, depth + 1)]
    if r < 0.6:
        return ["seq", _gen_path(rng, depth + 1), _gen_path(rng, depth + 1)]
    if r < 0.75:
        return ["alt", _gen_path(rng, depth + 1), _gen_path(rng, depth + 1)]
    if r < 0.92:
        return ["mul", _gen_path(rng, depth + 1), rng.choice(["*", "+", "?"])]
    return ["neg", rng.choice(PRED)]


def _opt(rng, ids, p_none=0.5):
    return None if rng.random() < p_none else rng.choice(ids)


def gen_read(rng, cfg, quads, kind=None):
    """one read-only call"""
    multi = cfg not in ("g", "view")
    kinds = (["ser"] * 30 + ["q"] * 24 + ["path"] * 8 + ["cmp"] * 8 + ["basic"] * 14 + ["nav"] * 10 + ["iso"] * 4
             + ["pathvar"] * 4 + ["serobj"] * 5)
    if multi:
        kinds += ["ctx"] * 16
    kind = kind or rng.choice(kinds)
    some = (lambda: rng.choice(quads)) if quads else (lambda: [rng.choice(SUBJ), rng.choice(PRED), rng.choice(OBJ), 0])
    gsel = lambda: rng.choice([0, 1, 2, 3, 4, 9])  # noqa: E731
    if kind in ("iso", "pathvar"):
        return gen_aba(rng, cfg, {"quads": list(quads), "empty": []}, fam=kind)[1]
    if kind == "serobj":       # a serializer plugin OBJECT kept by the caller and re-used (created at its first use)
        return ["serobj", rng.choice(SER_FORMATS + ["turtle", "n3", "xml", "pretty-xml"])]
    if kind == "ser":
        fmt = rng.choice(SER_FORMATS + ["json-ld", "json-ld", "trig", "trix", "hext", "nquads"])
        return ["ser", fmt, rng.choice(OPTS_FOR.get(fmt, ["plain", "base", "bytes", "stream"]))]
    if kind == "q" and multi and rng.random() < 0.3:
        return ["q", gen_from_query(rng, quads), rng.choice([0, 0, 0, 0, 1, 1, 4, 8, 2, 5])]
    if kind == "q":
        t = rng.choice(QT)
        if not multi and rng.random() < 0.5:
            t = rng.choice([x for x in QT if "GRAPH" not in x])
        flags = rng.choice([0, 0, 0, 1, 2, 4, 8, 5, 12])
        return ["q", inst_query(rng, t), flags]
    if kind == "path":
        q = some()
        form = rng.choice(["triples", "objects", "subjects", "subject_objects", "slice", "contains"])
        s = q[0] if rng.random() < 0.6 else None
        o = q[2] if rng.random() < 0.3 else None
        return ["path", form, s, _gen_path(rng), o]
    if kind == "cmp":
        f = rng.choice(["isomorphic", "to_isomorphic", "to_canonical_graph", "graph_diff", "similar", "g_isomorphic",
                        "internal_hash", "setop+", "setop-", "setop*", "setop^", "skolemize", "eq"])
        present = sorted({q[3] for q in quads}) or [0]
        pa = rng.choice(present) if rng.random() < 0.5 else rng.choice([-1, 0, 1, 3, gsel()])
        pb = rng.choice(present) if rng.random() < 0.5 else rng.choice([-1, 0, 2, 3, gsel()])
        sizes = {}
        for q in quads:
            sizes[q[3]] = sizes.get(q[3], 0) + 1
        twins = [(a, b) for a in sizes for b in sizes if a != b and sizes[a] == sizes[b]]
        if twins and rng.random() < 0.6:     # two graphs of the same size: the interesting operands for isomorphic / graph_diff
            pa, pb = rng.choice(twins)
        return ["cmp", f, pa, pb]
    if kind == "basic":
        f = rng.choice(["len", "iter", "contains3", "triples", "slice", "getitem", "subjects", "predicates", "objects",
                        "subject_objects", "subject_predicates", "predicate_objects", "triples_choices", "bool", "str",
                        "all_nodes", "connected", "namespaces", "qname", "n3"])
        q = some()
        pat = [q[0] if rng.random() < 0.5 else None, q[1] if rng.random() < 0.5 else None,
               q[2] if rng.random() < 0.5 else None]
        if rng.random() < 0.15:
            pat = [rng.choice(SUBJ), rng.choice(PRED), rng.choice([20, 21, 22])]
        return ["basic", f] + pat + [rng.random() < 0.3]
    if kind == "nav":
        f = rng.choice(["value", "items", "cbd", "collection", "resource", "transitive_objects", "transitive_subjects",
                        "transitiveClosure", "seq", "isomorphic_copy", "absolutize"])
        q = some()
        head = rng.choice([7, 8, q[0], q[2] if q[2] in SUBJ else 7, 26])
        if f.startswith("transitive") and rng.random() < 0.5:
            q = [rng.choice([1, 2, 3]), 10, rng.choice([1, 2, 3, 28]), 0]     # along the e:p cycle / diamond, if there
        return ["nav", f, q[0], q[1], q[2], head]
    # context-aware reads (Dataset / ConjunctiveGraph only)
    f = rng.choice(["graphs", "contexts", "graphs_t", "quads", "contains4", "triples_ctx", "triples4", "get_context",
                    "get_graph", "default", "len_ctx", "iter_ds", "triples_choices_ctx", "aggregate", "store_contexts",
                    "agg_len", "agg_contains", "agg_triples", "agg_quads", "default_ser"])
    q = some()
    # a triple held by several graphs: quads((s, p, o, g)) / aggregates / membership behave differently there
    shared = [x for x in quads if sum(1 for y in quads if y[:3] == x[:3]) > 1]
    if shared and rng.random() < (0.85 if f == "quads" else 0.5):
        q = rng.choice(shared)
    pat = [q[0] if rng.random() < 0.6 else None, q[1] if rng.random() < 0.6 else None,
           q[2] if rng.random() < 0.6 else None]
    g = q[3] if rng.random() < 0.6 else gsel()
    how = rng.choice(["id", "view", "fresh", "view", "fresh"])   # identifier | ds.get_context() | Graph(store=…)
    if f == "default_ser":
        how = rng.choice(["turtle", "xml", "n3", "pretty-xml"])
    return ["ctx", f] + pat + [g, how]


BASE_Q = ['SELECT ?x WHERE { BIND(IRI("rel") AS ?x) }',
          'SELECT ?s ?x WHERE { ?s {P} ?o BIND(IRI("rel#f") AS ?x) }',
          'SELECT ?s ?l WHERE { ?s ?p ?o FILTER(isLiteral(?o)) BIND(URI(STR(?o)) AS ?l) }',
          'SELECT ?x WHERE { BIND(IRI("../up") AS ?x) }',
          'CONSTRUCT { ?s {P} ?x } WHERE { ?s ?p ?o BIND(IRI("d/e") AS ?x) }']
BASES = [{}, {"base": "http://base.example/dir/"}, {"base": "http://b2.example/x/y"}]
REGEX_PATTERNS = ["e/c$", "^HTTP", "X", "^x$", "B.C", "ns#t"]
MIX_QUADS = [[1, 10, 3, 0], [1, 10, 28, 0], [2, 11, 23, 0], [2, 15, 27, 0], [3, 12, 29, 0]]


def gen_aba(rng, cfg, case, fam=None):
    """two RELATED reads R, R' (same query text / pattern / format with other arguments, or another graph):
    the schedule R, R', R must give the first answer again.  May extend the case (quads, binds, other graph)."""
    quads = case["quads"]
    fam = fam or rng.choice(["base", "base", "initb", "initns", "regex", "regex", "lang", "prefix", "prefix", "seropt",
                      "generic", "order", "prepq", "prepq", "pathvar", "pathvar", "iso", "iso", "prefixleak", "prefixleak",
                      "serobj", "serobj", "dgbase"])
    prep = rng.choice([4, 4, 0])
    if fam in ("regex", "lang", "base", "initb", "order", "prepq", "pathvar", "prefixleak"):
        for q in MIX_QUADS:
            if q not in quads and cfg != "view":
                quads.append(list(q))
    if fam == "prefixleak":
        # R relies on a prefix rdflib PREDEFINES for every query (no PREFIX line, no initNs entry) and is prepared afresh
        # at every call (flag 16); R' declares that prefix for another namespace (PREFIX line or initNs)
        pfx = rng.choice(["rdf", "rdf", "xsd", "rdfs"])
        r_texts = {"rdf": ["SELECT ?s ?o WHERE { ?s rdf:type ?o }", "ASK { ?s rdf:type <http://t/ns#T> }",
                           "SELECT ?s ?x WHERE { ?s rdf:first ?x }", "CONSTRUCT { ?s rdf:type ?o } WHERE { ?s rdf:type ?o }"],
                   "xsd": ['SELECT ?s ?o WHERE { ?s ?p ?o FILTER(datatype(?o) = xsd:date) }',
                           'SELECT ?s WHERE { ?s ?p ?o FILTER(?o = "1"^^xsd:string) }'],
                   "rdfs": ["SELECT ?s WHERE { ?s ?p ?o FILTER(?p != rdfs:label) }"]}[pfx]
        other = rng.choice([EX, "http://o/ns#"])
        loc = {"rdf": "p", "xsd": "q", "rdfs": "p"}[pfx]
        if rng.random() < 0.5:
            r2 = ["q", "PREFIX %s: <%s> SELECT ?s ?o WHERE { ?s %s:%s ?o }" % (pfx, other, pfx, loc), rng.choice([0, 4])]
        else:
            r2 = ["q", "SELECT ?s ?o WHERE { ?s %s:%s ?o }" % (pfx, loc), rng.choice([0, 4]), {"ns": {pfx: other}}]
        return fam, ["q", rng.choice(r_texts), 4 | 16], r2
    if fam == "serobj":
        case["reps"] = 3
        fmts = ["turtle", "turtle", "n3", "n3", "xml", "pretty-xml", "nt", "longturtle", "trig", "json-ld", "nquads", "trix", "hext"]
        a, b = rng.sample(sorted(set(fmts)), 2) if rng.random() < 0.4 else (rng.choice(fmts),) * 2
        return fam, ["serobj", a], (["serobj", b] if rng.random() < 0.6 else ["ser", b, "plain"])
    if fam == "dgbase":
        # R shows the base of the dataset's own default graph, R' enumerates the graphs
        if cfg in ("ds", "dsu"):
            case["dgbase"] = True
            if rng.random() < 0.8:
                quads[:] = [q for q in quads if q[3] != 0]
                case["empty"] = [g for g in case.get("empty", []) if g != 0]
        r1 = ["ctx", "default_ser", None, None, None, 0, rng.choice(["turtle", "xml", "n3", "pretty-xml", "longturtle"])]
        r2 = rng.choice([["ctx", "graphs", None, None, None, 0, "id"], ["ctx", "contexts", None, None, None, 0, "id"],
                         ["ser", "trig", "plain"], ["ser", "trix", "plain"], ["ser", "nquads", "plain"],
                         ["ser", "json-ld", "plain"], ["q", "SELECT ?g WHERE { GRAPH ?g { ?s ?p ?o } }", 0]])
        if cfg in ("g", "view"):
            r1 = ["ser", "turtle", "base"]
        return fam, r1, r2
    if fam == "base":
        t = rng.choice(BASE_Q).replace("{P}", _n3(TERM[rng.choice([10, 11])]))
        a, b = rng.sample(BASES, 2)
        return fam, ["q", t, prep, a], ["q", t, prep, b]
    if fam == "prepq":
        # one PREPARED CONSTRUCT / ASK / DESCRIBE evaluated >= 3 times; templates with constant triples and
        # template-only blank nodes, CONSTRUCT WHERE with a constant triple
        case["reps"] = 3
        ts = ["CONSTRUCT { {S} {P} {O} . ?s {P2} ?o } WHERE { ?s {P} ?o }",
              "CONSTRUCT { ?s {P2} ?o . {S} a {S2} . {S2} {P} \"k\" } WHERE { ?s ?p ?o }",
              "CONSTRUCT { _:t {P2} ?o . _:t a {S} . {S} {P} {S2} } WHERE { ?s {P} ?o }",
              "CONSTRUCT WHERE { {S} {P} ?o . ?s {P2} ?o2 }",
              "CONSTRUCT WHERE { {S} {P} {O2} . ?s {P} ?o }",
              "CONSTRUCT { {S} {P} {S2} } WHERE { }",
              "ASK { {S} {P} ?o . ?s {P2} ?o2 }",
              "DESCRIBE {S} ?s WHERE { ?s {P} ?o }"]
        t = rng.choice(ts)
        t = t.replace("{O2}", rng.choice(["<http://e/c>", "<http://e/C>"]))
        t = inst_query(rng, t.replace("{P}", "<http://e/p>") if rng.random() < 0.7 else t)
        a, b = rng.sample([{}, {"ib": 1}, {"ib": 2}], 2)
        return fam, ["q", t, 4, a], ["q", t, 4, b if rng.random() < 0.4 else a]
    if fam == "pathvar":
        # a path object kept in a variable: reads with paths DERIVED from it, and with the object itself
        base = rng.choice([["seq", ["p", 10], ["p", 11]], ["seq", ["p", 10], ["p", 10]], ["alt", ["p", 10], ["p", 11]],
                           ["alt", ["p", 12], ["p", 15]], ["seq", ["p", 14], ["p", 13]], ["p", 10],
                           ["seq", ["alt", ["p", 10], ["p", 11]], ["p", 12]]])
        form = lambda: rng.choice(["objects", "subjects", "subject_objects", "triples"])  # noqa: E731
        d1, d2 = rng.sample(["/", "|", "~", "*+", "**", "*?", "-", "self", "/", "|"], 2)
        s_ = rng.choice([1, 2, 3, None])
        return fam, ["pathvar", base, d1, rng.choice(PRED), form(), s_], ["pathvar", base, d2, rng.choice(PRED), form(), s_]
    if fam == "iso":
        # compare reads on operands that ARE IsomorphicGraph objects / aggregates / other views of the store
        kinds = ["iso", "iso", "iso", "roga", "cg", "view"]
        gs = sorted({q[3] for q in quads}) or [0]
        fs = ["graph_diff", "graph_diff", "isomorphic", "to_isomorphic", "similar", "to_canonical_graph", "eq",
              "internal_hash"]
        a = rng.choice(gs)
        b = a if rng.random() < 0.5 else rng.choice(gs)
        return (fam, ["iso", rng.choice(fs), rng.choice(kinds), a, rng.choice(kinds), b],
                ["iso", rng.choice(fs), rng.choice(kinds), a, rng.choice(kinds), b])
    if fam == "order":
        t = rng.choice(["SELECT ?s ?p ?o WHERE { ?s ?p ?o } ORDER BY ?s DESC(?o) ?p",
                        "SELECT ?s ?o WHERE { ?s ?p ?o } ORDER BY DESC(?p) ?o LIMIT 3 OFFSET 1",
                        "SELECT ?p ?o WHERE { ?s ?p ?o } ORDER BY ?p DESC(STR(?o)) LIMIT 2",
                        "SELECT ?s (COUNT(?o) AS ?n) WHERE { ?s ?p ?o } GROUP BY ?s ORDER BY DESC(?n) ?s"])
        a, b = rng.sample([{}, {"ib": 1}, {"ib": 2}, {"base": "http://base.example/dir/"}], 2)
        return fam, ["q", t, 4, a], ["q", t, 4, b if rng.random() < 0.6 else a]
    if fam == "initb":
        t = rng.choice(["SELECT ?s ?p ?o WHERE { ?s ?p ?o }", "SELECT ?s ?x WHERE { ?s ?p ?o OPTIONAL { ?o ?q ?x } }",
                        "ASK { ?s ?p ?o }"])
        a, b = rng.sample([{}, {"ib": 1}, {"ib": 2}, {"ib": 4}], 2)
        return fam, ["q", t, prep, a], ["q", t, prep, b]
    if fam == "initns":
        t = rng.choice(["SELECT ?s ?o WHERE { ?s x:p ?o }", "ASK { ?s x:q ?o }", "SELECT ?s WHERE { ?s x:r ?o }"])
        a, b = rng.sample([{"ns": {"x": EX}}, {"ns": {"x": "http://o/ns#"}}, {"ns": {"x": "http://e/", "y": "urn:y:"}}], 2)
        return fam, ["q", t, prep, a], ["q", t, prep, b]
    if fam == "regex":
        pat = rng.choice(REGEX_PATTERNS)
        fa, fb = rng.sample(["", ', "i"', ', "s"', ', "im"'], 2)
        t = 'SELECT ?s ?o WHERE { ?s ?p ?o FILTER regex(STR(?o), "%s"%s) }'
        if rng.random() < 0.3:
            t = 'ASK { ?s ?p ?o FILTER regex(STR(?o), "%s"%s) }'
        return fam, ["q", t % (pat, fa), rng.choice([0, 4])], ["q", t % (pat, fb), rng.choice([0, 4])]
    if fam == "lang":
        conds = ['LANG(?o) = "en"', 'LANG(?o) = "EN"', 'LANGMATCHES(LANG(?o), "EN")', 'STR(?o) = "x"', 'STR(?o) = "X"',
                 'CONTAINS(STR(?o), "C")', 'CONTAINS(LCASE(STR(?o)), "c")', 'STRSTARTS(STR(?o), "http://e/c")']
        a, b = rng.sample(conds, 2)
        t = "SELECT ?s ?o WHERE { ?s ?p ?o FILTER(%s) }"
        return fam, ["q", t % a, prep], ["q", t % b, prep]
    if fam == "prefix":
        # graph 1 binds `_t`; graph 2 binds a real `p_t` (met first) and `_t`: the Turtle family rewrites `_t`
        tag = rng.choice(["a", "b", "9", "x1"])
        g1 = {"binds": [["_" + tag, "http://one/"]], "quads": [[30, 31, 24]]}
        g2 = {"binds": [["p_" + tag, "http://two/"], ["_" + tag, "http://three/"]], "quads": [[32, 33, 24]]}
        mine, other = (g1, g2) if rng.random() < 0.5 else (g2, g1)
        if cfg != "view":
            case["binds"] = mine["binds"]
            quads += [q + [0] for q in mine["quads"]]
        case["other"] = other
        fmts = ["turtle", "turtle", "n3", "trig", "longturtle"]
        return fam, ["ser", rng.choice(fmts), "plain"], ["oser", rng.choice(fmts), "plain"]
    if fam == "seropt":
        fmt = rng.choice([f for f in SER_FORMATS if len(OPTS_FOR.get(f, ["plain", "base", "bytes", "stream"])) > 1])
        a, b = rng.sample(sorted(set(OPTS_FOR.get(fmt, ["plain", "base", "bytes", "stream"]))), 2)
        return fam, ["ser", fmt, a], ["ser", fmt, b]
    kind = rng.choice(["q", "path", "basic", "nav", "cmp", "ser"])
    return fam, gen_read(rng, cfg, quads, kind), gen_read(rng, cfg, quads, kind)


def gen_case(rng, tier, i):
    cfg = rng.choice(["ds", "ds", "ds", "dsu", "dsu", "cg", "cgd", "g", "view"])
    quads, empty = gen_dataset(rng, cfg)
    case = {"cfg": cfg, "quads": quads, "empty": empty, "twice": rng.random() < 0.6, "nobind": rng.random() < 0.4}
    if cfg in ("ds", "dsu", "view") and rng.random() < 0.3:
        # Dataset(default_graph_base=…): an attribute of the dataset's own default graph that reads must leave alone;
        # mostly with a default graph that never held a triple and was never listed (data in named graphs only)
        case["dgbase"] = True
        if rng.random() < 0.7:
            quads[:] = [q for q in quads if q[3] != 0]
            empty[:] = [g for g in empty if g != 0]
    if cfg == "view":
        gs = sorted({q[3] for q in quads} | set(empty)) or [0]
        case["view"] = rng.choice(gs + [9])
    if rng.random() < 0.3:
        # A, B, A: a read, a RELATED different read, the first read again (run_impl repeats reads[0] at the end);
        # every read is also compared with its answer in a pristine process (`ref`)
        fam, r1, r2 = gen_aba(rng, cfg, case)
        reads = [r1, r2] if rng.random() < 0.5 else [r2, r1]
        if rng.random() < 0.3:
            reads.insert(rng.randint(1, 2), gen_aba(rng, cfg, case)[rng.randint(1, 2)])
        twice = rng.random() < (0.7 if fam in ("prepq", "pathvar", "iso", "serobj") else 0.25)
        case.update({"twice": twice, "reads": reads, "ref": True, "aba": fam})
        return case
    case["ref"] = rng.random() < 0.08
    n = rng.randint(18, 30) if case["twice"] else rng.randint(2, 5)
    reads = []
    if case["twice"]:
        # every case sees every family, and every quad-capable serializer at least sometimes
        for k in ("ser", "ser", "ser", "q", "q", "q", "path", "cmp", "basic", "nav"):
            reads.append(gen_read(rng, cfg, quads, k))
        if cfg not in ("g", "view"):
            reads += [gen_read(rng, cfg, quads, "ctx") for _ in range(3)]
    while len(reads) < n:
        reads.append(gen_read(rng, cfg, quads))
    rng.shuffle(reads)
    case["reads"] = reads
    return case


# ------------------------------------------------------------------ building and snapshotting

def _gid(cfg, g):
    if g == 0:
        if cfg in ("ds", "dsu", "view", "cgd"):
            return DATASET_DEFAULT_GRAPH_ID
        return CG_DEFAULT if cfg == "cg" else PLAIN_ID
    return GN[g]


def build(case):
    cfg = case["cfg"]
    dgb = {"default_graph_base": EX} if case.get("dgbase") else {}
    if cfg in ("ds", "view"):
        top = Dataset(**dgb)
    elif cfg == "dsu":
        top = Dataset(default_union=True, **dgb)
    elif cfg == "cg":
        top = ConjunctiveGraph(identifier=CG_DEFAULT)
    elif cfg == "cgd":
        top = ConjunctiveGraph(identifier=DATASET_DEFAULT_GRAPH_ID)
    else:
        top = Graph(identifier=PLAIN_ID)
    if not case.get("nobind"):
        top.bind("e", EX)
    for pfx, ns in case.get("binds", []):
        top.bind(pfx, ns)
    store = top.store
    for s, p, o, g in case["quads"]:
        if cfg == "g":
            top.add((TERM[s], TERM[p], TERM[o]))
        else:
            store.add((TERM[s], TERM[p], TERM[o]), Graph(store=store, identifier=_gid(cfg, g)))
    for g in case.get("empty", []):
        if cfg != "g":
            store.add_graph(Graph(store=store, identifier=_gid(cfg, g)))
    target = top
    if cfg == "view":
        target = top.get_context(_gid(cfg, case.get("view", 0)))
    return top, target


def build_other(case):
    """a second, unrelated plain graph (own store) that `oser` reads serialise between reads of the main one"""
    spec = case.get("other")
    if not spec:
        return None
    g = Graph(identifier=URIRef("urn:g:other"))
    for pfx, ns in spec.get("binds", []):
        g.bind(pfx, ns)
    for s_, p_, o_ in spec["quads"]:
        g.add((TERM[s_], TERM[p_], TERM[o_]))
    return g


_OPER = {}
_PATHS = {}
_SEROBJ = {}     # serializer plugin OBJECTS the caller keeps and re-uses: format -> instance


def build_aux(case, top):
    """objects a caller keeps between reads: the other graph, compare operands, path variables"""
    _OTHER["g"] = build_other(case)
    _OPER.clear()
    _OPER["top"] = top
    _PATHS.clear()
    _SEROBJ.clear()


def _operand(case, kind, g):
    """an operand for the compare reads, built once per run and then RE-USED (it is the caller's object):
    iso = an IsomorphicGraph holding a copy of graph g; roga = a ReadOnlyGraphAggregate over views;
    cg = another ConjunctiveGraph object on the dataset's store; view = a Graph view"""
    key = (kind, g)
    if key in _OPER:
        return _OPER[key]
    top = _OPER["top"]
    cfg = case["cfg"]
    view = top if cfg == "g" else top.get_context(_gid(cfg, g))
    if kind == "iso":
        o = rcompare.IsomorphicGraph()
        for t in view.triples((None, None, None)):
            o.add(t)
    elif kind == "roga":
        o = ReadOnlyGraphAggregate([view, view if cfg == "g" else top.get_context(_gid(cfg, 0))])
    elif kind == "cg" and cfg != "g":
        o = ConjunctiveGraph(store=top.store, identifier=_gid(cfg, g))
    else:
        o = view
    _OPER[key] = o
    return o


def _operand_snapshot(o):
    if isinstance(o, ConjunctiveGraph) and not isinstance(o, rcompare.IsomorphicGraph):
        return None                  # a view of the dataset's own store: covered by the dataset snapshot
    return set(o.triples((None, None, None)))


def snapshot(case, top):
    """(sorted quads as id tuples with graph tokens, sorted graph tokens incl. the default graph)"""
    cfg = case["cfg"]
    grev = {_gid(cfg, g): GTOK[g] for g in GTOK}

    def tid(t):
        return str(TERM_REV[t]) if t in TERM_REV else "?" + t.n3()

    def gtok(ident):
        return grev.get(ident, "?" + ident.n3())
    quads = set()
    if cfg == "g":
        for (s, p, o), ctxs in top.store.triples((None, None, None), None):
            cl = [c for c in ctxs if c is not None]
            for c in cl or [top]:
                quads.add((tid(s), tid(p), tid(o), gtok(c.identifier)))
        names = {"d"} | {gtok(c.identifier) for c in top.store.contexts()}
    else:
        raw = list(top.quads((None, None, None, None)))
        for s, p, o, c in raw:
            ident = c if (c is None or not isinstance(c, Graph)) else c.identifier
            quads.add((tid(s), tid(p), tid(o), "d" if ident is None else gtok(ident)))
        names = {"d"} | {gtok(c.identifier) for c in top.store.contexts()}
    return sorted(quads), sorted(names)


def _obs_line(snap, ns=(), base="-"):
    qs, names = snap
    return (" ".join(sorted(",".join(q) for q in qs)) + " | " + " ".join(sorted(names))
            + " | " + " ".join(sorted(ns)) + " | " + base)


def base_obs(top):
    """the base IRI of the dataset's own default graph (a plain graph: its own base), as a namespace id"""
    b = top.default_context.base if isinstance(top, ConjunctiveGraph) else top.base
    return "-" if b is None else str(NS_REV.get(str(b), "?" + str(b)))


def attr_snapshot(top, target):
    """attributes of the objects being read that no read may change (besides triples, graphs, bindings)"""
    a = {"base": top.base, "identifier": top.identifier, "namespace_manager": id(top.namespace_manager),
         "store": id(top.store), "default_union": getattr(top, "default_union", None)}
    if isinstance(top, ConjunctiveGraph):
        dc = top.default_context
        a.update({"default_context": id(dc), "default_context.base": dc.base,
                  "default_context.identifier": dc.identifier,
                  "default_context.namespace_manager": id(dc.namespace_manager)})
    if target is not top:
        a.update({"view.base": target.base, "view.identifier": target.identifier, "view.store": id(target.store),
                  "view.namespace_manager": id(target.namespace_manager)})
    return a


_DEFAULT_NS = None


def ns_obs(top):
    """the vocabulary's namespaces that have a prefix in the store's tables (ids of `NS`); a namespace outside the
    vocabulary and outside rdflib's default bindings shows up as `?<iri>` (the model has no such id: a divergence)"""
    global _DEFAULT_NS
    if _DEFAULT_NS is None:
        _DEFAULT_NS = {str(u) for _p, u in Graph().namespaces()}
    out = set()
    for _pfx, uri in top.namespaces():
        u = str(uri)
        if u in NS_REV:
            out.add(str(NS_REV[u]))
        elif u not in _DEFAULT_NS:
            out.add("?" + u)
    return out


# ------------------------------------------------------------------ the read calls

def _t(x):
    return None if x is None else TERM[x]


def _mk_path(spec):
    k = spec[0]
    if k == "p":
        return TERM[spec[1]]
    if k == "inv":
        return InvPath(_mk_path(spec[1]))
    if k == "seq":
        return SequencePath(_mk_path(spec[1]), _mk_path(spec[2]))
    if k == "alt":
        return AlternativePath(_mk_path(spec[1]), _mk_path(spec[2]))
    if k == "mul":
        return MulPath(_mk_path(spec[1]), spec[2])
    if k == "neg":
        return NegatedPath(TERM[spec[1]])
    raise ValueError(spec)


def _k(t):
    """canonical key of a term / tuple / graph-ish value"""
    if t is None:
        return "-"
    if isinstance(t, Graph):
        return "G:" + t.identifier.n3()
    if isinstance(t, (tuple, list)):
        return "(" + " ".join(_k(x) for x in t) + ")"
    if hasattr(t, "n3"):
        try:
            return t.n3()
        except Exception:
            return repr(t)
    return repr(t)


def _bag(it):
    return sorted(_k(x) for x in it)


class Fresh:
    """an answer that contains freshly minted labels: compare up to blank-node renaming"""
    def __init__(self, tuples):
        self.tuples = set(tuples)


class Text:
    def __init__(self, fmt, text, quadfmt):
        self.fmt, self.text, self.quadfmt = fmt, text, quadfmt


_SIDE_VIOL = []

# ---- skeleton outputs compared with the Lean model's `Out` (round g) ----------------------------------------------
# do_read leaves, for the reads whose answer the model computes exactly, a canonical line here:
#   "T s,p,o …" triples (bag) | "Q s,p,o,g …" quads (bag) | "QS …" quads (set) | "N g …" graph names | "b 0|1" | "n k"
#   | "R a,b,c …" rows (bag) | "E" the read raised
_OUT = [None]
_SKIPPED = []
# formats whose TEXT is a parameter of the model, but for which the model says that a document IS produced (`Out` is not
# `.err`; on the clean tree they raise only where the model raises: longturtle canon=True on a Dataset): the harness
# compares "produced a document" / "raised" with the model ("S ok" / "E")
STATUS_FORMATS = ("json-ld", "turtle", "n3", "longturtle", "xml", "pretty-xml")


def _tid(t):
    return str(TERM_REV[t]) if t in TERM_REV else "?" + _k(t)


def _gtok_of(case, ident):
    if ident is None:
        return "d"
    if isinstance(ident, Graph):
        ident = ident.identifier
    for g, tok in GTOK.items():
        if _gid(case["cfg"], g) == ident:
            return tok
    return "?" + ident.n3()


def _out(kind, toks, as_set=False):
    toks = sorted(set(toks)) if as_set else sorted(toks)
    _OUT[0] = (kind + " " + " ".join(toks)).strip()


def _ttok(t):
    return ",".join(_tid(x) for x in t[:3])


def _qtok(case, q):
    return _ttok(q) + "," + _gtok_of(case, q[3])


def _gcode_map():
    """graph identifier (n3 / document placeholder url) -> the number the driver prints for it inside rows"""
    m = {}
    for k, v in GN.items():
        m[v.n3()] = (200 if isinstance(v, BNode) else 100) + k
    for ph, tok in DOC_TOK.items():
        m[_DOC_URLS.get(ph, ph)] = 100 + int(tok[1:])
    return m


def _line_tokens(case, lines, quads):
    """N-Triples / N-Quads lines -> id tokens, by the text of the terms (no parser involved)"""
    t2id = {}
    for tid, t in TERM.items():
        t2id[t.n3()] = str(tid)
    t2id['"a\\"b\\nc"'] = "27"                      # the N-Triples spelling of Literal('a"b<LF>c')
    g2tok = {_gid(case["cfg"], g).n3(): tok for g, tok in GTOK.items()}
    out = []
    for ln in lines:
        body = ln.rstrip()
        if not body.endswith(" ."):
            out.append("?" + ln)
            continue
        body = body[:-2].rstrip()                    # the default graph has no label: "s p o  ."
        s_, _, rest = body.partition(" ")
        p_, _, rest = rest.partition(" ")
        g_ = None
        if quads:
            o_, _, g_ = rest.rpartition(" ")
            if not (g_.startswith("<") or g_.startswith("_:")) or not o_:
                o_, g_ = rest, None
        else:
            o_ = rest
        toks = [t2id.get(x, "?" + x) for x in (s_, p_, o_)]
        if quads:
            toks.append("d" if g_ is None else g2tok.get(g_, "?" + g_))
        out.append(",".join(toks))
    return out


def _hext_tokens(case, lines):
    """hextuple lines (JSON arrays) -> quad tokens, by the text of the terms (json module only)"""
    obj = {}
    for tid, t in TERM.items():
        if isinstance(t, URIRef):
            obj[(str(t), "globalId", "")] = str(tid)
        elif isinstance(t, BNode):
            obj[(t.n3(), "localId", "")] = str(tid)
        else:
            dt = str(t.datatype) if t.datatype is not None else (
                "http://www.w3.org/1999/02/22-rdf-syntax-ns#langString" if t.language else "http://www.w3.org/2001/XMLSchema#string")
            obj[(str(t), dt, t.language or "")] = str(tid)
    node = {}
    for tid, t in TERM.items():
        if isinstance(t, URIRef):
            node[str(t)] = str(tid)
        elif isinstance(t, BNode):
            node[t.n3()] = str(tid)
    g2tok = {"": "d"}
    for g, tok in GTOK.items():
        ident = _gid(case["cfg"], g)
        g2tok.setdefault(ident.n3() if isinstance(ident, BNode) else str(ident), tok)
    out = []
    for ln in lines:
        try:
            s_, p_, v, dt, lang, g_ = _json.loads(ln)
        except ValueError:
            out.append("?" + ln)
            continue
        out.append(",".join([node.get(s_, "?" + s_), node.get(p_, "?" + p_), obj.get((v, dt, lang), "?" + repr((v, dt, lang))),
                             g2tok.get(g_, "?" + g_)]))
    return out


def _is_ground(case, g):
    """graph g of the case holds no blank node (isomorphism = equality of the triple sets)"""
    gs = None if case["cfg"] == "g" else g
    return all(t not in (4, 5, 6, 7, 8, 9) for q in case["quads"] if gs is None or q[3] == gs for t in q[:3])


def _trig_graph_counts(case, text):
    """TriG text -> "<graph>:<number of triples>" per graph block (blank-node-named graphs pooled as `b`); None if
    the text cannot be read back"""
    d = Dataset()
    d.parse(data=text, format="trig")
    counts = {}
    for c in d.contexts():
        n = len(c)
        if n == 0:
            continue
        ident = c.identifier
        tok = "b" if isinstance(ident, BNode) and ident != _gid(case["cfg"], 0) else _gtok_of(case, ident)
        if ident == DATASET_DEFAULT_GRAPH_ID:
            tok = "d"
        counts[tok] = counts.get(tok, 0) + n
    return [f"{k}:{v}" for k, v in counts.items()]


# the query shapes whose answer the model computes exactly (driver bodies spo / s / gspo)
_C = r"((?:FROM (?:NAMED )?<[^>]*> ?)*)"
_Q_SHAPES = [
    (re.compile(r"^SELECT \?s \?p \?o " + _C + r"WHERE \{ \?s \?p \?o \}$"), "s", "spo"),
    (re.compile(r"^SELECT \?g \?s \?p \?o " + _C + r"WHERE \{ GRAPH \?g \{ \?s \?p \?o \} \}$"), "s", "gspo"),
    (re.compile(r"^SELECT \?s \?p \?o " + _C + r"WHERE \{ GRAPH <[^>]*> \{ \?s \?p \?o \} \}$"), "s", "gspo"),
    (re.compile(r"^ASK " + _C + r"\{ \?s \?p \?o \}$"), "a", "spo"),
    (re.compile(r"^CONSTRUCT \{ \?s \?p \?o \} " + _C + r"WHERE \{ \?s \?p \?o \}$"), "c", "spo"),
    (re.compile(r"^DESCRIBE \?s " + _C + r"WHERE \{ \?s \?p \?o \}$"), "d", "s"),
]


def q_shape(rd):
    """(kind, body) when the model computes this query's answer exactly, else None"""
    if rd[2] & 8 or (len(rd) > 3 and (rd[3].get("ib") or rd[3].get("ns"))):
        return None
    for rx, kind, body in _Q_SHAPES:
        if rx.match(rd[1]):
            return kind, body
    return None


def _patch_target(case):
    """the case's dataset without its first quad, plus one quad it does not hold"""
    tgt = Dataset()
    for s_, p_, o_, g_ in case["quads"][1:] + [[2, 10, 3, 1], [3, 15, 20, 0]]:
        tgt.store.add((TERM[s_], TERM[p_], TERM[o_]), Graph(store=tgt.store, identifier=_gid("ds", g_)))
    return tgt


def _graph_arg(case, top, target, g):
    """-1 = the read target itself, else a same-store view of graph g"""
    if g == -1:
        return target
    if case["cfg"] == "g":
        return top
    return top.get_context(_gid(case["cfg"], g))


def _ctx_arg(case, top, g, how):
    ident = _gid(case["cfg"], g)
    if how == "id":
        return ident
    if how == "view":
        return top.get_context(ident)
    return Graph(store=top.store, identifier=ident)


def do_read(case, top, target, rd):
    """execute one read-only call; returns a canonical, comparable answer"""
    api = rd[0]
    cfg = case["cfg"]
    if api == "oser":                     # serialise the OTHER graph of the case (an intervening, unrelated read)
        other = _OTHER.get("g")
        before_o = set(other)
        try:
            return do_read({**case, "cfg": "g"}, other, other, ["ser"] + rd[1:])
        finally:
            if set(other) != before_o:
                _SIDE_VIOL.append("mutated:oser: serialising the other graph changed it")
    if api == "iso":
        _, f, ka, a, kb, b = rd
        ga, gb = _operand(case, ka, a), _operand(case, kb, b)
        before_ops = (_operand_snapshot(ga), _operand_snapshot(gb))
        try:
            if f == "graph_diff":
                return [_bag(set(x)) for x in rcompare.graph_diff(ga, gb)]
            if f == "isomorphic":
                return [rcompare.isomorphic(ga, gb), ga.isomorphic(gb)]
            if f == "to_isomorphic":
                r = rcompare.to_isomorphic(ga)
                return _bag(set(r)) + [r == rcompare.to_isomorphic(gb), r is ga]
            if f == "similar":
                return [rcompare.similar(ga, gb)]
            if f == "to_canonical_graph":
                return _bag(set(rcompare.to_canonical_graph(ga))) + _bag(set(rcompare.to_canonical_graph(gb)))
            if f == "eq":
                return [ga == gb, ga != gb, hash(ga) == hash(gb), len(ga), len(gb)]
            if f == "internal_hash":
                return [str(rcompare.to_isomorphic(ga).internal_hash()), str(rcompare.to_isomorphic(gb).graph_digest())]
            raise ValueError(rd)
        finally:
            for which, o, bef in (("first", ga, before_ops[0]), ("second", gb, before_ops[1])):
                if bef is not None and _operand_snapshot(o) != bef:
                    lost = sorted(_k(t) for t in bef - _operand_snapshot(o))
                    _SIDE_VIOL.append(f"mutated:iso/{f}: the {which} operand ({type(o).__name__} of graph "
                                      f"{GTOK.get(a if which == 'first' else b)}) changed: lost {lost[:4]}, gained "
                                      f"{sorted(_k(t) for t in _operand_snapshot(o) - bef)[:4]}")
    if api == "pathvar":
        _, spec, deriv, extra, form, s_ = rd
        key = _json.dumps(spec)
        chain = _PATHS.get(key)
        if chain is None:
            chain = _PATHS[key] = _mk_path(spec)        # `chain = a / b`, kept in a variable
        shape = repr(chain)
        x = TERM[extra]
        try:
            if deriv == "/":
                p = chain / x
            elif deriv == "|":
                p = chain | x
            elif deriv == "~":
                p = ~chain
            elif deriv in ("*+", "**", "*?"):
                p = chain * deriv[1]
            elif deriv == "-":
                p = -chain
            else:
                p = chain

            def ev(path):
                if form == "objects":
                    return _bag(target.objects(_t(s_), path))
                if form == "subjects":
                    return _bag(target.subjects(path, _t(s_)))
                if form == "subject_objects":
                    return _bag(target.subject_objects(path))
                return _bag(target.triples((_t(s_), path, None)))
            return [ev(p), ev(chain), repr(p)]
        finally:
            if repr(chain) != shape:
                _SIDE_VIOL.append(f"argument-mutated:pathvar: the path object kept by the caller changed from {shape} "
                                  f"to {repr(chain)} while a path derived from it ({deriv}) was built / read")
    if api == "serobj":
        fmt = rd[1]
        ser = _SEROBJ.get(fmt)
        if ser is None:
            ser = _SEROBJ[fmt] = rdflib.plugin.get(fmt, rdflib.serializer.Serializer)(target)
        buf = io.BytesIO()
        ser.serialize(buf, encoding="utf-8")
        out = buf.getvalue().decode("utf-8")
        if fmt in LINE_FORMATS:
            return sorted(l for l in out.splitlines() if l.strip())
        return Text(fmt, out, fmt in QUAD_FORMATS and isinstance(target, ConjunctiveGraph))
    if api == "ser":
        _, fmt, optname = rd
        kw = dict(SER_OPTS[optname])
        stream = kw.pop("_stream", False)
        tgt = None
        if kw.pop("_target", False):       # PatchSerializer._diff: a second dataset to diff against (also only read)
            tgt = _patch_target(case)
            kw["target"] = tgt
            tgt_before = set(tgt.quads((None, None, None, None)))
        if stream:
            buf = io.BytesIO()
            target.serialize(destination=buf, format=fmt, **kw)
            out = buf.getvalue()
        else:
            out = target.serialize(format=fmt, **kw)
        if tgt is not None and set(tgt.quads((None, None, None, None))) != tgt_before:
            _SIDE_VIOL.append("mutated:ser/patch-target: the target dataset handed to the patch serializer changed")
        if isinstance(out, bytes):
            out = out.decode("utf-8")
        if fmt in STATUS_FORMATS:
            _OUT[0] = "S ok"
        if fmt in LINE_FORMATS:
            lines = sorted(l for l in out.splitlines() if l.strip())
            if fmt in ("nt", "nt11"):
                _out("T", _line_tokens(case, lines, False))
            elif fmt == "nquads":
                _out("QS", _line_tokens(case, lines, True), as_set=True)
            elif fmt == "hext" and isinstance(target, ConjunctiveGraph):
                _out("Q", _hext_tokens(case, lines))            # a BAG: a registered non-empty default graph is written twice
            return lines
        if fmt == "trig" and isinstance(target, ConjunctiveGraph):
            try:
                _out("GC", _trig_graph_counts(case, out))
            except core.CaseTimeout:
                raise
            except Exception:
                # the text cannot be read back (a round-trip matter, not C13's): the comparison is SKIPPED for this read —
                # the line is filled in from the case itself and counted
                counts = {}
                for q in case["quads"]:
                    tok = "b" if q[3] in (3, 4) else GTOK[q[3]]
                    counts[tok] = counts.get(tok, 0) + 1
                _out("GC", [f"{k}:{v}" for k, v in counts.items()])
                _SKIPPED.append("trig")
            return Text(fmt, out, True)
        return Text(fmt, out, fmt in QUAD_FORMATS and isinstance(target, ConjunctiveGraph))
    if api == "q":
        text, flags = rd[1], rd[2]
        kw4 = rd[3] if len(rd) > 3 else {}
        for ph, url in _DOC_URLS.items():
            text = text.replace(ph, url)
        old = (rsparql.SPARQL_LOAD_GRAPHS, rsparql.SPARQL_DEFAULT_GRAPH_UNION)
        try:
            if flags & 1:
                rsparql.SPARQL_LOAD_GRAPHS = False
            if flags & 2:
                rsparql.SPARQL_DEFAULT_GRAPH_UNION = False
            kw = {}
            if flags & 8:
                kw["initBindings"] = {"s": TERM[1]}
            if "base" in kw4:
                kw["base"] = kw4["base"]
            if "ib" in kw4:
                kw["initBindings"] = {"s": TERM[kw4["ib"]]}
            if "ns" in kw4:
                kw["initNs"] = dict(kw4["ns"])
            if flags & 4:        # one prepared object per query text and case: re-used by later calls with other arguments
                pkey = (text, _json.dumps(kw4.get("ns"), sort_keys=True))
                if flags & 16:      # prepared AFRESH at every call (prefixes are resolved when a query is prepared)
                    qobj = prepareQuery(text, initNs=kw4.get("ns") or {})
                else:
                    if pkey not in _PREPARED:
                        _PREPARED[pkey] = prepareQuery(text, initNs=kw4.get("ns") or {})
                    qobj = _PREPARED[pkey]
            else:
                qobj = text
            res = target.query(qobj, **kw)
            shape = q_shape(rd)
            if res.type == "ASK":
                if shape:
                    _out("b", ["1" if res.askAnswer else "0"])
                return ["ASK", bool(res.askAnswer)]
            if res.type in ("CONSTRUCT", "DESCRIBE"):
                triples = set(res.graph)
                if shape:
                    _out("T", [_ttok(t) for t in triples])
                if any(m in text for m in FRESH_MARKS):
                    return Fresh(triples)
                return [res.type] + _bag(triples)
            rows = [tuple(r) for r in res]
            if shape:
                gm = _gcode_map()
                const = re.search(r"GRAPH (<[^>]*>)", text)
                toks = []
                for r in rows:
                    if shape[1] == "gspo" and const:
                        toks.append(str(gm.get(const.group(1), "?" + const.group(1))) + "," + _ttok(r))
                    elif shape[1] == "gspo":
                        toks.append(str(gm.get(r[0].n3(), "?" + r[0].n3())) + "," + _ttok(r[1:]))
                    else:
                        toks.append(_ttok(r))
                _out("R", toks)
            if any(m in text for m in FRESH_MARKS):
                if "RAND()" in text:
                    return ["rows", len(rows)]
                return Fresh(rows)
            if "ORDER BY" in text:       # the order is part of the answer
                return ["SELECT", _k([str(v) for v in res.vars])] + [_k(r) for r in rows]
            return ["SELECT", _k([str(v) for v in res.vars])] + _bag(rows)
        finally:
            rsparql.SPARQL_LOAD_GRAPHS, rsparql.SPARQL_DEFAULT_GRAPH_UNION = old
    if api == "path":
        _, form, s, spec, o = rd
        p = _mk_path(spec)
        if form == "triples":
            return _bag(target.triples((_t(s), p, _t(o))))
        if form == "objects":
            return _bag(target.objects(_t(s), p))
        if form == "subjects":
            return _bag(target.subjects(p, _t(o)))
        if form == "subject_objects":
            return _bag(target.subject_objects(p))
        if form == "contains":
            return [(_t(s), p, _t(o)) in target]
        return _bag(target[_t(s) if s in SUBJ else None:p:_t(o)])
    if api == "cmp":
        _, f, a, b = rd
        ga, gb = _graph_arg(case, top, target, a), _graph_arg(case, top, target, b)
        if f == "isomorphic":
            ans = rcompare.isomorphic(ga, gb)
            _out("b", ["1" if ans else "0"])
            return [ans]
        if f == "to_isomorphic":
            r = rcompare.to_isomorphic(ga)
            return _bag(set(r)) + [r == rcompare.to_isomorphic(gb)]
        if f == "internal_hash":
            return [str(rcompare.to_isomorphic(ga).internal_hash())]
        if f == "to_canonical_graph":
            cg_ = set(rcompare.to_canonical_graph(ga))
            _out("T", [_ttok(t) for t in cg_])
            return _bag(cg_)
        if f == "graph_diff":
            parts = [set(x) for x in rcompare.graph_diff(ga, gb)]
            _out("QS", [_ttok(t) + ",i%d" % i for i, part in enumerate(parts) for t in part], as_set=True)
            return [_bag(x) for x in parts]
        if f == "similar":
            return [rcompare.similar(ga, gb)]
        if f == "g_isomorphic":
            ans = ga.isomorphic(gb)
            _out("b", ["1" if ans else "0"])
            return [ans]
        if f == "eq":
            return [ga == gb, hash(ga) == hash(gb), ga < gb if a != b else False]
        if f == "skolemize":
            return (_bag(set(ga.skolemize())) + _bag(set(ga.de_skolemize())) + _bag(set(ga.skolemize(bnode=TERM[4])))
                    + _bag(set(ga.skolemize(new_graph=None, authority="http://sk/", basepath="/id/"))))
        op = f[-1]
        r = ga + gb if op == "+" else ga - gb if op == "-" else ga * gb if op == "*" else ga ^ gb
        return _bag(set(r))
    if api == "basic":
        _, f, s, p, o, uniq = rd
        pat = (_t(s), _t(p), _t(o))
        if f == "len":
            _out("n", [str(len(target))])
            return [len(target)]
        if f == "iter":
            items = list(iter(target))
            if isinstance(target, Dataset):
                _out("Q", [_qtok(case, q) for q in items])       # Dataset.__iter__ yields quads
            else:
                _out("T", [_ttok(t) for t in items])
            return _bag(items)
        if f == "contains3":
            _out("b", ["1" if pat in target else "0"])
            return [pat in target]
        if f == "triples":
            items = list(target.triples(pat))
            _out("T", [_ttok(t) for t in items])
            return _bag(items)
        if f == "slice":
            return _bag(target[pat[0]:pat[1]:pat[2]])
        if f == "getitem":
            return _bag(target[TERM[s if s in SUBJ else 1]])
        if f == "subjects":
            return _bag(target.subjects(pat[1], pat[2], unique=uniq))
        if f == "predicates":
            return _bag(target.predicates(pat[0], pat[2], unique=uniq))
        if f == "objects":
            return _bag(target.objects(pat[0], pat[1], unique=uniq))
        if f == "subject_objects":
            return _bag(target.subject_objects(pat[1], unique=uniq))
        if f == "subject_predicates":
            return _bag(target.subject_predicates(pat[2], unique=uniq))
        if f == "predicate_objects":
            return _bag(target.predicate_objects(pat[0], unique=uniq))
        if f == "triples_choices":
            return _bag(target.triples_choices(([TERM[1], TERM[2], TERM[4]], pat[1], pat[2])))
        if f == "bool":
            return [bool(target)]
        if f == "str":
            return [str(target)[:40], repr(target)[:20]]
        if f == "all_nodes":
            return _bag(target.all_nodes())
        if f == "connected":
            return [target.connected()]
        if f == "namespaces":
            return [len(list(target.namespaces())) > 0]
        if f == "qname":
            return [target.qname(EX + "zz" if uniq else EX + "a"), target.compute_qname("http://other/ns#x")[2]]
        if f == "n3":
            return [target.n3()[:10]]
        raise ValueError(rd)
    if api == "nav":
        _, f, s, p, o, head = rd
        if f == "value":
            return [_k(target.value(_t(s), _t(p), None, any=True)), _k(target.value(None, _t(p), _t(o), any=True)),
                    _k(target.value(_t(s), None, _t(o), any=True))]
        if f == "items":
            return [_k(x) for x in target.items(TERM[head])]
        if f == "cbd":
            sub = set(target.cbd(TERM[s]))
            _out("T", [_ttok(t) for t in sub])
            return _bag(sub)
        if f == "collection":
            c = target.collection(TERM[head])
            lst = [_k(x) for x in c]
            out = [len(c), lst, c.n3()]
            if lst:
                out.append(_k(c[0]))
            c2 = Collection(target, TERM[head])
            return out + [len(c2)]
        if f == "resource":
            r = target.resource(TERM[s])
            return [_bag(x.identifier if hasattr(x, "identifier") else x for x in r.objects(_t(p))),
                    _bag((a.identifier, b.identifier if hasattr(b, "identifier") else b)
                         for a, b in r.predicate_objects()),
                    _k(getattr(r.value(_t(p)), "identifier", r.value(_t(p)))),
                    _bag(x.identifier for x in r.subjects(_t(p))), [_k(getattr(x, "identifier", x)) for x in r.items()],
                    _bag(getattr(x, "identifier", x) for x in r[_t(p)])]
        if f == "transitive_objects":
            items = list(target.transitive_objects(_t(s), _t(p)))
            _out("R", [_tid(x) for x in items])
            return _bag(items)
        if f == "transitive_subjects":
            items = list(target.transitive_subjects(_t(p), _t(o)))
            _out("R", [_tid(x) for x in items])
            return _bag(items)
        if f == "transitiveClosure":
            return _bag(target.transitiveClosure(lambda n, g: g.objects(n, _t(p)), TERM[s]))
        if f == "seq":
            sq = rdflib.graph.Seq(target, TERM[s])
            return [len(sq)] + [_k(x) for x in sq]
        if f == "isomorphic_copy":
            other = Graph()
            for t3 in target.triples((None, None, None)):
                other.add(t3)
            return [target.isomorphic(other), rcompare.isomorphic(
                target if not isinstance(target, ConjunctiveGraph) else other, other)]
        if f == "absolutize":
            return [str(target.absolutize("x#y"))]
        raise ValueError(rd)
    if api == "ctx":
        _, f, s, p, o, g, how = rd
        pat = (_t(s), _t(p), _t(o))
        if f == "graphs":
            ids = [c.identifier for c in (top.graphs() if isinstance(top, Dataset) else top.contexts())]
            _out("N", [_gtok_of(case, i) for i in ids])
            return _bag(ids)
        if f == "contexts":
            ids = [c.identifier for c in top.contexts()]
            _out("N", [_gtok_of(case, i) for i in ids])
            return _bag(ids)
        if f == "graphs_t":
            full = (TERM[s or 1], TERM[p or 10], TERM[o or 20])
            return _bag(c.identifier for c in (top.graphs(full) if isinstance(top, Dataset) else top.contexts(full)))
        if f == "quads":
            c = _ctx_arg(case, top, g, how)
            first = list(top.quads(pat + (c,)))
            _out("Q", [_qtok(case, q) for q in first])
            return _bag(first) + _bag(top.quads(pat)) + _bag(top.quads())
        if f == "contains4":
            ans = (pat + (_ctx_arg(case, top, g, how),)) in top
            _out("b", ["1" if ans else "0"])
            return [ans]
        if f == "triples_ctx":
            c = _ctx_arg(case, top, g, "view" if how == "id" else how)
            items = list(top.triples(pat, context=c))
            _out("T", [_ttok(t) for t in items])
            return _bag(items)
        if f == "triples4":
            items = list(top.triples(pat + (_ctx_arg(case, top, g, how),)))
            _out("T", [_ttok(t) for t in items])
            return _bag(items)
        if f == "get_context":
            c = top.get_context(_gid(cfg, g))
            return [len(c)] + _bag(c.triples(pat)) + [pat in c]
        if f == "get_graph":
            c = top.get_graph(_gid(cfg, g))
            return [len(c)] + _bag(c)
        if f == "default_ser":          # the dataset's OWN default graph object, serialised (shows its base)
            d = top.default_graph if isinstance(top, Dataset) else top.default_context
            return Text(how, d.serialize(format=how), False)
        if f == "default":
            d = top.default_graph if isinstance(top, Dataset) else top.default_context
            return [_k(d.identifier), len(d)] + _bag(d.triples(pat))
        if f == "len_ctx":
            return [len(top), len(top.get_context(_gid(cfg, g))), top.store.__len__(context=None)]
        if f == "iter_ds":
            return _bag(iter(top))
        if f == "triples_choices_ctx":
            c = _ctx_arg(case, top, g, "view" if how == "id" else how)
            return _bag(top.triples_choices((pat[0], [TERM[10], TERM[11]], pat[2]), context=c))
        if f == "aggregate":
            views = [top.get_context(_gid(cfg, x)) for x in (0, g, 3)]
            agg = ReadOnlyGraphAggregate(views)
            return [len(agg), pat in agg] + _bag(agg.triples(pat)) + _bag(agg.quads(pat))
        if f in ("agg_len", "agg_contains", "agg_triples", "agg_quads"):
            # ReadOnlyGraphAggregate over three views of this store (the default graph, g, _:gb; duplicates happen)
            agg = ReadOnlyGraphAggregate([top.get_context(_gid(cfg, x)) for x in (0, g, 3)])
            if f == "agg_len":
                _out("n", [str(len(agg))])
                return [len(agg)]
            if f == "agg_contains":
                ans = pat in agg
                _out("b", ["1" if ans else "0"])
                return [ans]
            if f == "agg_triples":
                items = list(agg.triples(pat))
                _out("T", [_ttok(t) for t in items])
                return _bag(items)
            items = list(agg.quads(pat))
            _out("Q", [_qtok(case, q) for q in items])
            return _bag(items)
        if f == "store_contexts":
            full = (TERM[s or 1], TERM[p or 10], TERM[o or 20])
            return _bag(c.identifier for c in top.store.contexts(full))
        raise ValueError(rd)
    raise ValueError(rd)


def _exc_name(e):
    n = type(e).__name__
    return n if n in ("IndexError", "KeyError", "ValueError", "TypeError", "AssertionError") else \
        "ParseError" if "Pars" in n or "Syntax" in n else "Other"


def _call(case, top, target, rd):
    _OUT[0] = None
    try:
        return do_read(case, top, target, rd)
    except core.CaseTimeout:
        raise
    except Exception as e:  # a read that raises is still a read: the state must not change
        _OUT[0] = "E"
        return ["EXC", _exc_name(e)]


def _parse_back(ans):
    if ans.quadfmt:
        d = Dataset()
        d.parse(data=ans.text, format=ans.fmt)
        return {(s, p, o, c) for s, p, o, c in d.quads((None, None, None, None))}
    g = Graph()
    g.parse(data=ans.text, format=ans.fmt)
    return {t for t in g}


_INCONCLUSIVE = []     # reasons why a comparison of two answers could not be decided (statistics, never a violation)


def _parse_back_twice(x):
    """the quads / triples of a document, or None when it cannot be read — DETERMINISTICALLY: a failure is believed only
    when a second attempt fails in the same way (a transient failure of the reader — memory pressure, an interrupted
    system call — must not make a good document look unreadable)"""
    errs = []
    for _attempt in range(2):
        try:
            return _parse_back(x)
        except core.CaseTimeout:
            raise
        except (MemoryError, OSError) as e:
            errs.append("transient:" + type(e).__name__)
        except Exception as e:
            errs.append(type(e).__name__ + ":" + str(e)[:80])
    if errs[0] != errs[1] or errs[0].startswith("transient:"):
        _INCONCLUSIVE.append("reparse_unstable")
        return _UNSTABLE
    return None


_UNSTABLE = object()


def _iso(a, b):
    """isoutil.iso, or None when its search budget is exhausted (inconclusive, not "different")"""
    try:
        return isoutil.iso(a, b)
    except core.CaseTimeout:
        raise
    except (RuntimeError, RecursionError, MemoryError):
        _INCONCLUSIVE.append("iso_budget")
        return None


def same_answer(a, b):
    """True / False / None.  None = the comparison is INCONCLUSIVE (texts differ and neither can be re-parsed, the
    re-parse is unstable, the isomorphism search gave up): counted, never reported as a difference.  Two documents
    are compared as GRAPHS (prefix tables legitimately differ once an earlier read has bound a prefix; blank-node
    labels are fresh): equal text, else re-parsed and compared up to blank-node renaming."""
    if isinstance(a, Text) and isinstance(b, Text):
        if a.text == b.text:
            return True
        parsed = [_parse_back_twice(a), _parse_back_twice(b)]
        if parsed[0] is _UNSTABLE or parsed[1] is _UNSTABLE:
            return None
        if parsed[0] is None and parsed[1] is None:
            return None
        if parsed[0] is None or parsed[1] is None:
            return False          # one answer is (reproducibly) a readable document, the other (reproducibly) is not
        return _iso(parsed[0], parsed[1])
    if isinstance(a, Fresh) and isinstance(b, Fresh):
        return _iso(a.tuples, b.tuples)
    if type(a) is not type(b):
        return False
    return a == b


def _qform(text):
    m = re.search(r"\b(SELECT|ASK|CONSTRUCT|DESCRIBE)\b", text)
    return m.group(1) if m else "SELECT"


def api_name(rd):
    if rd[0] == "oser":
        return "oser/" + rd[1]
    if rd[0] in ("ser", "serobj"):
        return rd[0] + "/" + rd[1]
    if rd[0] == "q":
        return "query/" + _qform(rd[1])
    if rd[0] == "pathvar":
        return "pathvar/" + rd[2]
    return rd[0] + "/" + str(rd[1])


_PREPARED = {}
# reads the Lean model allows to add prefix bindings (ReadOp.mayBind; theorem namespaces_may_grow)
MODEL_MAY_BIND = {"ser/turtle", "ser/longturtle", "ser/n3", "ser/trig", "ser/xml", "ser/pretty-xml", "basic/qname"}


_DOC_URLS = {}
_OTHER = {}

# ---- reference answers from a PRISTINE process -----------------------------------------------------------------
# "the same read on an unchanged graph gives the same answer … in any order and repetition": the answer of a read
# must not depend on which reads (of this or of any other graph) the process has executed before.  State kept
# outside the graph (module-level caches, class attributes, prepared-query objects) stays consistent once it is
# tainted, so repeating a read does not expose it; comparing with the answer of the read evaluated ALONE in a
# process that has executed no read at all does.  Each worker forks a zygote before its first case; per request
# the zygote forks one child per read, which builds the case's graph, runs that one read and returns the answer.
_ZYG = None          # None = not started, False = unavailable, else (pid, wfile, rfile)
REF_TIMEOUT_S = 15
# answers that legitimately depend on prefix bindings made by earlier reads, or that show the freshly minted
# identifier of the Dataset object the harness builds
REF_SKIP = {"basic/qname", "basic/namespaces", "basic/str", "basic/n3"}


def _enc(a):
    if isinstance(a, Text):
        return ["T", a.fmt, a.text, a.quadfmt]
    if isinstance(a, Fresh):
        return ["F"]
    return ["L", a]


def _dec(e):
    if e[0] == "T":
        return Text(e[1], e[2], e[3])
    if e[0] == "L":
        return e[1]
    return None


def _reference_one(case, k, doc_urls):
    _DOC_URLS.clear()
    _DOC_URLS.update(doc_urls)
    _PREPARED.clear()
    top, target = build(case)
    build_aux(case, top)
    return _enc(_call(case, top, target, case["reads"][k]))


def _child_limits(scale=1):
    """a forked reference child may burn REF_TIMEOUT_S seconds of CPU (independent of the machine's load), with core's
    wall-clock backstop factor; both kill the child, whose answer then counts as unavailable (never as different)"""
    for sig in (signal.SIGALRM, signal.SIGPROF):
        signal.signal(sig, signal.SIG_DFL)
    signal.setitimer(signal.ITIMER_PROF, REF_TIMEOUT_S * scale)
    signal.setitimer(signal.ITIMER_REAL, REF_TIMEOUT_S * scale * float(getattr(core, "WALL_FACTOR", 6)))


def _fork_collect(fn, scale=1):
    """run fn() in a forked child (alarm-guarded) and return its JSON result, or None"""
    r, w = os.pipe()
    pid = os.fork()
    if pid == 0:
        try:
            os.close(r)
            _child_limits(scale)
            data = _json.dumps(fn()).encode()
            while data:                       # a pipe write may be partial
                data = data[os.write(w, data):]
        except BaseException:  # noqa: BLE001
            pass
        finally:
            os._exit(0)
    os.close(w)
    chunks = []
    while True:
        c = os.read(r, 1 << 16)
        if not c:
            break
        chunks.append(c)
    os.close(r)
    os.waitpid(pid, 0)
    try:
        return _json.loads(b"".join(chunks)) if chunks else None
    except ValueError:
        return None


def _ref_case(case, doc_urls):
    """(in a pristine process) the alone-answer of every selected read, each from its own forked child — taken
    BEFORE this process executes any read itself — then the whole case in sequence, compared with them"""
    _DOC_URLS.clear()
    _DOC_URLS.update(doc_urls)
    seen, ks = set(), []
    for k, rd in enumerate(case["reads"]):
        key = _json.dumps(rd)
        if key not in seen and api_name(rd) not in REF_SKIP:
            seen.add(key)
            ks.append(k)
    if not case.get("aba"):
        ks = ks[:8]              # long cases: a sample keeps the quick tier quick
    refs = {}
    for k in ks:
        e = _fork_collect(lambda k=k: _reference_one(case, k, doc_urls))
        if e is not None:
            refs[k] = e
    return _run_impl(case, refs)


def _zygote_loop(rf, wfd):
    for line in rf:
        req = _json.loads(line)
        # the child that runs the whole case also waits for one grandchild per read: a larger allowance
        out = _fork_collect(lambda: _ref_case(req["case"], req["doc_urls"]), scale=8)
        os.write(wfd, (_json.dumps(out) + "\n").encode())


def _zygote_start():
    """fork a copy of this process while it has not executed any read yet"""
    global _ZYG
    if _ZYG is not None or os.environ.get("C13_NO_REFERENCE"):
        _ZYG = _ZYG or False
        return
    try:
        c2z_r, c2z_w = os.pipe()
        z2c_r, z2c_w = os.pipe()
        pid = os.fork()
    except OSError:
        _ZYG = False
        return
    if pid == 0:
        try:
            os.close(c2z_w)
            os.close(z2c_r)
            signal.setitimer(signal.ITIMER_REAL, 0)
            for sig in (signal.SIGALRM, signal.SIGTERM, signal.SIGINT):
                signal.signal(sig, signal.SIG_DFL)
            _zygote_loop(os.fdopen(c2z_r, "r"), z2c_w)
        except BaseException:  # noqa: BLE001
            pass
        finally:
            os._exit(0)
    os.close(c2z_r)
    os.close(z2c_w)
    _ZYG = (pid, os.fdopen(c2z_w, "w"), os.fdopen(z2c_r, "r"))


def _zygote_drop():
    global _ZYG
    if _ZYG:
        try:
            os.kill(_ZYG[0], signal.SIGKILL)
            os.waitpid(_ZYG[0], 0)
        except OSError:
            pass
    _ZYG = False


def run_in_pristine(case):
    """the whole case (alone-references + sequence) in a pristine process; None if unavailable"""
    if not _ZYG:
        return None
    try:
        _ZYG[1].write(_json.dumps({"case": case, "doc_urls": dict(_DOC_URLS)}) + "\n")
        _ZYG[1].flush()
        line = _ZYG[2].readline()
        if not line:
            raise OSError("zygote gone")
        return _json.loads(line)
    except core.CaseTimeout:
        _zygote_drop()
        raise
    except Exception:
        _zygote_drop()
        return None


def _confirm_history_dependent(case, res):
    """A `history-dependent` difference depends on the case alone (sequence and references both start from a pristine
    process image), so it must show again when the whole comparison is repeated in ANOTHER pristine process.  One that
    does not (a reference child squeezed by the machine, a transient failure while reading an answer back) is an
    inconclusive comparison: counted (`reference_unconfirmed`), not reported."""
    hd = [v for v in res["viol"] if v.startswith("history-dependent:")]
    if not hd:
        return res
    key = lambda v: v.split(" answered ")[0]  # noqa: E731
    again = run_in_pristine(case)
    confirmed = set() if again is None else {key(v) for v in again["viol"] if v.startswith("history-dependent:")}
    keep = []
    for v in res["viol"]:
        if v.startswith("history-dependent:") and key(v) not in confirmed:
            res["stats"]["reference_unconfirmed"] = res["stats"].get("reference_unconfirmed", 0) + 1
            continue
        keep.append(v)
    res["viol"] = keep
    return res


def run_impl(case):
    """writes the loadable documents into a temp dir (removed afterwards) when a read names one"""
    if _ZYG is None:
        _zygote_start()          # before this process runs its first read
    tmp = None
    _DOC_URLS.clear()
    if any(r[0] == "q" and "<doc:" in r[1] for r in case["reads"]):
        tmp = tempfile.mkdtemp(prefix="c13docs")
        for ph, (fn, body) in DOCS.items():
            path = os.path.join(tmp, fn)
            if body is not None:
                with open(path, "w", encoding="utf-8") as f:
                    f.write(body)
            _DOC_URLS[ph] = "<file://" + path + ">"
    try:
        if case.get("ref"):
            res = run_in_pristine(case)
            if res is not None:
                return _confirm_history_dependent(case, res)
            res = _run_impl(case)
            res["stats"]["reference_unavailable"] = 1
            return res
        return _run_impl(case)
    finally:
        _DOC_URLS.clear()
        if tmp is not None:
            shutil.rmtree(tmp, ignore_errors=True)


def _run_impl(case, refs=None):
    _PREPARED.clear()
    del _INCONCLUSIVE[:]
    top, target = build(case)
    build_aux(case, top)
    obs, viol, stats = [], [], {}
    first_answers = {}
    before = snapshot(case, top)
    completed = 0
    first_ans = None
    reads = case["reads"]

    def bump(k, n=1):
        stats[k] = stats.get(k, 0) + n

    ns_before = set(top.namespaces())
    ns_ids = [ns_obs(top)]
    attrs = [attr_snapshot(top, target)]

    def check_state(k, rd, phase):
        nonlocal before, ns_before
        ns_now = set(top.namespaces())
        if ns_now != ns_before:      # namespace bindings are outside the statement: observed, never a violation
            kind = "ns_grew" if ns_now > ns_before else "ns_changed"
            bump(f"{kind}:{api_name(rd)}")
            if api_name(rd) not in MODEL_MAY_BIND:
                bump(f"{kind}_unmodelled:{api_name(rd)}")
            ns_before = ns_now
            # per-axis count: which vocabulary namespaces this API bound (compared with the model's `ns` in `obs`)
            for n in sorted(ns_obs(top) - ns_ids[0]):
                bump(f"ns_bound:{api_name(rd)}:{NS.get(int(n), n) if n.isdigit() else n}")
        ns_ids[0] = ns_obs(top)
        while _SIDE_VIOL:
            viol.append(_SIDE_VIOL.pop())
        a_now = attr_snapshot(top, target)
        if a_now != attrs[0]:
            ch = {k: (attrs[0][k], a_now[k]) for k in a_now if a_now[k] != attrs[0][k]}
            viol.append(f"attr-mutated:{api_name(rd)}: read #{k} {rd!r} ({phase}) changed attributes of the {case['cfg']} "
                        f"being read (nothing was written): " + "; ".join(f"{k_}: {v[0]!r} -> {v[1]!r}" for k_, v in sorted(ch.items())))
            attrs[0] = a_now
        now = snapshot(case, top)
        if now != before:
            bq, aq = set(before[0]), set(now[0])
            viol.append(f"mutated:{api_name(rd)}: read #{k} {rd!r} ({phase}) changed the {case['cfg']}: "
                        f"quads +{sorted(aq - bq)} -{sorted(bq - aq)}; graph names {before[1]} -> {now[1]}")
            before = now   # report each mutation once
        return now

    for k, rd in enumerate(reads):
        name = api_name(rd)
        a1 = _call(case, top, target, rd)
        if out_comparable(case, rd):        # the model computes this answer: compare the skeleton output
            obs.append("out " + (_OUT[0] if _OUT[0] is not None else "none"))
            bump("outcmp:" + name)
            while _SKIPPED:
                bump("outcmp_skipped_unreadable:" + _SKIPPED.pop())
        else:
            obs.append("out -")
        now = check_state(k, rd, "first call")
        if isinstance(a1, list) and a1[:1] == ["EXC"]:
            bump("exc_" + a1[1])
            bump("excapi_" + name)
        else:
            completed += 1
        if k == 0:
            first_ans = a1
        first_answers.setdefault(_json.dumps(rd), (k, a1))
        for rep_no in range(2, (case.get("reps", 2) if case["twice"] else 1) + 1):
            a2 = _call(case, top, target, rd)
            now = check_state(k, rd, f"call {rep_no}")
            same = same_answer(a1, a2)
            if same is None:
                bump("determinism_undecided")
            elif not same:
                viol.append(f"nondeterministic:{name}: read #{k} {rd!r} answered differently on call {rep_no} in a row: "
                            f"{_short(a1)} vs {_short(a2)}")
                break
        obs.append(_obs_line(now, ns_ids[0], base_obs(top)))
        bump("api_" + rd[0])
        if rd[0] == "ser":
            bump("fmt_" + rd[1])
        if rd[0] == "q" and " FROM " in rd[1]:
            bump("q_from")
            if "<doc:ttl>" in rd[1] or "<doc:nt>" in rd[1]:
                bump("q_from_loadable_doc" + ("_load_off" if rd[2] & 1 else ""))
    if not case["twice"] and reads:
        again = _call(case, top, target, reads[0])
        now = check_state(0, reads[0], "repeated after the sequence")
        same = same_answer(first_ans, again)
        if same is None:
            bump("determinism_undecided")
        elif not same:
            viol.append(f"nondeterministic:{api_name(reads[0])}: read {reads[0]!r} answered differently after the "
                        f"read-only sequence {reads[1:]!r}: {_short(first_ans)} vs {_short(again)}")
        obs.append(_obs_line(now, ns_ids[0], base_obs(top)))
    for k_s, enc in sorted((refs or {}).items(), key=lambda kv: int(kv[0])):
        k = int(k_s)
        a = first_answers[_json.dumps(reads[k])][1]
        ref = _dec(enc)
        if ref is None or isinstance(a, Fresh):
            bump("reference_skipped")
            continue
        try:
            mine = _dec(_json.loads(_json.dumps(_enc(a))))
        except (TypeError, ValueError):
            bump("reference_skipped")
            continue
        same = same_answer(mine, ref)
        bump("reference_compared")
        if same is None:
            bump("determinism_undecided")
        elif not same:
            viol.append(f"history-dependent:{api_name(reads[k])}: read #{k} {reads[k]!r} answered {_short(mine)} "
                        f"after the reads {reads[:k]!r} of this case, but {_short(ref)} when it is the first read a "
                        f"process executes on the same unchanged graph")
    for reason in _INCONCLUSIVE:
        bump("comparison_inconclusive:" + reason)
    del _INCONCLUSIVE[:]
    if case.get("aba"):
        bump("aba_" + case["aba"])
    bump("cfg_" + case["cfg"])
    bump("reads", len(reads))
    bump("quads", len(case["quads"]))
    bump("twice" if case["twice"] else "sequence")
    if any(q[3] in (3, 4) for q in case["quads"]):
        bump("has_bnode_named_graph")
    if case.get("empty"):
        bump("has_registered_empty_graph")
    return {"obs": obs, "viol": viol, "nontrivial": bool(case["quads"]) and completed >= min(10, len(reads)),
            "key": _json.dumps([case["cfg"], case["quads"], case.get("empty"), case["reads"]]), "stats": stats}


def _short(a):
    if isinstance(a, Text):
        return repr(a.text[:120])
    if isinstance(a, Fresh):
        return repr(sorted(map(_k, a.tuples))[:6])
    return repr(a)[:160]


# ------------------------------------------------------------------ model side

def _w(x):
    return "*" if x is None else str(x)


def _from_clauses(text):
    """the dataset clause of a generated query, in order: ["f:<tok>" | "n:<tok>" …]"""
    rev = {v.n3(): GTOK[k] for k, v in GN.items()}
    rev.update(DOC_TOK)
    return [("n:" if named else "f:") + rev[iri] for named, iri in re.findall(r"FROM (NAMED )?(<[^>]*>)", text)]


def _tok_rev():
    rev = {v.n3(): GTOK[k] for k, v in GN.items()}
    rev.update(DOC_TOK)
    return rev


def _model_ser(rd, multi):
    fmt, opt = rd[1], SER_OPTS[rd[2]]
    # `base=`: IRIs relative to it are written as <rel>, no getQName for them (Turtle family only)
    base = NS_REV.get(opt["base"], "-") if "base" in opt else "-"
    if fmt in ("nt", "nt11"):
        return "read flat"
    if fmt in ("turtle", "n3"):
        return f"read turtle {base}"
    if fmt == "longturtle":
        return f"read longturtle {1 if opt.get('canon') else 0} {base}"
    if fmt == "xml":
        return "read xml"
    if fmt == "pretty-xml":
        return f"read prettyxml {opt.get('max_depth', 3)}"
    if not multi:
        return f"read turtle {base}" if fmt == "trig" else "read pure"   # quad formats refuse / degrade on a plain Graph
    if fmt == "json-ld":
        return "read jsonld"
    if fmt == "trig":
        return f"read trig {base}"
    if fmt == "patch":
        return "read patchtarget" if opt.get("_target") else "read patch"
    if fmt == "hext":
        return "read hext"
    return "read ctxs"               # nquads, trix


def _pat(*ids):
    return " ".join(_w(x) for x in ids)


def out_comparable(case, rd):
    """does the Lean model compute the ANSWER of this read exactly (then the skeleton output is compared)?"""
    cfg = case["cfg"]
    multi = cfg not in ("g", "view")
    api = rd[0]
    if api == "basic":
        return rd[1] in ("len", "iter", "contains3", "triples")
    if api == "nav":
        return rd[1] in ("cbd", "transitive_objects", "transitive_subjects")
    if api == "cmp" and cfg != "view":
        # compare functions on GROUND graphs (views handed over by identifier >= 0): isomorphic = same set of triples
        if rd[1] in ("isomorphic", "g_isomorphic", "graph_diff"):
            return rd[2] >= 0 and rd[3] >= 0 and _is_ground(case, rd[2]) and _is_ground(case, rd[3])
        if rd[1] == "to_canonical_graph":
            return rd[2] >= 0 and _is_ground(case, rd[2])
        return False
    if api == "ser":
        return rd[1] in ("nt", "nt11") or rd[1] in STATUS_FORMATS or (multi and rd[1] in ("nquads", "hext", "trig"))
    if api == "ctx" and multi:
        return rd[1] in ("graphs", "contexts", "contains4", "quads", "triples4", "triples_ctx",
                         "agg_len", "agg_contains", "agg_triples", "agg_quads")
    if api == "q" and multi:
        return q_shape(rd) is not None
    return False


def model_read(case, rd):
    """the model-level read operation (state-touching skeleton) an API call maps to; the first line is the one
    whose output is compared when `out_comparable`"""
    cfg = case["cfg"]
    multi = cfg not in ("g", "view")
    api = rd[0]
    if api == "ser":
        return _model_ser(rd, multi)
    if api == "serobj":           # a re-used serializer object: the same store calls as a fresh one
        return _model_ser(["ser", rd[1], "plain"], multi)
    if api == "ctx" and rd[1] == "default_ser" and multi:
        # serialising the dataset's OWN default graph object = a read through a view of it; that graph carries the
        # default_graph_base, so the Turtle family writes predicates of that namespace as <rel> (no binding)
        base = 1 if case.get("dgbase") else "-"
        return {"turtle": f"readv d turtle {base}", "n3": f"readv d turtle {base}", "xml": "readv d xml",
                "pretty-xml": "readv d prettyxml 3", "longturtle": f"readv d longturtle 0 {base}"}[rd[6]]
    if api == "oser":
        return "read pure"            # another graph (own store) is serialised: this dataset is not involved
    if api == "iso":
        return "read copy"            # compare functions: copies (operands may be views of this dataset)
    if api == "pathvar":
        return "read pure"
    if api == "cmp" and rd[1] == "skolemize":
        return "read skolemize"
    if api == "basic" and rd[1] == "qname":
        # target.qname(<http://e/zz> | <http://e/a>), then compute_qname(<http://other/ns#x>): both generate=True
        return [f"read qname {36 if rd[5] else 1}", "read qname 37"]
    if api == "basic" and rd[1] in ("len", "iter"):
        return "read " + rd[1]
    if api == "basic" and rd[1] in ("contains3", "triples"):
        return f"read {rd[1]} {_pat(rd[2], rd[3], rd[4])}"
    if api == "nav" and rd[1] == "cbd":
        return f"read cbd {rd[2]}"
    if api == "nav" and rd[1] == "transitive_objects":
        return f"read trans {rd[2]} {rd[3]} 1"
    if api == "nav" and rd[1] == "transitive_subjects":
        return f"read trans {rd[4]} {rd[3]} 0"
    if api == "cmp" and out_comparable(case, rd):
        ga, gb = ("d", "d") if cfg == "g" else (GTOK[rd[2]], GTOK[rd[3]] if rd[3] >= 0 else "d")
        return {"isomorphic": f"read iso {ga} {gb}", "g_isomorphic": f"read iso {ga} {gb}",
                "graph_diff": f"read diff {ga} {gb}", "to_canonical_graph": f"read canon {ga}"}[rd[1]]
    if not multi:
        return "read pure"            # a plain Graph / a Graph view: iteration only
    if api == "q":
        clauses = _from_clauses(rd[1])
        gvar = 1 if "GRAPH ?g" in rd[1] else 0
        rev = _tok_rev()
        consts = [rev[m] for m in re.findall(r"GRAPH (<[^>]*>)", rd[1])]
        kind = {"SELECT": "s", "ASK": "a", "CONSTRUCT": "c", "DESCRIBE": "d"}[_qform(rd[1])]
        shape = q_shape(rd)
        return (f"read query {gvar} {','.join(clauses) or '-'} {0 if rd[2] & 1 else 1} {kind} "
                f"{','.join(consts) or '-'} {0 if rd[2] & 2 else 1} {shape[1] if shape else 'x'}")
    if api == "ctx":
        f, g, how = rd[1], GTOK[rd[5]], rd[6]
        pat = _pat(rd[2], rd[3], rd[4])
        if f in ("graphs", "contexts", "graphs_t", "get_graph"):
            return "read graphs"
        if f == "contains4":
            return f"read contains4 {g} {0 if how == 'id' else 1} {pat}"
        if f == "quads":
            return f"read quads4 {g} {0 if how == 'id' else 1} {pat}"
        if f == "triples4":
            return f"read triples4 {g} {0 if how == 'id' else 1} {pat}"
        if f in ("triples_ctx", "triples_choices_ctx"):
            return f"read triplesctx {g} {pat}"
        if f == "agg_len":
            return f"read agglen d,{g},b3"
        if f in ("agg_contains", "agg_triples", "agg_quads"):
            return f"read agg{f[4:]} d,{g},b3 {pat}"
        return "read pure"
    if api == "cmp":
        return "read copy"           # compare functions / set operators work on copies
    return "read pure"


def _model_read_lines(case, rd):
    m = model_read(case, rd)
    return [m] if isinstance(m, str) else list(m)


def _model_plan(case):
    """[(driver line, tag)]: tag "obs" = post-state line, "out" = a read whose rendered output is compared,
    "skip" = a read whose answer the model does not claim (the implementation side observes "out -"), None = setup"""
    cfg = case["cfg"]
    plan = [("reset " + cfg, None)]
    for tid, n in TERM_NS.items():
        plan.append((f"nsof {tid} {n}", None))
    plan.append(("bind 2", None))                            # rdf: is one of rdflib's default bindings
    if not case.get("nobind"):
        plan.append(("bind 1", None))
    for _pfx, ns in case.get("binds", []):
        plan.append((f"bind {NS_REV[ns]}", None))
    if case.get("dgbase") and cfg in ("ds", "dsu", "view"):
        plan.append(("dgbase 1", None))
    for s, p, o, g in case["quads"]:
        plan.append((f"quad {s} {p} {o} {GTOK[g]}", None))
    for g in case.get("empty", []):
        if cfg != "g":
            plan.append((f"reg {GTOK[g]}", None))
    if cfg == "view":
        plan.append((f"view {GTOK[case.get('view', 0)]}", None))
    for rd in case["reads"]:
        ls = _model_read_lines(case, rd)
        reps = case.get("reps", 2) if case["twice"] else 1
        first = True
        for _ in range(reps):
            for j, ln in enumerate(ls):
                plan.append((ln, ("out" if out_comparable(case, rd) else "skip") if first and j == 0 else None, rd))
                first = False
        plan.append(("obs", "obs"))
    if not case["twice"] and case["reads"]:
        for ln in _model_read_lines(case, case["reads"][0]):
            plan.append((ln, None))
        plan.append(("obs", "obs"))
    return plan


def model_lines(case):
    return [e[0] for e in _model_plan(case)]


def _canon_model_line(line):
    parts = (line.split("|") + ["", "", "-"])[:4]
    return " | ".join(" ".join(sorted(p.split())) for p in parts)


def _canon_model_out(line, rd=None):
    """the driver's rendering of `Out` -> the canonical form `_out` produces on the implementation side"""
    kind, _, rest = line.partition(" ")
    toks = rest.split()
    if rd and rd[0] == "ser" and rd[1] in STATUS_FORMATS:                # the text is a parameter: document produced / raised
        return "E" if kind == "E" else "S ok"
    if kind == "B" and rd and rd[0] == "ser" and rd[1] == "trig":     # blocks -> triples per graph (bnode names pooled)
        counts = {}
        for b in toks:
            g, _, ts = b.partition(":")
            n = len([t for t in ts.split(";") if t])
            if n:
                g = "b" if g.startswith("b") else g
                counts[g] = counts.get(g, 0) + n
        return ("GC " + " ".join(sorted(f"{k}:{v}" for k, v in counts.items()))).strip()
    if kind == "B" and rd and rd[0] == "ser" and rd[1] == "hext":     # blocks -> the BAG of quads
        qs = [t + "," + b.partition(":")[0] for b in toks for t in b.partition(":")[2].split(";") if t]
        return ("Q " + " ".join(sorted(qs))).strip()
    if kind == "R" and rd and rd[0] == "nav":                          # one row = the nodes of the walk, as a bag
        return ("R " + " ".join(sorted(x for t in toks for x in t.split(",")))).strip()
    if kind == "B":            # blocks g:t;t … -> the set of quads
        qs = set()
        for b in toks:
            g, _, ts = b.partition(":")
            for t in ts.split(";"):
                if t:
                    qs.add(t + "," + g)
        return ("QS " + " ".join(sorted(qs))).strip()
    if kind == "E":
        return "E"
    return (kind + " " + " ".join(sorted(toks))).strip()


def select_model_obs(case, out):
    res = []
    for e, o in zip(_model_plan(case), out):
        tag = e[1]
        if tag == "obs":
            res.append(_canon_model_line(o))
        elif tag == "out":
            res.append("out " + _canon_model_out(o, e[2] if len(e) > 2 else None))
        elif tag == "skip":
            res.append("out -")
    return res


# ------------------------------------------------------------------ shrinking / findings

def shrink(case):
    reads, quads, empty = case["reads"], case["quads"], case.get("empty", [])
    if len(reads) > 1:
        for i in range(len(reads)):
            yield {**case, "reads": [reads[i]]}
    for i in range(len(reads)):
        yield {**case, "reads": reads[:i] + reads[i + 1:]}
    for i in range(len(quads)):
        yield {**case, "quads": quads[:i] + quads[i + 1:]}
    for i in range(len(empty)):
        yield {**case, "empty": empty[:i] + empty[i + 1:]}
    if case["twice"]:
        yield {**case, "twice": False}
    if case.get("reps", 2) > 2:
        yield {**case, "reps": 2}


def _m_jsonld(case, result):
    """JSON-LD serialisation copied a blank-node-named graph's triples into the dataset's default graph"""
    if not any(r[0] == "ser" and r[1] == "json-ld" for r in case["reads"]):
        return False
    if not any(q[3] in (3, 4) for q in case["quads"]):
        return False
    return all(v.startswith("mutated:ser/json-ld:") and ",d'" in v for v in result["viol"])


MATCHERS = {"jsonld_bnode_graph_into_default": _m_jsonld}
