"""Shared machinery of every property check (DESIGN §1, §2).

A property module (harness/cNN.py) provides

    ID            "C18"
    LEAN_TARGETS  ["RV.C18.Props", "RV.C18.Audit"]  (lake targets that must build)
    AUDIT         "RV/C18/Audit.lean"               (file with `#print axioms …`)
    DRIVER        "drv_c18" | None                  (lean_exe of the executable model)
    CASES         {"quick": n, "thorough": m}
    gen_case(rng, tier, i) -> case (JSON-able dict)
    run_impl(case) -> {"obs": [str], "viol": [str], "nontrivial": bool, "key": str, "stats": {..}}
          obs  = canonical observation lines of the real rdflib code (compared with the model)
          viol = violations of the property itself, decided on the implementation's
                 behaviour by the property's own oracle (independent of the Lean model)
    model_lines(case) -> [str]    driver input; driver output is aligned with obs
    shrink(case) -> iterable of strictly smaller cases
    MATCHERS      {name: fn(case, result) -> bool}   for known_findings.jsonl
    TABLES        optional fn() -> str   regenerated Lean tables (source → Lean), written to
                  lean/RV/<ID>/Tables.lean before the build

Verdict logic: see `run_property`.
Exit codes: 0 held / only known findings, 1 VIOLATION, 2 infrastructure problem.
"""
from __future__ import annotations

import hashlib
import json
import multiprocessing as mp
import os
import random
import re
import signal
import subprocess
import sys
import time
import traceback

VERIF = os.path.dirname(os.path.dirname(os.path.abspath(__file__)))
REPO = os.environ.get("VERIF_REPO", "/repo")
LEAN = os.path.join(VERIF, "lean")
os.environ.setdefault("RDFLIB_VERIF", "1")  # hooks (if any) are on for checks
if REPO not in sys.path:
    sys.path.insert(0, REPO)

ALLOWED_AXIOMS = {"propext", "Classical.choice", "Quot.sound"}
FORBIDDEN = re.compile(
    r"\b(sorry|admit|native_decide|bv_decide|implemented_by|unsafe)\b|^\s*axiom\s|maxHeartbeats\s+0\b"
)
CASE_TIMEOUT_S = float(os.environ.get("VERIF_CASE_TIMEOUT", "20"))


class CaseTimeout(Exception):
    pass


# ---------------------------------------------------------------- which anchored code the run executed
#
# sys.monitoring LINE events with DISABLE after the first hit: every line of rdflib fires at most once per
# process, so the cost is negligible.  Started in the parent before the pool is forked (children inherit the
# tool, the callback and the already-disabled locations); each worker hands its new lines back with the case
# result.  The evidence then says, per anchored file of the property, how many functions and lines of the
# real code the correspondence run actually entered, and names the functions it never entered.

_COV_NEW: list = []
_COV_ON = False
_COV_PREFIX = os.path.join(os.path.realpath(REPO), "rdflib") + os.sep


def cov_start():
    global _COV_ON
    mon = getattr(sys, "monitoring", None)
    if _COV_ON or mon is None or os.environ.get("VERIF_NO_COVERAGE"):
        return
    try:
        mon.use_tool_id(mon.COVERAGE_ID, "verif")
    except ValueError:
        return

    def on_line(code, line):
        fn = code.co_filename
        if fn.startswith(_COV_PREFIX):
            _COV_NEW.append((fn[len(_COV_PREFIX):], line))
        elif fn.startswith("/") and os.sep + "rdflib" + os.sep in fn:
            rp = os.path.realpath(fn)
            if rp.startswith(_COV_PREFIX):
                _COV_NEW.append((rp[len(_COV_PREFIX):], line))
        return mon.DISABLE

    mon.register_callback(mon.COVERAGE_ID, mon.events.LINE, on_line)
    mon.set_events(mon.COVERAGE_ID, mon.events.LINE)
    _COV_ON = True


def cov_drain():
    out = list(_COV_NEW)
    del _COV_NEW[:]
    return out


def anchored_files(prop: str) -> list[str]:
    try:
        for line in open(os.path.join(VERIF, "properties.jsonl"), encoding="utf-8"):
            e = json.loads(line)
            if e.get("id") == prop:
                return [f for f in e.get("anchors", {}).get("files", []) if f.startswith("rdflib/") and f.endswith(".py")]
    except Exception:
        pass
    return []


def cov_report(prop: str, hit: set) -> dict:
    """Per anchored file: functions / lines of the real code, and how many this run executed."""
    rep, tot = {}, {"functions": 0, "functions_entered": 0, "lines": 0, "lines_executed": 0}
    by_file: dict = {}
    for f, l in hit:
        by_file.setdefault(f, set()).add(l)
    for rel in anchored_files(prop):
        path = os.path.join(REPO, rel)
        try:
            top = compile(open(path, encoding="utf-8").read(), path, "exec")
        except Exception:
            continue
        got = by_file.get(rel[len("rdflib/"):], set())
        funcs, stack = [], [top]
        while stack:
            co = stack.pop()
            for k in co.co_consts:
                if hasattr(k, "co_code"):
                    stack.append(k)
            if co.co_name.startswith("<") or "__qualname__" in co.co_names:   # comprehensions, lambdas, class bodies
                continue
            lines = {l for (_a, _b, l) in co.co_lines() if l and l != co.co_firstlineno}
            if lines:
                funcs.append((getattr(co, "co_qualname", co.co_name), lines))
        n_l = sum(len(ls) for _q, ls in funcs)
        n_x = sum(len(ls & got) for _q, ls in funcs)
        missed = sorted(q for q, ls in funcs if not (ls & got))
        rep[rel] = {"functions": len(funcs), "functions_entered": len(funcs) - len(missed),
                    "lines": n_l, "lines_executed": n_x, "not_entered": missed[:80]}
        tot["functions"] += len(funcs); tot["functions_entered"] += len(funcs) - len(missed)
        tot["lines"] += n_l; tot["lines_executed"] += n_x
    try:   # executed lines per anchored file, for tools/mutate.py (scratch output, not evidence)
        os.makedirs(os.path.join(VERIF, "coverage"), exist_ok=True)
        json.dump({rel: sorted(by_file.get(rel[len("rdflib/"):], ())) for rel in rep},
                  open(os.path.join(VERIF, "coverage", f"{prop}.json"), "w"))
    except Exception:
        pass
    return {"total": tot, "files": rep,
            "note": "function bodies of the property's anchored files executed by the implementation side of this run "
                    "(sys.monitoring LINE events; module-level statements are not counted)"}


def case_rng(seed: int, prop: str, i: int, salt: str = "") -> random.Random:
    return random.Random(f"{seed}:{prop}:{i}:{salt}")


# ---------------------------------------------------------------- Lean gate


def strip_comments(src: str) -> str:
    out, i, depth, n = [], 0, 0, len(src)
    while i < n:
        if src.startswith("/-", i):
            depth += 1
            i += 2
        elif depth and src.startswith("-/", i):
            depth -= 1
            i += 2
        elif depth:
            if src[i] == "\n":
                out.append("\n")
            i += 1
        elif src.startswith("--", i):
            while i < n and src[i] != "\n":
                i += 1
        else:
            out.append(src[i])
            i += 1
    return "".join(out)


def lean_sources_for(prop: str) -> list[str]:
    files = []
    for root in (os.path.join(LEAN, "RV", "Base"), os.path.join(LEAN, "RV", prop)):
        for dp, _dn, fn in os.walk(root):
            files += [os.path.join(dp, f) for f in fn if f.endswith(".lean")]
    return sorted(files)


def transitive_lean_sources(prop: str, extra_dirs=()) -> list[str]:
    files = lean_sources_for(prop)
    for d in extra_dirs:
        for dp, _dn, fn in os.walk(os.path.join(LEAN, "RV", d)):
            files += [os.path.join(dp, f) for f in fn if f.endswith(".lean")]
    return sorted(set(files))


def forbidden_hits(files) -> list[str]:
    hits = []
    for f in files:
        body = strip_comments(open(f, encoding="utf-8").read())
        for ln, line in enumerate(body.splitlines(), 1):
            if FORBIDDEN.search(line):
                hits.append(f"{os.path.relpath(f, VERIF)}:{ln}: {line.strip()[:100]}")
    return hits


def run(cmd, cwd=None, timeout=None, input=None):
    p = subprocess.run(cmd, cwd=cwd, stdout=subprocess.PIPE, stderr=subprocess.STDOUT, text=True,
                       timeout=timeout, input=input)
    return p.returncode, p.stdout


def lean_gate(mod, log) -> dict:
    """Build the property's Lean modules + driver; audit axioms; grep forbidden tokens."""
    res = {"ok": True, "problems": [], "theorems": {}, "tables_regenerated": False}
    t0 = time.time()
    tables = getattr(mod, "TABLES", None)
    if tables is not None:
        try:
            txt = tables()
            path = os.path.join(LEAN, "RV", mod.ID, "Tables.lean")
            if not os.path.exists(path) or open(path).read() != txt:
                open(path, "w").write(txt)
            res["tables_regenerated"] = True
        except Exception as e:  # a table that can no longer be extracted = broken correspondence
            res["ok"] = False
            res["problems"].append(f"table extraction failed: {e!r}")
    rc, out = run([sys.executable, os.path.join(VERIF, "tools", "gen_lakefile.py")])
    targets = list(mod.LEAN_TARGETS) + ([mod.DRIVER] if getattr(mod, "DRIVER", None) else [])
    rc, out = run(["lake", "build"] + targets, cwd=LEAN, timeout=3000)
    if rc != 0:
        res["ok"] = False
        errs = [l for l in out.splitlines() if "error" in l.lower()][:12]
        res["problems"].append("lake build failed: " + " | ".join(errs))
        log(out[-3000:])
    rc, out = run(["lake", "env", "lean", mod.AUDIT], cwd=LEAN, timeout=1200)
    if rc != 0:
        res["ok"] = False
        res["problems"].append("audit file does not check: " + out[-400:])
    flat = re.sub(r"\s+", " ", out)
    for m in re.finditer(r"'([^']+)' (depends on axioms: \[([^\]]*)\]|does not depend on any axioms)", flat):
        axs = [a.strip() for a in (m.group(3) or "").split(",") if a.strip()]
        res["theorems"][m.group(1)] = axs
        bad = [a for a in axs if a not in ALLOWED_AXIOMS]
        if bad:
            res["ok"] = False
            res["problems"].append(f"theorem {m.group(1)} uses axioms {bad}")
    expected = re.findall(r"#print axioms\s+(\S+)", strip_comments(open(os.path.join(LEAN, mod.AUDIT)).read()))
    res["expected"] = len(expected)
    if len(res["theorems"]) < len(expected):
        res["ok"] = False
        res["problems"].append(f"audit listed {len(expected)} theorems, only {len(res['theorems'])} checked")
    hits = forbidden_hits(transitive_lean_sources(mod.ID, getattr(mod, "LEAN_EXTRA_DIRS", ())))
    if hits:
        res["ok"] = False
        res["problems"].append("forbidden tokens: " + "; ".join(hits[:5]))
    res["wall_s"] = round(time.time() - t0, 2)
    return res


def leanchecker(mod, log) -> list[str]:
    """thorough tier: re-check the compiled modules with the independent checker."""
    mods = [t for t in mod.LEAN_TARGETS]
    rc, out = run(["lake", "env", "leanchecker"] + mods, cwd=LEAN, timeout=3000)
    if rc != 0:
        log(out[-2000:])
        return [f"leanchecker failed on {mods}: {out[-300:]}"]
    return []


# ---------------------------------------------------------------- implementation side

_MOD = None


def _alarm(_sig, _frm):
    raise CaseTimeout()


def _disarm():
    while True:
        try:
            signal.setitimer(signal.ITIMER_REAL, 0)
            signal.setitimer(signal.ITIMER_PROF, 0)
            return
        except CaseTimeout:
            continue


# A case is a hang when it has burnt `limit` seconds of CPU (ITIMER_PROF: independent of how loaded the
# machine is — a loop that never ends burns CPU) or when `limit * WALL_FACTOR` seconds of wall-clock time have
# passed (blocking waits burn no CPU).  Wall-clock alone made verdicts depend on the load of the machine.
WALL_FACTOR = float(os.environ.get("VERIF_WALL_FACTOR", "6"))


def _worker(case):
    """Run the real implementation on one case, under a watchdog.

    The timer REPEATS (every 0.2 s after the limit): code under test may swallow the first
    CaseTimeout in a bare `except:` (SimpleMemory.add does) and loop on; the exception is raised
    again until it escapes.
    """
    signal.signal(signal.SIGALRM, _alarm)
    signal.signal(signal.SIGPROF, _alarm)
    limit = float(getattr(_MOD, "CASE_TIMEOUT_S", CASE_TIMEOUT_S)) * float(os.environ.get("VERIF_TIMEOUT_SCALE", "1"))
    signal.setitimer(signal.ITIMER_PROF, limit, 0.2)
    signal.setitimer(signal.ITIMER_REAL, limit * WALL_FACTOR, 0.2)
    try:
        try:
            r = _MOD.run_impl(case)
        finally:
            _disarm()
        r.setdefault("viol", [])
        r.setdefault("obs", [])
        r.setdefault("nontrivial", True)
        r.setdefault("key", json.dumps(case, sort_keys=True, default=str))
        r.setdefault("stats", {})
        if _COV_ON:
            r["_cov"] = cov_drain()
        return r
    except CaseTimeout:
        _disarm()
        return {"obs": [], "viol": [f"timeout: implementation call did not return within {limit}s of CPU time / {limit * WALL_FACTOR}s of wall-clock time"],
                "nontrivial": True, "key": "timeout", "stats": {"timeout": 1}, "timeout": True}
    except Exception as e:
        _disarm()
        # Where was it raised?  An exception that escapes from rdflib's own code (innermost frame under the
        # repository) is the IMPLEMENTATION raising where the harness expected it to return — a difference
        # between implementation and model, handled as a broken correspondence.  Anything else is a bug of
        # the harness (exit 2 when frequent, never a violation).
        tb, inner = e.__traceback__, ""
        while tb is not None:
            inner = tb.tb_frame.f_code.co_filename
            tb = tb.tb_next
        in_impl = os.path.realpath(inner).startswith(os.path.realpath(REPO) + os.sep)
        r = {"obs": [], "viol": [], "nontrivial": False, "key": "harness-error", "stats": {},
             "harness_error": traceback.format_exc()[-1500:]}
        if in_impl:
            r["impl_raised"] = f"{type(e).__name__} escaped from {os.path.relpath(os.path.realpath(inner), os.path.realpath(REPO))}: {str(e)[:120]}"
            r["stats"] = {"impl_raised_unexpectedly": 1}
        elif not isinstance(e, (OSError, MemoryError, RecursionError)):
            # raised in the harness while it was reading the implementation's answer (wrong shape, wrong type,
            # missing key…): on the unchanged tree this never happens, so the answer is one the harness and the
            # model do not know — again a difference, not infrastructure trouble
            r["impl_raised"] = f"harness could not interpret the implementation's answer ({type(e).__name__}: {str(e)[:120]})"
            r["stats"] = {"impl_answer_uninterpretable": 1}
        return r


def run_impl_many(mod, cases, procs=None):
    global _MOD
    _MOD = mod
    procs = procs or min(16, os.cpu_count() or 4)
    if len(cases) <= 2 or procs == 1 or os.environ.get("VERIF_SERIAL"):
        return [_worker(c) for c in cases]
    ctx = mp.get_context("fork")
    with ctx.Pool(procs) as pool:
        return pool.map(_worker, cases, chunksize=max(1, len(cases) // (procs * 8)))


# ---------------------------------------------------------------- model side


def driver_path(mod):
    return os.path.join(LEAN, ".lake", "build", "bin", mod.DRIVER)


def run_driver(mod, lines: list[str]) -> list[str]:
    """Feed all lines to the compiled model; one output line per input line."""
    exe = driver_path(mod)
    if os.path.exists(exe):
        cmd = [exe]
    else:  # fall back to the interpreter
        cmd = ["lake", "env", "lean", "--run", os.path.join("RV", mod.ID, "Drive.lean")]
    p = subprocess.run(cmd, cwd=LEAN, input="\n".join(lines) + "\n", stdout=subprocess.PIPE,
                       stderr=subprocess.PIPE, text=True, timeout=3000)
    out = p.stdout.split("\n")
    if out and out[-1] == "":
        out.pop()
    if p.returncode != 0 or len(out) != len(lines):
        raise RuntimeError(f"driver {mod.DRIVER}: rc={p.returncode} in={len(lines)} out={len(out)} err={p.stderr[-300:]}")
    return out


def model_many(mod, cases):
    """Returns per-case list of driver output lines (aligned with run_impl's obs)."""
    if not getattr(mod, "DRIVER", None):
        return [None] * len(cases)
    all_lines, spans = [], []
    for c in cases:
        ls = mod.model_lines(c)
        spans.append((len(all_lines), len(all_lines) + len(ls)))
        all_lines += ls
    if not all_lines:
        return [[] for _ in cases]
    out = run_driver(mod, all_lines)
    return [out[a:b] for a, b in spans]


def compare(mod, case, impl, model_out):
    """None if the implementation's observations equal the model's, else a description."""
    if model_out is None:
        return None
    sel = getattr(mod, "select_model_obs", None)
    mobs = sel(case, model_out) if sel else model_out
    iobs = impl["obs"]
    if len(mobs) != len(iobs):
        return f"observation count differs: impl {len(iobs)} model {len(mobs)}"
    for k, (a, b) in enumerate(zip(iobs, mobs)):
        if a != b:
            return f"obs[{k}]: impl={a!r} model={b!r}"
    return None


# ---------------------------------------------------------------- shrinking, findings, replay


def shrink_case(mod, case, pred, budget=400):
    """Greedy delta debugging with the module's `shrink`; `pred(case)` = still failing."""
    cur, n = case, 0
    improved = True
    while improved and n < budget:
        improved = False
        for cand in mod.shrink(cur):
            n += 1
            if n > budget:
                break
            try:
                if pred(cand):
                    cur, improved = cand, True
                    break
            except Exception:
                continue
    return cur


def load_findings(prop):
    path = os.path.join(VERIF, "known_findings.jsonl")
    out = []
    if os.path.exists(path):
        for line in open(path, encoding="utf-8"):
            line = line.strip()
            if line and not line.startswith("#"):
                e = json.loads(line)
                if e.get("property") == prop:
                    out.append(e)
    return out


def write_replay(prop, payload) -> str:
    d = os.path.join(VERIF, "replays")
    os.makedirs(d, exist_ok=True)
    h = hashlib.sha1(json.dumps(payload, sort_keys=True, default=str).encode()).hexdigest()[:10]
    path = os.path.join(d, f"{prop}-{h}.json")
    json.dump(payload, open(path, "w"), indent=1, default=str)
    return os.path.relpath(path, VERIF)


def load_corpus(prop):
    d = os.path.join(VERIF, "corpus", prop)
    cases = []
    if os.path.isdir(d):
        for f in sorted(os.listdir(d)):
            if f.endswith(".json"):
                c = json.load(open(os.path.join(d, f)))
                cases.append(c["case"] if "case" in c and isinstance(c["case"], dict) else c)
    return cases


# ---------------------------------------------------------------- the check


def run_property(mod, tier="quick", seed=0, replay=None):
    t0 = time.time()
    prop = mod.ID
    logs = []
    log = lambda s: logs.append(str(s))
    violations = []      # (kind, text, replay_path)
    known_lines = []
    notes = []

    if tier == "thorough":
        os.environ.setdefault("VERIF_TIMEOUT_SCALE", "3")
    cov_start()
    gate = lean_gate(mod, log)
    if tier == "thorough" and gate["ok"] and not os.environ.get("VERIF_NO_LEANCHECKER"):
        probs = leanchecker(mod, log)
        if probs:
            gate["ok"] = False
            gate["problems"] += probs
        gate["leanchecker"] = "ok" if not probs else "failed"

    findings = load_findings(prop)
    known = [f for f in findings if f["status"] == "known"]
    fixed = [f for f in findings if f["status"] == "fixed"]

    # ---- cases: replay | (fixed witnesses, known witnesses, corpus, generated)
    if replay:
        payload = json.load(open(replay))
        cases = [payload.get("case", payload)]
        origin = ["replay"]
    else:
        cases, origin = [], []
        for f in fixed:
            if f.get("witness") is not None:
                cases.append(f["witness"]); origin.append("fixed:" + f["id"])
        for f in known:
            if f.get("witness") is not None:
                cases.append(f["witness"]); origin.append("known:" + f["id"])
        for c in load_corpus(prop):
            cases.append(c); origin.append("corpus")
        n = int(os.environ.get("VERIF_CASES", mod.CASES[tier]))
        for i in range(n):
            cases.append(mod.gen_case(case_rng(seed, prop, i), tier, i)); origin.append(f"gen:{i}")

    impl = run_impl_many(mod, cases)
    harness_errors = [(origin[i], r["harness_error"]) for i, r in enumerate(impl)
                      if r.get("harness_error") and not r.get("impl_raised")]
    has_driver = bool(getattr(mod, "DRIVER", None))
    try:
        model_out = model_many(mod, cases) if has_driver else [None] * len(cases)
    except Exception as e:
        gate["ok"] = False
        gate["problems"].append(f"model driver failed: {e!r}")
        model_out = [None] * len(cases)

    stats, keys, n_diverge = {}, set(), 0
    divergent, failing = [], []
    cov_hit = set()
    for r in impl:
        cov_hit.update(map(tuple, r.pop("_cov", ())))
    for i, (c, r) in enumerate(zip(cases, impl)):
        for k, v in r.get("stats", {}).items():
            stats[k] = stats.get(k, 0) + v
        if r.get("nontrivial"):
            keys.add(r["key"])
        if r.get("impl_raised"):
            d = "implementation raised where the harness and the model expect it to return: " + r["impl_raised"]
        else:
            d = compare(mod, c, r, model_out[i]) if not r.get("harness_error") else None
        if r["viol"]:
            failing.append((i, d))
        elif d is not None:
            divergent.append((i, d))

    def still_fails(tag):
        def pred(cand):
            rr = _worker_inline(mod, cand)
            return any(v.split(":")[0] == tag for v in rr["viol"])
        return pred

    def match_known(case, result):
        for f in known:
            m = mod.MATCHERS.get(f.get("match", ""))
            try:
                if m and m(case, result):
                    return f
            except Exception:
                pass
        return None

    reported_known = set()
    seen_sigs = set()
    for i, d in failing:
        c, r = cases[i], impl[i]
        if origin[i].startswith("known:"):
            fid = origin[i][6:]
            f = next(x for x in known if x["id"] == fid)
            if fid not in reported_known:
                reported_known.add(fid)
                known_lines.append(f"KNOWN-FINDING: property={prop} {f['id']} {f['what']}")
            continue
        tag = r["viol"][0].split(":")[0]
        f = match_known(c, r)
        if f is None and len(seen_sigs) < 3:
            # a hang costs a full watchdog period per shrink candidate: keep that search short
            sb = 6 if (tag == "timeout" or r.get("timeout")) else 400
            small = shrink_case(mod, c, still_fails(tag), budget=sb) if hasattr(mod, "shrink") else c
            rs = _worker_inline(mod, small)
            if not rs["viol"]:
                small, rs = c, r
            f = match_known(small, rs)
        else:
            small, rs = c, r
        if f is not None:
            if f["id"] not in reported_known:
                reported_known.add(f["id"])
                known_lines.append(f"KNOWN-FINDING: property={prop} {f['id']} {f['what']}")
            continue
        sig = (tag, json.dumps(small, sort_keys=True, default=str))
        if sig in seen_sigs or len(seen_sigs) >= 3:
            continue
        seen_sigs.add(sig)
        path = write_replay(prop, {"property": prop, "kind": "property-violated-on-implementation",
                                   "origin": origin[i], "seed": seed, "case": small,
                                   "violations": rs["viol"], "impl_obs": rs["obs"][:50],
                                   "model_divergence": d, "original_case": c if small != c else None})
        what = "regression of fixed finding " + origin[i][6:] if origin[i].startswith("fixed:") else rs["viol"][0][:160]
        violations.append(("violation", what, path))

    for f in ([] if replay else known):
        if f["id"] not in reported_known:
            # listed finding whose witness no longer fails: a note, never an alarm
            if f.get("witness") is not None:
                notes.append(f"STALE-FINDING: property={prop} {f['id']} witness no longer fails")

    # ---- correspondence broken although the property's own oracle is satisfied on those inputs,
    #      or a proof obligation no longer checks: search for a failing input, then report.
    if (divergent or not gate["ok"]) and not violations and not replay:
        found = None
        budget_s = 60 if tier == "quick" else 600
        extra = int(os.environ.get("VERIF_SEARCH_CASES", mod.CASES.get("search", mod.CASES["thorough"])))
        ts, j, batch = time.time(), 0, 256
        while found is None and time.time() - ts < budget_s and j < extra:
            cs = [mod.gen_case(case_rng(seed, prop, j + k, "search"), "thorough", j + k) for k in range(batch)]
            rs_ = run_impl_many(mod, cs)
            for c, r in zip(cs, rs_):
                if r["viol"] and match_known(c, r) is None:
                    found = (c, r)
                    break
            j += batch
        if found:
            c, r = found
            tag = r["viol"][0].split(":")[0]
            sb = 6 if (tag == "timeout" or r.get("timeout")) else 400
            small = shrink_case(mod, c, still_fails(tag), budget=sb) if hasattr(mod, "shrink") else c
            rs = _worker_inline(mod, small)
            if not rs["viol"]:
                small, rs = c, r
            path = write_replay(prop, {"property": prop, "kind": "property-violated-on-implementation",
                                       "origin": "search", "seed": seed, "case": small, "violations": rs["viol"],
                                       "impl_obs": rs["obs"][:50]})
            violations.append(("violation", rs["viol"][0][:160], path))
        else:
            first = divergent[0] if divergent else None
            small = None
            if first is not None:
                i0, d0 = first
                small = cases[i0]
                if hasattr(mod, "shrink"):
                    def pred(cand):
                        rr = _worker_inline(mod, cand)
                        if rr.get("impl_raised"):
                            return True
                        if rr.get("harness_error"):
                            return False
                        mo = model_many(mod, [cand])[0]
                        return compare(mod, cand, rr, mo) is not None
                    try:
                        small = shrink_case(mod, cases[i0], pred, budget=150)
                    except Exception:
                        small = cases[i0]
            payload = {"property": prop, "kind": "correspondence-or-proof-broken", "seed": seed,
                       "no_longer_checks": (gate["problems"] or []) +
                       ([f"correspondence impl≡model of {prop} ({len(divergent)} diverging cases)"] if divergent else []),
                       "case": small, "divergence": first[1] if first else None,
                       "search": {"cases": j, "seconds": round(time.time() - ts, 1), "failing_input": None}}
            if small is not None:
                rr = _worker_inline(mod, small)
                payload["impl_obs"] = rr["obs"][:50]
                if rr.get("impl_raised"):
                    payload["impl_raised"] = rr["impl_raised"]
                    payload["traceback"] = rr.get("harness_error")
                try:
                    payload["model_obs"] = model_many(mod, [small])[0][:50]
                    payload["divergence"] = compare(mod, small, rr, model_many(mod, [small])[0]) or payload["divergence"]
                except Exception:
                    pass
            path = write_replay(prop, payload)
            violations.append(("no-input", "model and implementation differ / proof obligation broken", path))
    elif divergent and replay:
        notes.append(f"replay diverges from model: {divergent[0][1]}")
    n_diverge = len(divergent) + sum(1 for _i, d in failing if d)

    # ---- evidence
    obligations = gate.get("expected", 0)
    discharged = sum(1 for _t, axs in gate["theorems"].items() if all(a in ALLOWED_AXIOMS for a in axs)) if gate["ok"] else 0
    samples = []
    for i in range(len(cases)):
        if origin[i].startswith("gen") and impl[i].get("nontrivial"):
            samples.append({"case": cases[i], "impl_obs": impl[i]["obs"][:6]})
        if len(samples) >= 3:
            break
    if not samples and cases:
        samples.append({"case": cases[0]})
    ev = {
        "property_id": prop, "tier": tier, "seed": seed, "level": "proof",
        "coverage": {
            "obligations": obligations, "discharged": discharged,
            "checker_cmd": f"cd lean && lake build {' '.join(mod.LEAN_TARGETS)} && lake env lean {mod.AUDIT}"
                           + (" && lake env leanchecker " + " ".join(mod.LEAN_TARGETS) if tier == "thorough" else ""),
            "trusted_base": ["Lean 4.33.0 kernel", "axioms: propext, Classical.choice, Quot.sound (per theorem below)",
                             "hand-written model tied to /repo by the correspondence run counted here (harness/%s.py, lean/RV/%s/Drive.lean)" % (prop.lower(), prop)]
                            + list(getattr(mod, "TRUSTED", [])),
            "axioms": gate["theorems"],
            "lean_gate": {"ok": gate["ok"], "problems": gate["problems"], "wall_s": gate.get("wall_s"),
                          "tables_regenerated": gate["tables_regenerated"], "leanchecker": gate.get("leanchecker")},
            "evaluations": len(cases), "distinct_nontrivial": len(keys),
            "rule": getattr(mod, "RULE", ""), "samples": samples,
            "traces_validated_against_impl": len(cases) - n_diverge - len(harness_errors),
            "model_impl_divergences": n_diverge,
            "generator_distribution": stats,
            "anchored_code_exercised": cov_report(prop, cov_hit | set(map(tuple, cov_drain()))) if _COV_ON else None,
            "known_findings_reported": sorted(reported_known),
            "harness_errors": len(harness_errors),
            "notes": notes,
        },
        "assumptions": list(getattr(mod, "ASSUMPTIONS", [])),
        "wall_s": round(time.time() - t0, 2),
        "violations": len(violations),
    }
    if not replay:
        os.makedirs(os.path.join(VERIF, "evidence"), exist_ok=True)
        json.dump(ev, open(os.path.join(VERIF, "evidence", f"{prop}.json"), "w"), indent=1, default=str)

    for l in known_lines:
        print(l)
    for n_ in notes:
        print(n_)
    print(f"[{prop}] tier={tier} seed={seed} cases={len(cases)} nontrivial_distinct={len(keys)} "
          f"obligations={discharged}/{obligations} divergences={n_diverge} violations={len(violations)} "
          f"wall={ev['wall_s']}s")
    if harness_errors:
        print(f"[{prop}] HARNESS-ERROR in {len(harness_errors)} cases; first ({harness_errors[0][0]}):\n{harness_errors[0][1]}")
    if not gate["ok"]:
        print(f"[{prop}] lean gate problems: {gate['problems']}")
    for kind, what, path in violations:
        if kind == "no-input":
            print(f"VIOLATION property={prop} replay={path} {what} no-failing-input-found")
        else:
            print(f"VIOLATION property={prop} replay={path} {what}")
    if violations:
        return 1
    if harness_errors and len(harness_errors) > max(2, len(cases) // 20):
        return 2
    return 0


def _worker_inline(mod, case):
    global _MOD
    _MOD = mod
    return _worker(case)
