"""C17 — prefix bindings stay a consistent two-way map and compact IRIs expand back.  DESIGN §6 C17.

Case = {"cfg": "memory"|"simple"|"dataset"|"foreign"|"aggregate", "bn": "none"|"core"|"rdflib", "bn1": …,
        ("aggregate": the graph under test is a ReadOnlyGraphAggregate — a Graph-like front end with its OWN store and
         manager — over "members": [[[prefix, ns]…]…] graphs that carry bindings of their own (same prefixes, other
         namespaces); its namespaces() / qname / compute_qname / expand_curie must talk about ONE table, the aggregate's;
         bind goes through its manager (Graph.bind is refused), parses and documents through manager 1, a Graph on its store)
        ("foreign": the graph's namespace_manager belongs to a graph on ANOTHER store — "via": "ctor"
         Graph(namespace_manager=…) | "setter" g.namespace_manager = …; "fstore"/"own": kinds of the manager's
         store and of the graph's own store; listing, lookups and qname must all talk about the manager's store)
        "vp": [prefix…], "vn": [namespace…],         (vocabulary: keys whose lookups are observed)
        "ops": [op…]}
op  = ["bind", m, prefix|None, ns, override, replace]   Graph.bind / NamespaceManager.bind
      ["sbind", prefix, ns, override]                   store.bind directly
      ["cq", m, iri, generate] ["cqs", m, iri, generate] ["qname", m, iri] ["qstrict", m, iri]
      ["curie", m, iri, generate] ["n3", m, iri] ["expand", text] ["reset", m]
      ["parse", m, [[prefix, ns]…]]      Turtle document with @prefix lines
      ["parsexml", m, [[prefix|None, ns]…]]  RDF/XML document with xmlns attributes
      ["ser", m, s, p, o]                serialize(format="turtle") of a graph holding that triple
      ["split", iri, strict]             rdflib.namespace.split_uri(iri[, NAME_START_CATEGORIES]) (stateless)
      ["ncname", text]                   rdflib.namespace.is_ncname(text) (stateless)
      ["catrange", lo, hi]               unicodedata.category of every code point lo ≤ c < hi, run-length encoded
                                         (stateless; the 272 blocks of 4096 code points are walked round-robin by case index)
      ["badinit", mode]                  Graph(store, bind_namespaces="cc" | anything unknown).namespace_manager raises, binds nothing
      ["sertrig", 1, [[kind, graph IRI, [[s, p, o, kind]…]]…]]  serialize(format="trig") of a Dataset whose named graphs
                                         (kind "g") go through manager 0 and whose default graph (kind "d") through manager 1;
                                         one document, one @prefix table; both managers are reset() afterwards
      ["serxml", m, [[s, p, o, kind]…]]  serialize(format="xml") of a fresh graph (same store, same manager): compute_qname_strict
                                         (generate) for every predicate, then qname_strict per statement; the OUTPUT is checked (xmlns
                                         table, re-parse) and its xmlns table compared with the model's; no reset afterwards
      ["serdoc", m, fmt, [[s, p, o, kind]…]]  serialize(format=turtle|n3|longturtle|longturtle-canon|trig) of a fresh graph (same store, same
                                         manager) holding these triples (kind "u" IRI / "l" plain literal); the
                                         OUTPUT is checked (prefix table, re-parse) and its @prefix table is
                                         compared with the model's; the manager is reset() afterwards
m = manager index: 0 = the graph's (a Dataset's, shared with its named graphs) manager,
    1 = a second manager on the same store (another Graph over the store; a Dataset's default graph).
After every op: op result, sorted namespaces(), store.namespace / store.prefix of all known keys.
Property oracle (independent of Lean): the three clauses evaluated on the implementation.
"""
import io
import logging
import re
import unicodedata
import warnings

import core  # noqa: F401
import c17_tables
from rdflib import Dataset, Graph, Literal, Namespace, URIRef
from rdflib.graph import DATASET_DEFAULT_GRAPH_ID, ReadOnlyGraphAggregate
from rdflib.namespace import NamespaceManager
from rdflib.plugins.stores.memory import Memory, SimpleMemory
import rdflib.namespace as _N

warnings.filterwarnings("ignore")
logging.getLogger("rdflib").setLevel(logging.CRITICAL)  # "… does not look like a valid URI" chatter

ID = "C17"
LEAN_TARGETS = ["RV.C17.Props", "RV.C17.Audit"]
AUDIT = "RV/C17/Audit.lean"
DRIVER = "drv_c17"
CASES = {"quick": 2500, "thorough": 60000, "search": 12000}
TABLES = c17_tables.tables_text
RULE = ("random histories (3-18 ops) of bind (override x replace, None/empty/underscore/numbered prefixes, nested and "
        "overlapping namespaces), direct store.bind, qname/curie/compute_qname(_strict)/n3/expand_curie, reset, Turtle and "
        "RDF/XML parses that bind prefixes, Turtle/N3/longturtle(canon)/TriG serialisation that generates them and RDF/XML "
        "serialisation (strict qnames) (output re-parsed, @prefix / xmlns table checked, `_x` vs `p_x` collisions generated), TriG "
        "of a dataset whose graphs go through two managers, refused bind_namespaces modes, stateless split_uri / is_ncname probes "
        "over all of Unicode and block-wise comparison of the whole category table; Memory, SimpleMemory and Dataset; one "
        "or two managers on the store, and graphs that borrow the manager of a graph on another store (constructor argument "
        "or setter), and a ReadOnlyGraphAggregate (own store and manager) over member graphs with bindings of their own; bind_namespaces none/core/rdflib.  non-trivial = some bind met an already bound "
        "prefix or namespace and a later qname-family call returned a prefixed name; distinct = distinct histories")
ASSUMPTIONS = ["unicodedata.category of the running Python = Tables.lean (regenerated for all of Unicode on every run; the "
               "compiled lookup is compared with unicodedata on every code point, block by block, in every run)",
               "IRIs are Python str without lone surrogates",
               "stores other than Memory/SimpleMemory (SPARQLStore, BerkeleyDB) are outside the model"]
TRUSTED = ["harness/c17.py generators, canonicalisation (generated prefixes renamed by the namespace they are bound to)",
           "lean/RV/C17/Drive.lean line protocol", "harness/c17_tables.py copies the tables faithfully"]

XMLNS = str(_N.XMLNS)
RDFNS = "http://www.w3.org/1999/02/22-rdf-syntax-ns#"
G1 = URIRef("http://graphs.example/g1")
DEFAULT_PREFIXES = set(_N._NAMESPACE_PREFIXES_CORE) | set(_N._NAMESPACE_PREFIXES_RDFLIB)

NS_FAMILIES = [
    ["http://e.org/", "http://e.org/a", "http://e.org/a/", "http://e.org/a#", "http://e.org/a/b", "http://e.org/a/b/",
     "http://e.org/ab", "http://e.org/a/b#c", "http://e.org/a_", "http://e.org/a/-", "http://e.org/a/1"],
    ["urn:x:", "urn:x:y:", "urn:", "urn:x:y"],
    [XMLNS, XMLNS + "#", XMLNS + "a", "http://www.w3.org/XML/"],
    ["http://é.org/ñ/", "http://é.org/", "http://é.org/ñ/中"],
    [RDFNS, "http://www.w3.org/1999/02/", "http://www.w3.org/2002/07/owl#", "http://www.w3.org/2002/07/"],
]
LOCALS = ["x", "y1", "_z", "1a", "-d", "a.b", "a.", "é", "%20x", "(p)", "", "b/c", "b#c", "a·b", "٣x",
          "ǅ", "x́", "中", "a€b", "ⅷ", "xʰ", "aः", "-", "b", "a", "c/d/e", "_"]
STRICT_HEAD = {"1a": "1", "٣x": "٣", "%20x": "%20"}
PREFIX_POOL = ["a", "b", "c", "_a", "_b", "", "ns1", "ns2", "a1", "b1", "default1", "é", "x.y", "A", "default", "_a1",
               "p_a", "p_b", "pp_a", "_", "_", "__", "_1"]
DOC_LOCALS = ["x", "y1", "b", "s", "o2", "q", "y.", "x"]
XML_LOCALS = DOC_LOCALS + ["1a", "٣x", "x-1", "_z", "é", "a.b", "-d", "1", "x"]  # predicates of RDF/XML documents (strict split)
SPECIAL_IRIS = [XMLNS + "a" + XMLNS + "b", "http://e.org/a b", "http://e.org/<x>", "", "/ab/-", "abc", XMLNS, XMLNS + "lang",
                "http://e.org/a/b/c", "http://e.org/", "urn:x:y:z"]


def _w(rng, pairs):
    r = rng.random() * sum(w for _x, w in pairs)
    for x, w in pairs:
        r -= w
        if r <= 0:
            return x
    return pairs[-1][0]


# alphabet for split_uri probes (all tabulated): name-start letters, digits, characters allowed inside
# names but not at their start, and characters that end a name
_SP_START = ["a", "Z", "é", "中", "ǅ", "ⅷ", "_"]
_SP_DIGIT = ["1", "٣"]
_SP_INNER = [".", "-", "%", "·", "(", ")", "́", "ʰ", "ः"]
_SP_BREAK = ["/", "#", ":", "€", "?", "=", "~", "@"]


_RUNS = c17_tables.category_runs() + [(c17_tables.LIMIT, None)]
# runs a generated character may come from: no controls / line separators (line protocol), no surrogates (ASSUMPTIONS)
_UNI_RUNS = [(a, _RUNS[i + 1][0]) for i, (a, k) in enumerate(_RUNS[:-1]) if k not in ("Cc", "Cs", "Zl", "Zp")]
_STATELESS = ("sbind", "expand", "split", "ncname", "catrange", "badinit")
DOC_FORMATS = ["turtle", "turtle", "n3", "longturtle", "longturtle-canon", "trig"]
CAT_BLOCK = 4096
CAT_BLOCKS = c17_tables.LIMIT // CAT_BLOCK


def uni_char(rng):
    """a character from anywhere in Unicode: a random run of one general category (so that every category, however
    few code points it has, is drawn often), then a random code point of the run"""
    while True:
        a, b = rng.choice(_UNI_RUNS)
        c = chr(rng.randrange(a, b))
        if c not in ' |>\x85':
            return c


def uni_local(rng):
    """a local name with characters from anywhere in Unicode, mostly name characters"""
    out = []
    for _ in range(rng.randint(1, 4)):
        r = rng.random()
        out.append(uni_char(rng) if r < 0.6 else rng.choice(_SP_START + _SP_DIGIT + _SP_INNER))
    return "".join(out)


def gen_ncname_probe(rng):
    r = rng.random()
    if r < 0.1:
        return rng.choice(["", "_", "a", "1", "-", "a:b", "a b", "·a", "a·"])
    first = _w(rng, [(rng.choice(_SP_START), 5), (uni_char(rng), 4), (rng.choice(_SP_DIGIT + _SP_INNER + _SP_BREAK), 2)])
    rest = "".join(_w(rng, [(rng.choice(_SP_START + _SP_DIGIT + _SP_INNER), 6), (uni_char(rng), 4), (rng.choice(_SP_BREAK), 1)])
                   for _ in range(rng.randint(0, 4)))
    return first + rest


def gen_split_iri(rng):
    r = rng.random()
    if r < 0.3:  # characters from anywhere in Unicode around the split point
        head = rng.choice(["", "http://e.org/", "urn:x:", "/", "a"])
        body = "".join(_w(rng, [(uni_char(rng), 5), (rng.choice(_SP_START + _SP_DIGIT + _SP_INNER), 3), (rng.choice(_SP_BREAK), 2)])
                       for _ in range(rng.randint(1, 6)))
        return head + body
    if r < 0.38:
        return XMLNS + "".join(rng.choice(_SP_START + _SP_BREAK + _SP_INNER) for _ in range(rng.randint(0, 3)))
    head = rng.choice(["", "", "http://e.org/", "urn:x:", "/", "a", "1", "-", "é/"])
    mid = "".join(rng.choice(_SP_START + _SP_DIGIT + _SP_INNER + _SP_BREAK) for _ in range(rng.randint(0, 4)))
    brk = rng.choice(_SP_BREAK + ["", ""])
    boundary = "".join(rng.choice(_SP_DIGIT + _SP_INNER) for _ in range(rng.randint(0, 2)))  # digits/dots/hyphens at the boundary
    name = "".join(rng.choice(_SP_START + _SP_START + _SP_DIGIT + _SP_INNER) for _ in range(rng.randint(0, 4)))
    tail = rng.choice(["", "", "", "/", "#", ".", "-", "%"])  # trailing split / non-start characters
    return head + mid + brk + boundary + name + tail


def _doc_triples(rng, nss, counter, n):
    """triples for one document: fresh subjects (so the order in which a store hands them out is
    determined by this op alone), absolute IRIs with plain ASCII local names"""
    ts = []
    for _ in range(n):
        counter[0] += 1
        s_ = rng.choice(nss) + "s" + str(counter[0])
        p_ = rng.choice(nss) + rng.choice(DOC_LOCALS)
        if rng.random() < 0.3:
            ts.append([s_, p_, "lit " + str(counter[0]), "l"])
        else:
            # sometimes the object is a namespace IRI itself: compute_qname raises for it unless it is bound to a
            # non-empty prefix; getQName then falls back to store.prefix(uri) of the graph's own store
            ts.append([s_, p_, rng.choice(nss) + (rng.choice(DOC_LOCALS) if rng.random() < 0.75 else ""), "u"])
    return ts


def _trig_contexts(rng, nss, counter):
    """contexts of one TriG document: the default graph and/or one or two named graphs (names in the case's
    namespaces, so that a graph name can use a prefix), 1-3 triples each"""
    kinds = rng.choice([["d", "g"], ["g", "d"], ["g", "g", "d"], ["g"], ["d"], ["g", "g"]])
    out = []
    for kd in kinds:
        counter[0] += 1
        iri = "" if kd == "d" else rng.choice(nss) + "g" + str(counter[0])
        out.append([kd, iri, _doc_triples(rng, nss, counter, rng.randint(1, 3))])
    return out


def _foreign_fields(rng):
    return {"via": rng.choice(["ctor", "setter"]), "fstore": rng.choice(["memory", "simple"]),
            "own": rng.choice(["memory", "simple"])}


def gen_collision_case(rng):
    """a `_x` prefix (not writable in Turtle: the serializer renames it `p_x`) together with real
    `p_x` (and sometimes `pp_x`) prefixes for other namespaces; terms of either namespace first"""
    cfg = _w(rng, [("memory", 3), ("simple", 4), ("dataset", 3), ("foreign", 2)])
    u = rng.choice(["_v", "_a", "_9", "_"])
    pre = [u, "p" + u] + (["pp" + u] if rng.random() < 0.4 else []) + (["v"] if rng.random() < 0.3 else [])
    fam = list(rng.choice(NS_FAMILIES[:2] + NS_FAMILIES[3:]))  # not the XML-namespace family, see gen_case
    rng.shuffle(fam)
    vn = [n for n in fam if ":" in n][: len(pre)]
    while len(vn) < len(pre):
        vn.append("http://x%d.example/" % len(vn))
    binds = [["bind", 0, p, n, True, False] for p, n in zip(pre, vn)]
    rng.shuffle(binds)
    ops, counter = list(binds), [0]
    for _ in range(rng.randint(1, 3)):
        r = rng.random()
        if r < 0.15:
            ops.append(["sertrig", 1, _trig_contexts(rng, vn, counter)])
        elif r < 0.75:
            ops.append(["serdoc", 0, rng.choice(DOC_FORMATS), _doc_triples(rng, vn, counter, rng.randint(2, 4))])
        elif r < 0.9:
            ops.append(["qname", 0, rng.choice(vn) + "x"])
        else:
            ops.append(["bind", 0, rng.choice(pre), rng.choice(vn), True, rng.random() < 0.5])
    case = {"cfg": cfg, "bn": rng.choice(["none", "none", "core"]), "bn1": "rdflib" if cfg == "dataset" else "none",
            "vp": pre, "vn": vn, "ops": ops}
    if cfg == "foreign":
        case.update(_foreign_fields(rng))
    return case


def gen_case(rng, tier, i):
    case = _gen_case(rng, tier, i)
    if i % 4 == 0:  # the category table itself: all 272 blocks are compared at least twice per quick run
        b = (i // 4) % CAT_BLOCKS
        case["ops"].insert(rng.randint(0, len(case["ops"])), ["catrange", b * CAT_BLOCK, (b + 1) * CAT_BLOCK])
    return case


def _gen_case(rng, tier, i):
    if rng.random() < 0.12:
        return gen_collision_case(rng)
    cfg = _w(rng, [("memory", 4), ("simple", 3), ("dataset", 3), ("foreign", 2), ("aggregate", 2)])
    bn = _w(rng, [("none", 55), ("core", 30), ("rdflib", 15)])
    two = rng.random() < 0.35
    bn1 = "rdflib" if cfg == "dataset" else _w(rng, [("none", 6), ("core", 3), ("rdflib", 1)])
    fam = list(rng.choice(NS_FAMILIES))
    rng.shuffle(fam)
    vn = fam[: rng.randint(2, 4)]
    if rng.random() < 0.5:
        vn.append(rng.choice(rng.choice(NS_FAMILIES)))
    if rng.random() < 0.06:
        vn.append("")
    vn = list(dict.fromkeys(vn))
    vp = list(dict.fromkeys(rng.sample(PREFIX_POOL, rng.randint(2, 5))))
    iris = []
    for n in list(vn):
        for _ in range(rng.randint(1, 3)):
            loc = rng.choice(LOCALS) if rng.random() < 0.8 else uni_local(rng)
            iris.append(n + loc)
            # locals that are not NCNames: compute_qname_strict splits later; make that namespace bindable too
            if n and loc in STRICT_HEAD and rng.random() < 0.7:
                vn.append(n + STRICT_HEAD[loc])
    for _ in range(rng.randint(0, 2)):
        iris.append(rng.choice(SPECIAL_IRIS))
    iris = list(dict.fromkeys(iris))
    valid = [u for u in iris if u and not any(c in u for c in '<>" {}|\\^`')] or ["http://e.org/x"]

    def mgr():
        return 1 if two and rng.random() < 0.35 else 0

    def pre(allow_none=True):
        r = rng.random()
        if allow_none and r < 0.07:
            return None
        if r < 0.10:
            return "p q"
        return rng.choice(vp)

    ops = []
    counter = [0]
    # document terms: absolute namespaces, not the XML namespace (split_uri gives IRIs below it a local part
    # with arbitrary characters, e.g. `xml:#s`, which is not Turtle — a syntax matter of C03/C05, not of the prefix table)
    absns = [n for n in vn if ":" in n and not n.startswith(XMLNS)] or ["http://e.org/"]
    n_ops = rng.randint(3, 18 if bn != "rdflib" else 9)
    for _ in range(n_ops):
        qs = [o for o in ops if o[0] in ("qname", "qstrict", "n3", "cq", "cqs", "curie")]
        if qs and rng.random() < 0.12:
            ops.append(list(rng.choice(qs)))  # ask again later: (q, bind, q) interleavings
            continue
        kind = _w(rng, [("bind", 38), ("sbind", 3), ("qname", 12), ("cq", 9), ("cqs", 5), ("qstrict", 3), ("curie", 7),
                        ("n3", 6), ("expand", 4), ("reset", 3), ("parse", 4), ("parsexml", 2), ("ser", 3), ("serdoc", 4), ("sertrig", 2), ("serxml", 3), ("split", 7), ("ncname", 2), ("badinit", 1)])
        if kind == "bind":
            ov, rp = _w(rng, [((True, False), 5), ((False, False), 2), ((True, True), 2), ((False, True), 2)])
            ops.append(["bind", mgr(), pre(), rng.choice(vn), ov, rp])
        elif kind == "sbind":
            ops.append(["sbind", rng.choice(vp), rng.choice(vn), rng.random() < 0.5])
        elif kind in ("qname", "qstrict", "n3"):
            ops.append([kind, mgr(), rng.choice(iris)])
        elif kind in ("cq", "cqs", "curie"):
            ops.append([kind, mgr(), rng.choice(iris), rng.random() < 0.6])
        elif kind == "expand":
            t = _w(rng, [(rng.choice(vp + ["ns1", "rdf"]) + ":" + rng.choice(LOCALS), 8), ("nocolon", 1), (":x", 1)])
            ops.append(["expand", t])
        elif kind == "reset":
            ops.append(["reset", mgr()])
        elif kind == "parse":
            ps = [p for p in vp if p == "" or (p.isascii() and p.isalnum())] or ["t"]
            ns = [n for n in vn if ":" in n] or ["http://e.org/"]  # absolute: a relative one is resolved by the parser
            ops.append(["parse", mgr(), [[rng.choice(ps), rng.choice(ns)] for _ in range(rng.randint(1, 3))]])
        elif kind == "parsexml":
            ps = [p for p in vp if p != "" and " " not in p] or ["t"]
            ns = [n for n in vn if ":" in n and n != XMLNS] or ["http://e.org/"]  # XML forbids declaring the xml namespace
            d, seen = [], {"rdf"}
            for _ in range(rng.randint(0, 2)):
                p = None if rng.random() < 0.3 else rng.choice(ps)
                if p not in seen:
                    seen.add(p)
                    d.append([p, rng.choice(ns)])
            d.insert(rng.randint(0, len(d)), ["rdf", RDFNS])
            ops.append(["parsexml", mgr(), d])
        elif kind == "ser":
            ops.append(["ser", mgr(), rng.choice(valid), rng.choice(valid), rng.choice(valid)])
        elif kind == "split":
            ops.append(["split", gen_split_iri(rng) if rng.random() < 0.8 else rng.choice(iris), rng.random() < 0.35])
        elif kind == "ncname":
            ops.append(["ncname", gen_ncname_probe(rng)])
        elif kind == "badinit":
            ops.append(["badinit", rng.choice(["cc", "cc", "bogus", "RDFLIB", ""])])
        elif kind == "sertrig":
            ops.append(["sertrig", 1, _trig_contexts(rng, absns, counter)])
        elif kind == "serxml":
            # `%`, `(`, `)` are name characters for rdflib's is_ncname but not for XML: an element name with them is
            # not well-formed XML — a syntax defect of the RDF/XML writer, outside this property (see design.d/C17.md)
            xns = [n for n in absns if not any(c in n for c in "%()")] or ["http://e.org/"]
            ts = _doc_triples(rng, absns, counter, rng.randint(1, 4))
            bad = []
            for t in ts:
                loc = rng.choice(XML_LOCALS)
                t[1] = rng.choice(xns) + loc
                if loc == "1":
                    bad.append(t)
            if bad:
                # a predicate the strict split refuses makes serialize() raise; which prefixes were generated before
                # that depends on the iteration order of a *set* of predicates — keep such a predicate alone
                ts = bad[:1]
            m_ = mgr()
            if rng.random() < 0.15:  # the prefix `rdf` bound to a namespace of the document: the writer must refuse (AssertionError)
                ops.append(["bind", m_, "rdf", xns[0], True, True])
                ts[0][1] = xns[0] + rng.choice(DOC_LOCALS)
            ops.append(["serxml", m_, ts])
        elif kind == "serdoc":
            ops.append(["serdoc", mgr(), rng.choice(DOC_FORMATS), _doc_triples(rng, absns, counter, rng.randint(1, 4))])
    if rng.random() < 0.05:
        # `ns<k>` bound to the empty IRI: falsy but not None — the `ns<k>` loops of compute_qname(_strict) take it for free,
        # and binding it anew unbinds the empty namespace (the shape excluded by xml_names_expand_partial)
        k_ = rng.randint(0, len(ops) // 2)
        ops.insert(k_, ["bind", 0, rng.choice(["ns1", "ns1", "ns2"]), "", True, rng.random() < 0.5])
        # … followed, sooner or later, by a strict computation that has to invent a prefix (local name `1a`: the strict
        # split moves the digit into the namespace)
        u_ = rng.choice(absns) + rng.choice(["1a", "٣x"])
        ops.insert(rng.randint(k_ + 1, len(ops)), ["qstrict", 0, u_] if rng.random() < 0.5 else ["cqs", 0, u_, True])
        if "" not in vn:
            vn.append("")
    case = {"cfg": cfg, "bn": bn, "bn1": bn1, "vp": vp, "vn": vn, "ops": ops}
    if cfg == "foreign":
        case.update(_foreign_fields(rng))
    if cfg == "aggregate":
        for op in ops:  # a read-only aggregate cannot be parsed into or given triples: those go through manager 1
            if op[0] in ("parse", "parsexml", "ser", "serdoc", "serxml"):
                op[1] = 1
        # member graphs with bindings of their own: the case's prefixes, bound differently in each member
        case["members"] = [[[p, rng.choice(vn)] for p in rng.sample(vp, min(len(vp), rng.randint(1, 3))) if " " not in p]
                           for _ in range(rng.randint(1, 3))]
    return case


# ---------------------------------------------------------------- elementary steps shared by impl and model


def steps(case):
    """Manager 0 is created first; manager 1 lazily, right before the first op routed through it."""
    out = [["minit", 0, case["bn"]]]
    made1 = False
    for op in case["ops"]:
        if op[0] not in _STATELESS and op[1] == 1 and not made1:
            made1 = True
            out.append(["minit", 1, case["bn1"]])
        out.append(op)
    return out


def _term(x, kind):
    return Literal(x) if kind == "l" else URIRef(x)


def doc_ctx(k):
    return URIRef("http://graphs.example/doc%d" % k)


def doc_store_kind(case, m):
    """kind of the store that holds the triples of a document written through manager m"""
    if case["cfg"] == "foreign":
        return case["own"] if m == 0 else case["fstore"]
    return "simple" if case["cfg"] == "simple" else "memory"


def doc_order(cfg, triples, k):
    """The order in which the store hands the document's triples to the serializer (an input of the
    serializer, not something the property constrains).  SimpleMemory: nested dicts in insertion
    order (subjects are fresh).  Memory: a per-context *set* — its iteration order depends on the
    process' hash seed, so it is read off a scratch store fed the same way."""
    if cfg == "simple":
        out, seen = [], {}
        for s_, p_, o_, kd in triples:
            seen.setdefault(s_, {}).setdefault(p_, {}).setdefault((o_, kd), None)
        for s_, pd in seen.items():
            for p_, od in pd.items():
                for (o_, kd) in od:
                    out.append([s_, p_, o_, kd])
        return out
    g = Graph(store=Memory(), identifier=doc_ctx(k))
    for s_, p_, o_, kd in triples:
        g.add((URIRef(s_), URIRef(p_), _term(o_, kd)))
    return [[str(a), str(b), str(c), "l" if isinstance(c, Literal) else "u"] for a, b, c in g.triples((None, None, None))]


def doc_order_canon(triples):
    """longturtle with canon=True re-sorts the graph through scratch graphs (LongTurtleSerializer.canonize:
    N-Triples lines sorted, parsed into a fresh Graph, de-skolemised into another); the serializer then walks
    that last graph.  Same calls on the same triples in the same process = the same set order."""
    g = Graph(store=Memory())
    for s_, p_, o_, kd in triples:
        g.add((URIRef(s_), URIRef(p_), _term(o_, kd)))
    lines = g.serialize(format="application/n-triples").split("\n")
    lines.sort()
    g2 = Graph()
    g2.parse(data="\n".join(lines), format="application/n-triples", skolemize=True)
    g3 = g2.de_skolemize()
    return [[str(a), str(b), str(c), "l" if isinstance(c, Literal) else "u"] for a, b, c in g3.triples((None, None, None))]


def xml_order(store_kind, triples, k):
    """(set of predicates in its iteration order, predicate of every statement in the order written) as
    XMLSerializer meets them: `set(store.predicates())`, then subjects() / predicate_objects(subject) — read
    off a scratch graph fed the same way in the same process (hash seed)"""
    g = Graph(store=SimpleMemory() if store_kind == "simple" else Memory(), identifier=doc_ctx(k))
    for s_, p_, o_, kd in triples:
        g.add((URIRef(s_), URIRef(p_), _term(o_, kd)))
    preds = [str(p_) for p_ in set(g.predicates())]
    stmts, seen = [], set()
    for s_ in g.subjects():
        if s_ not in seen:
            seen.add(s_)
            stmts += [str(p_) for p_, _o in g.predicate_objects(s_)]
    return preds, stmts


_XML_PROP = re.compile(r"^    <([^\s>/!?]+)", re.M)  # property elements sit one level below rdf:Description
_XMLNS_ATTR = re.compile(r"""\sxmlns(?::([^\s=]+))?=(?:"([^"]*)"|'([^']*)')""")


def xml_prefix_table(text):
    head = text[: text.index(">\n", text.index("<rdf:RDF")) + 1] if "<rdf:RDF" in text else ""
    return [(m.group(1) or "", m.group(2) if m.group(2) is not None else m.group(3)) for m in _XMLNS_ATTR.finditer(head)]


def build_trig_dataset(ctxs, nm0=None, nm1=None):
    """the Dataset written by a sertrig op: a fresh Memory store (so that the order of its contexts and triples
    depends on this op alone), named graphs created through the dataset (they share its manager), then the
    triples context by context"""
    ds = Dataset(store=Memory())
    if nm0 is not None:
        ds.namespace_manager = nm0
        ds.default_context.namespace_manager = nm1
    quads = set()
    for kd, iri, triples in ctxs:
        tgt = ds.default_context if kd == "d" else ds.graph(URIRef(iri))
        for s_, p_, o_, k2 in triples:
            t = (URIRef(s_), URIRef(p_), _term(o_, k2))
            tgt.add(t)
            quads.add(t + ("" if kd == "d" else iri,))
    return ds, quads


def trig_order(ctxs):
    """[(manager index, [(iri, generate)…])…]: the contexts in the order TrigSerializer meets them (the store's
    contexts, then the non-empty default graph once more), each with its name and the nodes of its triples"""
    ds, _q = build_trig_dataset(ctxs)
    seq = list(ds.contexts()) + ([ds.default_context] if len(ds.default_context) else [])
    out = []
    for c in seq:
        if len(c) == 0:
            continue
        qs = [(str(c.identifier), False)] if isinstance(c.identifier, URIRef) else []
        for a, b, o in c.triples((None, None, None)):
            qs += [(str(a), False), (str(b), True)] + ([(str(o), False)] if isinstance(o, URIRef) else [])
        out.append((1 if c.identifier == DATASET_DEFAULT_GRAPH_ID else 0, qs))
    return out


_PREFIX_LINE = re.compile(r"^\s*(?:@prefix|PREFIX)\s+([^\s:]*):\s*<([^>]*)>\s*\.?\s*$")


def doc_prefix_table(text):
    return [m.groups() for m in (_PREFIX_LINE.match(l) for l in text.splitlines()) if m]


def user_prefixes(case):
    # prefixes the history itself supplies (a vocabulary entry that is only looked up, e.g. `ns2`, is not one: if the
    # code invents that very name, which namespace gets it depends on the iteration order of a set of predicates)
    ps = DEFAULT_PREFIXES | {""}
    for op in case["ops"]:
        if op[0] == "bind":
            ps.add(op[2] or "")
        elif op[0] == "sbind":
            ps.add(op[1])
        elif op[0] in ("parse", "parsexml"):
            ps |= {p or "" for p, _n in op[2]}
    return ps


def canon(line, user):
    """Rename prefixes the user never supplied (generated: ns1, a1, default1 …) by the namespace they are
    bound to: the property constrains boundness and expansion, not the spelling of invented names."""
    parts = line.split("|")
    if len(parts) != 4:
        return line
    out, L, P, N = parts
    lp = [x.split(">", 1) for x in L[2:].split(" ")] if len(L) > 2 else []
    gen = {p: "G[" + n + "]" for p, n in lp if p not in user}
    if out.startswith("doc "):
        dd = [x.split(">", 1) for x in out[4:].split(" ")] if len(out) > 4 else []
        def rnq(p):  # `!prefix:local` = an element name of an RDF/XML document
            if p.startswith("!") and ":" in p:
                a, l = p[1:].split(":", 1)
                return "!" + gen.get(a, a) + ":" + l
            return gen.get(p, p)
        out = "doc " + " ".join(sorted(set(rnq(p) + ">" + n for p, n in dd)))
    rn = lambda p: gen.get(p, p)
    L2 = sorted(rn(p) + ">" + n for p, n in lp)
    pp = [x.split(">", 1) for x in P[2:].split(" ")] if len(P) > 2 else []
    # a vocabulary prefix the history never supplied (e.g. `ns2`) is an invented name when bound (renamed) and says
    # nothing when unbound (which of ns1/ns2 is the free one depends on the order in which names were invented)
    P2 = sorted(rn(p) + ">" + n for p, n in pp if p in user or p in gen)
    nn = [x.rsplit(">", 1) for x in N[2:].split(" ")] if len(N) > 2 else []
    N2 = sorted(n + ">" + rn(p) for n, p in nn)
    if out.startswith("qn "):
        p, n, l = out[3:].split(">", 2)
        if p not in user:
            out = "qn G[" + n + "]>" + n + ">" + l
    elif out.startswith("s ") and ":" in out[2:]:
        p, l = out[2:].split(":", 1)
        if p in gen:
            out = "s " + gen[p] + ":" + l
    return out + "|L " + " ".join(L2) + "|P " + " ".join(P2) + "|N " + " ".join(N2)


# ---------------------------------------------------------------- implementation side


def _err(e):
    if isinstance(e, KeyError):
        return "err KeyError"
    if isinstance(e, ValueError):
        return "err ValueError"
    return "err Other"


class Impl:
    def __init__(self, case):
        self.cfg = case["cfg"]
        self.case = case
        self.k = 0
        mk = lambda kind: Memory() if kind == "memory" else SimpleMemory()
        if self.cfg == "dataset":
            self.store = Memory()
            self.ds = Dataset(store=self.store)
        elif self.cfg == "aggregate":
            self.members = []
            for j, binds in enumerate(case["members"]):
                mg = Graph(bind_namespaces=["rdflib", "core", "none"][j % 3])
                for p, n in binds:
                    mg.bind(p, URIRef(n))
                mg.add((URIRef("http://members.example/s%d" % j), URIRef("http://members.example/p"), Literal(j)))
                self.members.append(mg)
            self.agg = ReadOnlyGraphAggregate(self.members)
            self.store = self.agg.store  # the aggregate's own store: the table the property talks about
        elif self.cfg == "foreign":
            self.store = mk(case["fstore"])  # the manager's store: the table the property talks about
            self.own = mk(case["own"])       # the graph's own store: never bound to
        else:
            self.store = Memory() if self.cfg == "memory" else SimpleMemory()
        self.g = [None, None]
        self.doc_problems = []

    def minit(self, m, bn):
        if self.cfg == "dataset":
            if m == 0:
                self.ds.namespace_manager = NamespaceManager(self.ds, bind_namespaces=bn)
                self.g[0] = self.ds
            else:
                self.g[1] = self.ds.default_context
                self.g[1].namespace_manager  # created here, with the default "rdflib" set
        elif self.cfg == "aggregate" and m == 0:
            self.agg.namespace_manager = NamespaceManager(self.agg, bind_namespaces=bn)
            self.g[0] = self.agg
        elif self.cfg == "foreign" and m == 0:
            self.owner = Graph(store=self.store, bind_namespaces=bn)
            nm = self.owner.namespace_manager
            if self.case["via"] == "ctor":
                self.g[0] = Graph(store=self.own, namespace_manager=nm)
            else:
                self.g[0] = Graph(store=self.own)
                self.g[0].namespace_manager = nm
        else:
            self.g[m] = Graph(store=self.store, bind_namespaces=bn)
            self.g[m].namespace_manager

    def serdoc(self, op):
        _k, m, fmt, triples = op
        nm = self.g[m].namespace_manager
        if doc_store_kind(self.case, m) == "simple":
            tmp = self.g[m]
        else:  # a fresh graph (fresh per-context set) on the same store, through the same manager
            st = self.own if (self.cfg == "foreign" and m == 0) else self.store
            tmp = Graph(store=st, identifier=doc_ctx(self.k), namespace_manager=nm)
        ts = [(URIRef(s_), URIRef(p_), _term(o_, kd)) for s_, p_, o_, kd in triples]
        for t in ts:
            tmp.add(t)
        self.doc_problems = []
        try:
            if fmt == "longturtle-canon":
                text = tmp.serialize(format="longturtle", canon=True)
            else:
                text = tmp.serialize(format=fmt)
            return self.check_doc(text, fmt, set(ts)), None
        finally:
            for t in ts:
                tmp.remove(t)
            nm.reset()

    def serxml(self, op):
        _k, m, triples = op
        nm = self.g[m].namespace_manager
        if doc_store_kind(self.case, m) == "simple":
            tmp = self.g[m]
        else:
            st = self.own if (self.cfg == "foreign" and m == 0) else self.store
            tmp = Graph(store=st, identifier=doc_ctx(self.k), namespace_manager=nm)
        ts = [(URIRef(s_), URIRef(p_), _term(o_, kd)) for s_, p_, o_, kd in triples]
        for t in ts:
            tmp.add(t)
        self.doc_problems = []
        try:
            return self.check_doc(tmp.serialize(format="xml"), "xml", set(ts)), None
        finally:
            for t in ts:
                tmp.remove(t)

    def sertrig(self, op):
        nm0, nm1 = self.g[0].namespace_manager, self.g[1].namespace_manager
        ds2, quads = build_trig_dataset(op[2], nm0, nm1)
        self.doc_problems = []
        try:
            return self.check_doc(ds2.serialize(format="trig"), "trig", quads, quads=True), None
        finally:
            nm0.reset()
            nm1.reset()

    def check_doc(self, text, fmt, ts, quads=False):
        """oracle on the OUTPUT of a serialisation (independent of Lean): no prefix declared twice, the text reads
        back as exactly the triples (quads) written; returns the observation line (the @prefix table)"""
        table = xml_prefix_table(text) if fmt == "xml" else doc_prefix_table(text)
        ps = [p for p, _n in table]
        if len(set(ps)) != len(ps):
            self.doc_problems.append("docprefix: a prefix is declared twice in the %s output: %r" % (fmt, sorted(table)))
        try:
            if fmt == "trig":
                rd = Dataset()
                rd.parse(data=text, format="trig")
                cid = lambda c: c.identifier if isinstance(c, Graph) else c
                back = {(a, b, c) + (("" if cid(g_) in (None, DATASET_DEFAULT_GRAPH_ID) else str(cid(g_)),) if quads else ())
                        for a, b, c, g_ in rd.quads((None, None, None, None))}
            else:
                back = set(Graph(bind_namespaces="none").parse(data=text, format="turtle" if fmt.startswith("longturtle") else fmt))
            if back != set(ts):
                self.doc_problems.append(
                    "docroundtrip: the %s output does not read back as the graph; missing %r, unexpected %r, "
                    "prefix table %r" % (fmt, sorted(set(ts) - back)[:2], sorted(back - set(ts))[:2], sorted(table)))
        except Exception as e:  # noqa: BLE001
            self.doc_problems.append("docroundtrip: the %s output cannot be parsed: %s" % (fmt, str(e)[:120]))
        extra = []
        if fmt == "xml":
            # every property element name written, expanded through the document's OWN xmlns table (the model
            # pairs the same name with the predicate it stands for: equal = the name expands back to the predicate)
            d = dict(table)
            for q in _XML_PROP.findall(text):
                a, l = q.split(":", 1) if ":" in q else ("", q)
                exp = d[a] + l if a in d else "?undeclared"
                extra.append("!" + q + ">" + exp)
                if exp not in {str(t_[1]) for t_ in ts}:
                    self.doc_problems.append("docname: element %r of the xml output expands to %r, not a predicate of the graph "
                                             "(xmlns table %r)" % (q, exp, sorted(table)))
        return "doc " + " ".join(sorted(set([p + ">" + n for p, n in table] + extra)))

    def graph(self, m):
        if self.cfg == "dataset" and m == 0 and self.k % 2 == 1:
            return self.ds.graph(G1)  # shares the dataset's manager
        return self.g[m]

    def target(self, m, g):
        """graph to parse into: Dataset.parse goes to the default graph, i.e. through manager 1"""
        if self.cfg != "dataset":
            return g
        return self.ds.graph(G1) if m == 0 else (self.ds if self.k % 2 == 0 else self.g[1])

    def listing(self):
        s = self.store
        src = self.g[0] if self.k % 2 == 0 else s
        L = [(p if isinstance(p, str) else repr(p), str(n)) for p, n in src.namespaces()]
        ps = list(dict.fromkeys(self.case["vp"] + [p for p, _ in L]))
        ns = list(dict.fromkeys(self.case["vn"] + [n for _, n in L]))
        sh = lambda x: "~" if x is None else str(x)
        return ("|L " + " ".join(sorted(p + ">" + n for p, n in L))
                + "|P " + " ".join(sorted(p + ">" + sh(s.namespace(p)) for p in ps))
                + "|N " + " ".join(sorted(n + ">" + sh(s.prefix(URIRef(n))) for n in ns)))

    def do(self, op):
        """returns (out line, structured result or None)"""
        kind = op[0]
        self.k += 1
        alt = self.k % 2 == 0
        if kind == "minit":
            self.minit(op[1], op[2])
            return "ok", None
        if kind == "sbind":
            self.store.bind(op[1], URIRef(op[2]), override=op[3]) if alt else self.store.bind(op[1], URIRef(op[2]), op[3])
            return "ok", None
        if kind == "expand":
            r = self.g[0].namespace_manager.expand_curie(op[1])
            return "s " + str(r), str(r)
        if kind == "serdoc":
            return self.serdoc(op)
        if kind == "sertrig":
            return self.sertrig(op)
        if kind == "serxml":
            return self.serxml(op)
        if kind == "badinit":
            if alt:
                Graph(store=self.store, bind_namespaces=op[1]).namespace_manager
            else:
                NamespaceManager(Graph(store=self.store), bind_namespaces=op[1])
            return "ok", None
        if kind == "split":
            r = _N.split_uri(op[1], _N.NAME_START_CATEGORIES) if op[2] else _N.split_uri(op[1])
            return "split %s>%s" % (str(r[0]), r[1]), (str(r[0]), r[1])
        if kind == "ncname":
            return "nc %d" % _N.is_ncname(op[1]), None
        if kind == "catrange":
            rle = []
            for c in range(op[1], op[2]):
                k = unicodedata.category(chr(c))
                if rle and rle[-1][0] == k:
                    rle[-1][1] += 1
                else:
                    rle.append([k, 1])
            return "cats " + " ".join("%s*%d" % (k, n) for k, n in rle), None
        g = self.graph(op[1])
        nm = g.namespace_manager
        if kind == "bind":
            _k, _m, p, n, ov, rp = op
            nsv = [n, URIRef(n), Namespace(n)][self.k % 3]
            # (a read-only aggregate refuses Graph.bind: its bindings are made through its manager)
            (g if alt and not isinstance(g, ReadOnlyGraphAggregate) else nm).bind(p, nsv, override=ov, replace=rp)
            return "ok", None
        if kind == "cq":
            r = (g if alt else nm).compute_qname(URIRef(op[2]), op[3])
            return "qn %s>%s>%s" % r, (r[0], str(r[1]), r[2])
        if kind == "cqs":
            r = nm.compute_qname_strict(URIRef(op[2]), op[3])
            return "qn %s>%s>%s" % r, (r[0], str(r[1]), r[2])
        if kind == "qname":
            r = (g if alt else nm).qname(URIRef(op[2]))
            return "s " + r, r
        if kind == "qstrict":
            r = nm.qname_strict(URIRef(op[2]))
            return "s " + r, r
        if kind == "curie":
            r = nm.curie(URIRef(op[2]), generate=op[3])
            return "s " + r, r
        if kind == "n3":
            r = URIRef(op[2]).n3(nm)
            return "s " + r, r
        if kind == "reset":
            nm.reset()
            return "ok", None
        if kind == "parse":
            doc = "".join("@prefix %s: <%s> .\n" % (p, n) for p, n in op[2])
            self.target(op[1], g).parse(data=doc if alt else doc.encode("utf-8"), format="turtle")
            return "ok", None
        if kind == "parsexml":
            attrs = " ".join(('xmlns="%s"' % n) if p is None else ('xmlns:%s="%s"' % (p, n)) for p, n in op[2])
            doc = "<rdf:RDF %s></rdf:RDF>" % attrs
            self.target(op[1], g).parse(data=doc, format="xml")
            return "ok", None
        if kind == "ser":
            t = (URIRef(op[2]), URIRef(op[3]), URIRef(op[4]))
            g.add(t)
            try:
                g.serialize(format="turtle") if alt else g.serialize(destination=io.BytesIO(), format="turtle")
            finally:
                g.remove(t)
            return "ok", None
        raise AssertionError(kind)


def _check_bij(im, case, k, viol):
    s = im.store
    L = [(p, str(n)) for p, n in im.g[0].namespaces()]
    if any(not isinstance(p, str) for p, _ in L):
        viol.append(f"bij: after step {k} namespaces() lists a prefix that is not a string: {L!r}"[:300])
        return
    ps, ns = [p for p, _ in L], [n for _, n in L]
    if len(set(ps)) != len(ps):
        viol.append(f"bij: after step {k} namespaces() lists a prefix twice: {sorted(L)}")
    elif len(set(ns)) != len(ns):
        viol.append(f"bij: after step {k} namespaces() lists a namespace twice: {sorted(L)}")
    else:
        for p, n in L:
            a, b = s.namespace(p), s.prefix(URIRef(n))
            if a is None or str(a) != n or b != p:
                viol.append(f"bij: after step {k} ({p!r},{n!r}) listed but namespace({p!r})={a!r}, prefix({n!r})={b!r}")
                return
        d = dict(L)
        for p in case["vp"]:
            a = s.namespace(p)
            if a is not None and d.get(p) != str(a):
                viol.append(f"bij: after step {k} namespace({p!r})={a!r} not in namespaces()")
                return
        for n in case["vn"]:
            b = s.prefix(URIRef(n))
            if b is not None and d.get(b) != n:
                viol.append(f"bij: after step {k} prefix({n!r})={b!r} not in namespaces()")
                return


def _check_q(im, op, res, k, viol):
    kind = op[0]
    now = {p: str(n) for p, n in im.g[0].namespaces()}  # the graph's public listing
    if kind in ("cq", "cqs"):
        u = op[2]
        p, n, l = res
        if now.get(p) != n:
            viol.append(f"bound: step {k} {kind}({u!r}) = {res!r} but {p!r} is bound to {now.get(p)!r} now")
        elif n + l != u:
            viol.append(f"expand: step {k} {kind}({u!r}) = {res!r} expands to {n + l!r}")
        return True
    if kind in ("qname", "qstrict", "curie", "n3"):
        u = op[2]
        if kind == "n3" and res == "<%s>" % u:
            return False
        cands = [tuple(res.split(":", 1))] if ":" in res else []
        if kind in ("qname", "qstrict"):
            cands.append(("", res))  # the empty prefix is printed as the bare name
        if not any(p in now for p, _l in cands):
            viol.append(f"bound: step {k} {kind}({u!r}) = {res!r} uses a prefix that is not bound now")
        elif not any(p in now and now[p] + l == u for p, l in cands):
            viol.append(f"expand: step {k} {kind}({u!r}) = {res!r} does not expand to the IRI")
        elif kind in ("curie", "n3") or (cands and ":" in res and cands[0][0] in now and now[cands[0][0]] + cands[0][1] == u):
            # the text p:l that curie()/n3()/qname() answered must expand back through expand_curie itself
            try:
                back = str(im.g[0].namespace_manager.expand_curie(res))
            except Exception as e:  # noqa: BLE001
                back = repr(e)
            if back != u:
                viol.append(f"expinv: step {k} expand_curie({res!r}) = {back!r}, not {u!r}")
        return True
    return False


def run_impl(case):
    im = Impl(case)
    user = user_prefixes(case)
    obs, viol = [], []
    stats = {"ops": len(case["ops"]), "cfg_" + case["cfg"]: 1, "bn_" + case["bn"]: 1}
    if case["cfg"] == "foreign":
        stats["foreign_" + case["via"]] = 1
    if case["cfg"] == "aggregate":
        stats["aggregate_members_%d" % len(case["members"])] = 1
    rebound = False
    nontrivial = False
    for k, op in enumerate(steps(case)):
        kind = op[0]
        stats["op_" + kind] = stats.get("op_" + kind, 0) + 1
        if kind in ("bind", "sbind"):
            p, n = (op[2] or "", op[3]) if kind == "bind" else (op[1], op[2])
            if im.store.namespace(p) is not None or im.store.prefix(URIRef(n)) is not None:
                rebound = True
                stats["bind_on_bound"] = stats.get("bind_on_bound", 0) + 1
        before = len(list(im.store.namespaces()))
        try:
            out, res = im.do(op)
        except Exception as e:  # noqa: BLE001
            out, res = _err(e), None
            stats["err_" + out[4:]] = stats.get("err_" + out[4:], 0) + 1
            if kind in ("bind", "sbind", "minit", "parse", "parsexml", "reset", "ser", "serdoc", "sertrig") and not (
                    kind == "bind" and op[2] is not None and " " in op[2]):
                viol.append(f"raises-{type(e).__name__}: step {k} {kind} raised {type(e).__name__}: {str(e)[:80]}")
        if kind not in ("bind", "sbind", "minit", "parse", "parsexml") and len(list(im.store.namespaces())) > before:
            stats["generated"] = stats.get("generated", 0) + 1
        if kind in ("serdoc", "sertrig", "serxml"):
            viol += ["%s (step %d)" % (x, k) for x in im.doc_problems]
            im.doc_problems = []
            fm = op[2] if kind == "serdoc" else ("trig-dataset" if kind == "sertrig" else "xml")
            stats["serdoc_" + fm] = stats.get("serdoc_" + fm, 0) + 1
        _check_bij(im, case, k, viol)
        if kind == "split" and res is not None:
            stats["split_ok"] = stats.get("split_ok", 0) + 1
            if res[0] + res[1] != op[1]:
                viol.append(f"expand: step {k} split_uri({op[1]!r}) = {res!r} does not concatenate to the IRI")
        elif res is not None and kind != "expand":
            if _check_q(im, op, res, k, viol):
                stats["prefixed_result"] = stats.get("prefixed_result", 0) + 1
                if rebound:
                    nontrivial = True
        obs.append(canon(out + im.listing(), user))
    return {"obs": obs, "viol": viol, "nontrivial": nontrivial, "key": repr(case), "stats": stats}


# ---------------------------------------------------------------- model side


def _e(s):
    if s is None:
        return "N"
    return "-" if s == "" else ".".join(str(ord(c)) for c in s)


def _b(x):
    return "1" if x else "0"


def model_lines(case):
    lines = ["new", "vocab " + " ".join(_e(p) for p in case["vp"]) + " | " + " ".join(_e(n) for n in case["vn"])]
    for idx, op in enumerate(steps(case)):
        k = op[0]
        if k == "minit":
            lines.append(f"minit {op[1]} {op[2]}")
        elif k == "bind":
            lines.append(f"bind {op[1]} {_e(op[2])} {_e(op[3])} {_b(op[4])} {_b(op[5])}")
        elif k == "sbind":
            lines.append(f"sbind {_e(op[1])} {_e(op[2])} {_b(op[3])}")
        elif k in ("cq", "cqs", "curie"):
            lines.append(f"{k} {op[1]} {_e(op[2])} {_b(op[3])}")
        elif k in ("qname", "qstrict", "n3"):
            lines.append(f"{k} {op[1]} {_e(op[2])}")
        elif k == "expand":
            lines.append(f"expand {_e(op[1])}")
        elif k == "split":
            lines.append(f"split {_b(op[2])} {_e(op[1])}")
        elif k == "ncname":
            lines.append(f"ncname {_e(op[1])}")
        elif k == "catrange":
            lines.append(f"catrange {op[1]} {op[2]}")
        elif k == "reset":
            lines.append(f"reset {op[1]}")
        elif k in ("parse", "parsexml"):
            lines.append(f"{k} {op[1]} " + " ".join(_e(p) + " " + _e(n) for p, n in op[2]))
        elif k == "ser":
            lines.append(f"ser {op[1]} {_e(op[2])} {_e(op[3])} {_e(op[4])}")
        elif k == "badinit":
            lines.append("minit 0 " + ("cc" if op[1] == "cc" else "bogus"))
        elif k == "serxml":
            preds, stmts = xml_order(doc_store_kind(case, op[1]), op[2], idx + 1)
            lines.append(f"serxml {op[1]} " + " ".join(_e(u) for u in preds) + " / " + " ".join(_e(u) for u in stmts))
        elif k == "sertrig":
            # fb = 0: the written dataset lives on a store of its own, which holds no bindings
            lines.append("sertrig 0 " + " / ".join(
                " ".join([str(m)] + [x for u, g in qs for x in (_e(u), _b(g))]) for m, qs in trig_order(op[2])))
        elif k == "serdoc":
            kind_ = doc_store_kind(case, op[1])
            qs = []
            if op[2] == "trig" and kind_ != "simple":
                qs += [_e(str(doc_ctx(idx + 1))), "0"]  # TrigSerializer: getQName(context.identifier, False) first
            order = doc_order_canon(op[3]) if op[2] == "longturtle-canon" else doc_order(kind_, op[3], idx + 1)
            for s_, p_, o_, kd in order:
                qs += [_e(s_), "0", _e(p_), "1"] + ([_e(o_), "0"] if kd == "u" else [])
            # getQName's fallback reads the own store of the graph being written: a borrowed manager's graph and
            # the scratch graph of longturtle's canon=True hold no bindings
            fb = "0" if ((case["cfg"] == "foreign" and op[1] == 0) or op[2] == "longturtle-canon") else "1"
            lines.append(f"serdoc {op[1]} {fb} " + " ".join(qs))
        else:
            raise AssertionError(k)
    return lines


def select_model_obs(case, out):
    user = user_prefixes(case)
    return [canon(l, user) for l in out[2:]]


def shrink(case):
    ops = case["ops"]
    for i in range(len(ops)):
        yield {**case, "ops": ops[:i] + ops[i + 1:]}
    if case["bn"] != "none":
        yield {**case, "bn": "none"}
    if case["cfg"] != "memory":
        yield {**case, "cfg": "memory", "bn1": "none"}
    if case["cfg"] == "aggregate":
        ms = case["members"]
        for j in range(len(ms)):
            if len(ms) > 1:
                yield {**case, "members": ms[:j] + ms[j + 1:]}
            for t in range(len(ms[j])):
                yield {**case, "members": ms[:j] + [ms[j][:t] + ms[j][t + 1:]] + ms[j + 1:]}
    for i, op in enumerate(ops):
        if op[0] not in _STATELESS and op[1] == 1:
            yield {**case, "ops": ops[:i] + [[op[0], 0] + op[2:]] + ops[i + 1:]}
        if op[0] == "serdoc" and len(op[3]) > 1:
            for j in range(len(op[3])):
                yield {**case, "ops": ops[:i] + [[op[0], op[1], op[2], op[3][:j] + op[3][j + 1:]]] + ops[i + 1:]}
        if op[0] == "serxml" and len(op[2]) > 1:
            for j in range(len(op[2])):
                yield {**case, "ops": ops[:i] + [[op[0], op[1], op[2][:j] + op[2][j + 1:]]] + ops[i + 1:]}
        if op[0] == "sertrig":
            for j in range(len(op[2])):
                if len(op[2]) > 1:
                    yield {**case, "ops": ops[:i] + [[op[0], op[1], op[2][:j] + op[2][j + 1:]]] + ops[i + 1:]}
                kd, iri, ts = op[2][j]
                for t in range(len(ts)):
                    if len(ts) > 1:
                        yield {**case, "ops": ops[:i] + [[op[0], op[1], op[2][:j] + [[kd, iri, ts[:t] + ts[t + 1:]]] + op[2][j + 1:]]] + ops[i + 1:]}
        if op[0] in ("parse", "parsexml") and len(op[2]) > 1:
            for j in range(len(op[2])):
                if op[0] == "parsexml" and op[2][j][0] == "rdf":
                    continue  # the document needs its rdf: declaration
                yield {**case, "ops": ops[:i] + [[op[0], op[1], op[2][:j] + op[2][j + 1:]]] + ops[i + 1:]}
    used = {x for op in ops for x in op if isinstance(x, str)} | {p for op in ops if op[0] in ("parse", "parsexml")
                                                                   for pn in op[2] for p in pn if isinstance(p, str)}
    for key in ("vp", "vn"):
        small = [x for x in case[key] if x in used]
        if len(small) < len(case[key]):
            yield {**case, key: small}


# ---------------------------------------------------------------- known findings (all fixed on branch fix-C17)


def _kinds(case):
    return [o[0] for o in case["ops"]]


def _m_stale(case, result):
    """qname-family call, a bind that moves the namespace to another prefix, the same call again"""
    ks = _kinds(case)
    q = {"qname", "cq", "cqs", "curie", "n3", "qstrict", "ser"}
    return (len(ks) <= 4 and any(k in ("bind", "sbind", "parse", "parsexml") for k in ks) and sum(k in q for k in ks) >= 2
            and any(v.startswith("bound:") for v in result["viol"]))


def _m_nonoverride(case, result):
    """bind with override=False reaching the store with prefix and namespace both bound, to different partners"""
    return (any((o[0] == "bind" and not o[4]) or (o[0] == "sbind" and not o[3]) or o[0] == "parsexml" for o in case["ops"])
            and len(case["ops"]) <= 4 and any(v.startswith("bij:") for v in result["viol"]))


def _m_xmlns(case, result):
    """an IRI that contains the XML namespace twice"""
    return any(isinstance(x, str) and x.count(XMLNS) >= 2 for o in case["ops"] for x in o) and any(
        v.startswith("expand:") for v in result["viol"])


MATCHERS = {"stale_qname_cache": _m_stale, "nonoverride_bind_breaks_bijection": _m_nonoverride,
            "xmlns_split_twice": _m_xmlns}
