"""C12 — small independent document writers (no rdflib serializer is used).

A concrete document is a list of quads (s, p, o, g); a term is one of
    ("i", iri)                IRI
    ("l", lex, dt|None, lang|None)   literal
    ("n", label)              blank node written with the label `_:label` / rdf:nodeID / <id> …
    ("a", k)                  anonymous blank node number k of this document ([] …)
g is a term or None (the document's default graph).

Shape contract for anonymous nodes (the generator guarantees it, `check_shape` verifies it):
  * all quads mentioning one anonymous node are consecutive and in one graph block;
  * it occurs at most once as an object, and that quad precedes its subject quads;
  * or it is the graph name of exactly one block and occurs nowhere else.
"""
from __future__ import annotations

import json
from xml.sax.saxutils import escape, quoteattr

RDFNS = "http://www.w3.org/1999/02/22-rdf-syntax-ns#"
XSD = "http://www.w3.org/2001/XMLSchema#"
NS_E = "http://e/"

TRIPLE_FMTS = ["nt", "turtle", "n3", "xml", "json-ld"]
QUAD_FMTS = ["nquads", "trig", "trix", "json-ld", "hext"]
ANON_SO = {"turtle", "n3", "trig", "xml", "json-ld"}     # anonymous subject / object syntax
ANON_G = {"trig", "trix"}                                # anonymous graph name syntax
NO_DEFAULT = {"trix"}                                    # cannot write into "the default graph"


def blocks(quads):
    """consecutive runs of quads with the same graph name"""
    out = []
    for q in quads:
        if out and out[-1][0] == q[3]:
            out[-1][1].append(q)
        else:
            out.append((q[3], [q]))
    return out


def check_shape(quads, formulas=False):
    """formulas=True (N3): an anonymous node may be a formula `{ … }`: it names the graph of its inner statements
    (all consecutive, right after its single outer occurrence as subject or object)."""
    anon = {}
    for idx, q in enumerate(quads):
        for pos, t in enumerate(q):
            if t is not None and t[0] == "a":
                anon.setdefault(t, []).append((idx, pos))
    for a, occ in anon.items():
        idxs = sorted({i for i, _ in occ})
        if idxs != list(range(idxs[0], idxs[-1] + 1)):
            raise ValueError("anonymous node not consecutive")
        if any(pos == 3 for _, pos in occ):
            outer = [(i, pos) for i, pos in occ if pos != 3]
            if outer:
                if not formulas:
                    raise ValueError("anonymous graph name also used as a node")
                if len(outer) != 1 or outer[0][0] != idxs[0] or outer[0][1] == 1:
                    raise ValueError("formula: exactly one outer occurrence (subject or object), before its statements")
            elif formulas:
                raise ValueError("n3: statements of a formula that occurs nowhere")
            continue
        if len({quads[i][3] for i in idxs}) != 1:
            raise ValueError("anonymous node spans graphs")
        objs = [i for i, pos in occ if pos == 2]
        if len(objs) > 1 or (objs and objs[0] != idxs[0]):
            raise ValueError("anonymous node: object occurrence must be unique and first")
        if any(pos == 1 for _, pos in occ):
            raise ValueError("anonymous predicate")


# ---------------------------------------------------------------- N-Triples / N-Quads


def _nt_esc(s):
    return s.replace("\\", "\\\\").replace('"', '\\"').replace("\n", "\\n").replace("\r", "\\r")


def nt_term(t):
    if t[0] == "i":
        return "<%s>" % t[1]
    if t[0] == "n":
        return "_:%s" % t[1]
    if t[0] == "l":
        s = '"%s"' % _nt_esc(t[1])
        if t[3]:
            return s + "@" + t[3]
        if t[2]:
            return s + "^^<%s>" % t[2]
        return s
    raise ValueError("no anonymous-node syntax in N-Triples/N-Quads")


def write_nt(quads, style):
    lines = []
    for s, p, o, g in quads:
        if g is not None:
            raise ValueError("nt: named graph")
        lines.append("%s %s %s ." % (nt_term(s), nt_term(p), nt_term(o)))
    if style.get("comment"):        # N-Triples allows comment lines and blank lines between the statements
        lines = ["# c12", ""] + lines[:1] + ["", "   # c12"] + lines[1:]
    sep = "\n" if not style.get("crlf") else "\r\n"
    return sep.join(lines) + sep


def write_nquads(quads, style):
    lines = []
    for s, p, o, g in quads:
        tail = "" if g is None else " " + nt_term(g)
        lines.append("%s %s %s%s ." % (nt_term(s), nt_term(p), nt_term(o), tail))
    if style.get("comment"):
        lines = ["# c12", ""] + lines[:1] + ["", "   # c12"] + lines[1:]
    return "\n".join(lines) + "\n"


# ---------------------------------------------------------------- Turtle / N3 / TriG


def _ttl_ground(t, style):
    if t[0] == "i":
        if style.get("prefix") and t[1].startswith(NS_E) and t[1][len(NS_E):].isalnum():
            return "e:" + t[1][len(NS_E):]
        return "<%s>" % t[1]
    if t[0] == "n":
        return "_:%s" % t[1]
    if t[0] == "l":
        if t[3] is None and t[2] == XSD + "integer" and style.get("short") and t[1].isdigit():
            return t[1]
        if t[3] is None and t[2] == XSD + "boolean" and style.get("short") and t[1] in ("true", "false"):
            return t[1]
        s = '"%s"' % _nt_esc(t[1])
        if t[3]:
            return s + "@" + t[3]
        if t[2]:
            return s + "^^" + _ttl_ground(("i", t[2]), style)
        return s
    raise ValueError(t)


def _ttl_block(qs, style, ind, formulas=None):
    """statements for one run of quads of one graph; formulas (N3): anonymous node -> its inner statements"""
    formulas = formulas or {}

    def formula_text(a):
        return "{ " + " ".join(_ttl_block(formulas[a], style, "", formulas)) + " }"

    subj_of = {}
    for q in qs:
        if q[0][0] == "a":
            subj_of.setdefault(q[0], []).append(q)
    obj_anon = {q[2] for q in qs if q[2][0] == "a"}

    def coll_items(o):
        """items of the collection whose head cell is o, or None if o is not a well-formed cell chain"""
        items = []
        while True:
            inner = subj_of.get(o, [])
            if len(inner) != 2 or inner[0][1] != ("i", RDFNS + "first") or inner[1][1] != ("i", RDFNS + "rest"):
                return None
            items.append(inner[0][2])
            nxt = inner[1][2]
            if nxt == ("i", RDFNS + "nil"):
                return items
            if nxt[0] != "a":
                return None
            o = nxt

    def obj_text(o):
        if o[0] != "a":
            return _ttl_ground(o, style)
        if o in formulas:
            return formula_text(o)
        inner = subj_of.get(o, [])
        if not inner:
            return "[]"
        items = coll_items(o) if not style.get("nocoll") else None
        if items is not None:
            return "( " + " ".join(obj_text(x) for x in items) + " )"
        return "[ " + " ; ".join("%s %s" % (_ttl_ground(q[1], style), obj_text(q[2])) for q in inner) + " ]"

    out = []
    done = set()
    i = 0
    while i < len(qs):
        q = qs[i]
        if id(q) in done:
            i += 1
            continue
        s = q[0]
        if s[0] == "a" and s not in formulas:
            if s in obj_anon:       # written nested inside its object occurrence
                i += 1
                continue
            inner = subj_of[s]
            for x in inner:
                done.add(id(x))
            if style.get("n3path") and len(inner) >= 2 and inner[0][2][0] in "in":
                # N3 path  O^P Q O2 .   (the node X with  X P O)
                body = " ; ".join("%s %s" % (_ttl_ground(x[1], style), obj_text(x[2])) for x in inner[1:])
                out.append("%s%s^%s %s ." % (ind, _ttl_ground(inner[0][2], style), _ttl_ground(inner[0][1], style), body))
                i += 1
                continue
            body = " ; ".join("%s %s" % (_ttl_ground(x[1], style), obj_text(x[2])) for x in inner)
            if style.get("anonstyle"):
                out.append("%s[ %s ] ." % (ind, body))
            else:
                out.append("%s[] %s ." % (ind, body))
            i += 1
            continue
        if (style.get("n3path") and s not in formulas and q[2][0] == "a" and q[2] not in formulas
                and subj_of.get(q[2]) and coll_items(q[2]) is None):
            # N3 path  S!P Q O .   (the node X with  S P X)
            done.add(id(q))
            body = " ; ".join("%s %s" % (_ttl_ground(x[1], style), obj_text(x[2])) for x in subj_of[q[2]])
            out.append("%s%s!%s %s ." % (ind, _ttl_ground(s, style), _ttl_ground(q[1], style), body))
            i += 1
            continue
        # group following quads with the same subject (and predicate) when asked to
        group = [q]
        done.add(id(q))
        if style.get("group"):
            j = i + 1
            while j < len(qs) and qs[j][0] == s and id(qs[j]) not in done:
                group.append(qs[j])
                done.add(id(qs[j]))
                j += 1
        parts, k = [], 0
        while k < len(group):
            p = group[k][1]
            objs = [obj_text(group[k][2])]
            k += 1
            while style.get("group") and k < len(group) and group[k][1] == p:
                objs.append(obj_text(group[k][2]))
                k += 1
            parts.append("%s %s" % (_ttl_ground(p, style), " , ".join(objs)))
        out.append("%s%s %s ." % (ind, formula_text(s) if s in formulas else _ttl_ground(s, style), " ; ".join(parts)))
        i += 1
    return out


def _ttl_head(style):
    if not style.get("prefix"):
        return []
    return ["PREFIX e: <%s>" % NS_E] if style.get("sparqlprefix") else ["@prefix e: <%s> ." % NS_E]


def write_turtle(quads, style):
    if any(q[3] is not None for q in quads):
        raise ValueError("turtle: named graph")
    return "\n".join(_ttl_head(style) + _ttl_block(quads, style, "")) + "\n"


def write_trig(quads, style):
    out = _ttl_head(style)
    for g, qs in blocks(quads):
        if g is None:
            if style.get("bracedefault"):
                out += ["{"] + _ttl_block(qs, style, "  ") + ["}"]
            else:
                out += _ttl_block(qs, style, "")
            continue
        name = "[]" if g[0] == "a" else _ttl_ground(g, style)
        kw = "GRAPH " if style.get("graphkw") else ""
        out += ["%s%s {" % (kw, name)] + _ttl_block(qs, style, "  ") + ["}"]
    return "\n".join(out) + "\n"


# ---------------------------------------------------------------- RDF/XML


def _xml_qname(iri):
    if iri.startswith(RDFNS):
        return "rdf:" + iri[len(RDFNS):]
    if not iri.startswith(NS_E):
        raise ValueError("predicate outside the e: / rdf: namespaces")
    return "e:" + iri[len(NS_E):]


def _chain_items(o, subj_of):
    """items of the rdf:first/rdf:rest chain starting at the anonymous node o, or None"""
    items = []
    while True:
        inner = subj_of.get(o, [])
        if len(inner) != 2 or inner[0][1] != ("i", RDFNS + "first") or inner[1][1] != ("i", RDFNS + "rest"):
            return None
        items.append(inner[0][2])
        nxt = inner[1][2]
        if nxt == ("i", RDFNS + "nil"):
            return items
        if nxt[0] != "a":
            return None
        o = nxt


def _xml_attrs(pairs):
    """property attributes  e:q="lit" …  (plain literals about the element's node)"""
    return "".join(" %s=%s" % (_xml_qname(p[1]), quoteattr(l[1])) for p, l in pairs)


def _xml_foldable(x):
    """can the statement be written as a property attribute?  (e: predicate, plain literal)"""
    return x[1][0] == "i" and x[1][1].startswith(NS_E) and x[2][0] == "l" and not x[2][2] and not x[2][3]


def _xml_props(qs, anon_subj, style, ind, fold=None):
    """fold = (skip, attrs_of): ids of statements written elsewhere as property attributes, and for an empty property
    element (rdf:resource / rdf:nodeID) the property attributes it carries"""
    skip, attrs_of = fold or (set(), {})
    out = []
    for q in qs:
        if id(q) in skip:
            continue
        tag, o = _xml_qname(q[1][1]), q[2]
        if o[0] == "i":
            out.append("%s<%s rdf:resource=%s%s/>" % (ind, tag, quoteattr(o[1]), _xml_attrs(attrs_of.get(id(q), []))))
        elif o[0] == "n":
            out.append("%s<%s rdf:nodeID=%s%s/>" % (ind, tag, quoteattr(o[1]), _xml_attrs(attrs_of.get(id(q), []))))
        elif o[0] == "l":
            att = ""
            if o[3]:
                att = " xml:lang=%s" % quoteattr(o[3])
            elif o[2]:
                att = " rdf:datatype=%s" % quoteattr(o[2])
            out.append("%s<%s%s>%s</%s>" % (ind, tag, att, escape(o[1]), tag))
        else:  # anonymous object, its own statements nested
            own = anon_subj.get(o, [])
            items = _chain_items(o, anon_subj) if not style.get("nocoll") else None
            if items is not None and all(x[0] in "in" for x in items):
                out.append("%s<%s rdf:parseType=\"Collection\">" % (ind, tag))
                for x in items:
                    out.append("%s  <rdf:Description %s=%s/>" % (ind, "rdf:about" if x[0] == "i" else "rdf:nodeID", quoteattr(x[1])))
                out.append("%s</%s>" % (ind, tag))
                continue
            if (style.get("propattr") and own and all(x[2][0] == "l" and not x[2][2] and not x[2][3] for x in own)
                    and len({x[1] for x in own}) == len(own) and all(x[1][1].startswith(NS_E) for x in own)):
                # property attributes on an empty property element: a fresh node with those literal properties
                out.append("%s<%s %s/>" % (ind, tag, " ".join("%s=%s" % (_xml_qname(x[1][1]), quoteattr(x[2][1])) for x in own)))
                continue
            inner = _xml_props(own, anon_subj, style, ind + "    ", fold)
            if style.get("anonstyle") and inner:
                out += ["%s<%s rdf:parseType=\"Resource\">" % (ind, tag)] + inner + ["%s</%s>" % (ind, tag)]
            else:
                out += ["%s<%s>" % (ind, tag), "%s  <rdf:Description>" % ind] + inner + \
                       ["%s  </rdf:Description>" % ind, "%s</%s>" % (ind, tag)]
    return out


def write_xml(quads, style):
    """Spelling choices for the productions that can carry rdf:nodeID (or stand for a node):
      node element        <rdf:Description rdf:nodeID|rdf:about|-  [property attributes]>   (style nodeattr)
                          typed node element  <e:T …>  for an rdf:type statement               (style typednode)
      empty property elt  <e:p rdf:nodeID|rdf:resource  [property attributes]/>               (style nodeidattr)
                          <e:p [property attributes]/>   (anonymous object; style propattr)
      parseType           Resource (anonstyle), Collection (items: rdf:Description rdf:about|rdf:nodeID)"""
    if any(q[3] is not None for q in quads):
        raise ValueError("xml: named graph")
    anon_subj = {}
    for q in quads:
        if q[0][0] == "a":
            anon_subj.setdefault(q[0], []).append(q)
    obj_anon = {q[2] for q in quads if q[2][0] == "a"}
    skip, attrs_of = set(), {}
    if style.get("nodeidattr"):
        # <e:p rdf:nodeID="x" e:q="lit"/>  =  s p _:x .  _:x q "lit" .   (likewise rdf:resource): the first reference to a
        # node as an object takes that node's plain-literal statements (one per predicate) as property attributes
        done = set()
        for q in quads:
            o = q[2]
            if o[0] not in "ni" or o in done or id(q) in skip or q[1] == ("i", RDFNS + "first"):
                continue            # (an rdf:first statement may be written as a parseType="Collection" item, not a property element)
            pairs, preds = [], set()
            for x in quads:
                if x is not q and x[0] == o and id(x) not in skip and id(x) not in attrs_of and _xml_foldable(x) and x[1] not in preds:
                    preds.add(x[1])
                    pairs.append((x[1], x[2]))
                    skip.add(id(x))
            if pairs:
                attrs_of[id(q)] = pairs
                done.add(o)
    fold = (skip, attrs_of)
    items, seen = [], {}
    for q in quads:
        if id(q) in skip:
            continue
        s = q[0]
        if s[0] == "a":
            if s not in obj_anon and s not in seen:
                seen[s] = True
                items.append((s, anon_subj[s]))
        elif style.get("group"):
            if s in seen:
                seen[s].append(q)
            else:
                seen[s] = [q]
                items.append((s, seen[s]))
        else:
            items.append((s, [q]))
    out = ['<?xml version="1.0" encoding="utf-8"?>',
           '<rdf:RDF xmlns:rdf="%s" xmlns:e="%s">' % (RDFNS, NS_E)]
    for s, qs in items:
        qs = [q for q in qs if id(q) not in skip]
        if s[0] == "i":
            att = " rdf:about=%s" % quoteattr(s[1])
        elif s[0] == "n":
            att = " rdf:nodeID=%s" % quoteattr(s[1])
        else:
            att = ""
        name = "rdf:Description"
        if style.get("typednode"):
            for q in qs:
                if (q[1] == ("i", RDFNS + "type") and q[2][0] == "i" and q[2][1].startswith(NS_E)
                        and q[2][1][len(NS_E):].isalnum() and id(q) not in attrs_of):
                    name = "e:" + q[2][1][len(NS_E):]          # typed node element
                    qs = [x for x in qs if x is not q]
                    break
        if style.get("nodeattr"):
            pairs, preds = [], set()
            for q in qs:
                if _xml_foldable(q) and q[1] not in preds:
                    preds.add(q[1])
                    pairs.append((q[1], q[2]))
            if pairs:
                taken = set()
                rest = []
                for q in qs:
                    if _xml_foldable(q) and q[1] not in taken and (q[1], q[2]) in pairs:
                        taken.add(q[1])
                    else:
                        rest.append(q)
                qs = rest
                att += _xml_attrs(pairs)
        out += ["  <%s%s>" % (name, att)] + _xml_props(qs, anon_subj, style, "    ", fold) + ["  </%s>" % name]
    out.append("</rdf:RDF>")
    return "\n".join(out) + "\n"


# ---------------------------------------------------------------- TriX


def _trix_term(t):
    if t[0] == "i":
        return "<uri>%s</uri>" % escape(t[1])
    if t[0] == "n":
        return "<id>%s</id>" % escape(t[1])
    if t[0] == "l":
        if t[3]:
            return "<plainLiteral xml:lang=%s>%s</plainLiteral>" % (quoteattr(t[3]), escape(t[1]))
        if t[2]:
            return "<typedLiteral datatype=%s>%s</typedLiteral>" % (quoteattr(t[2]), escape(t[1]))
        return "<plainLiteral>%s</plainLiteral>" % escape(t[1])
    raise ValueError("no anonymous subject/object syntax in TriX")


def write_trix(quads, style):
    out = ['<?xml version="1.0" encoding="utf-8"?>', '<TriX xmlns="http://www.w3.org/2004/03/trix/trix-1/">']
    for g, qs in blocks(quads):
        if g is None:
            raise ValueError("trix: no default graph")
        out.append("  <graph>")
        if g[0] != "a":
            out.append("    " + _trix_term(g))
        for s, p, o, _ in qs:
            out.append("    <triple>%s%s%s</triple>" % (_trix_term(s), _trix_term(p), _trix_term(o)))
        out.append("  </graph>")
    out.append("</TriX>")
    nl = "\n" if style.get("group") else ""
    return nl.join(out) + "\n"


# ---------------------------------------------------------------- JSON-LD (expanded form)


EMPTY_ID = "@empty"      # pseudo-label: written as "@id": "" under "@base": null (generalized RDF: a per-document stand-in node)


def _jl_id(t):
    if t[0] == "i":
        return t[1]
    return "" if t[1] == EMPTY_ID else "_:" + t[1]


def _jl_term_name(iri):
    return "t_" + iri.rsplit("/", 1)[-1].replace("#", "_")


def _jl_nodes(qs, style, terms):
    """node objects for one run of quads of one graph.  style["jl"]: None | "coerce" (compact terms with "@type": "@id"
    and a property-scoped context; IRI / blank-node objects as plain strings) | "reverse" ("@reverse" maps) ;
    style["typekw"]: rdf:type statements as "@type"; collections as {"@list": …} unless style["nocoll"].
    `terms` collects the term definitions the context must carry."""
    mode = style.get("jl")
    subj_of = {}
    for q in qs:
        subj_of.setdefault(q[0], []).append(q)
    obj_anon = {q[2] for q in qs if q[2][0] == "a"}

    def obj(o):
        if o[0] in "in":
            return {"@id": _jl_id(o)}
        if o[0] == "l":
            d = {"@value": o[1]}
            if o[3]:
                d["@language"] = o[3]
            elif o[2]:
                d["@type"] = o[2]
            return d
        items = _chain_items(o, subj_of) if not style.get("nocoll") else None
        if items is not None:
            return {"@list": [obj(x) for x in items]}       # (an item that is itself a chain gives a list of lists)
        return props(o, subj_of.get(o, []))

    def props(s, qs_):
        d = {}
        if s[0] != "a":
            d["@id"] = _jl_id(s)
        for q in qs_:
            p, o = q[1], q[2]
            if style.get("typekw") and p == ("i", RDFNS + "type") and o[0] in "in" and o[1] != EMPTY_ID:
                d.setdefault("@type", []).append(_jl_id(o))
                continue
            if mode == "coerce" and p[0] == "i" and o[0] in "in" and o[1] != EMPTY_ID:
                name = _jl_term_name(p[1])
                terms[name] = {"@id": p[1], "@type": "@id", "@context": {"zz": NS_E + "zz"}}
                d.setdefault(name, []).append(_jl_id(o))
                continue
            key = p[1] if p[0] == "i" else "_:" + p[1]      # blank-node property key (generalized RDF)
            d.setdefault(key, []).append(obj(o))
        return d

    nodes, seen = [], set()
    for q in qs:
        s = q[0]
        if s[0] == "a" and s in obj_anon:
            continue
        if mode == "reverse" and s[0] in "in" and q[1][0] == "i" and q[2][0] in "in" and not style.get("group"):
            nodes.append({"@id": _jl_id(q[2]), "@reverse": {q[1][1]: [{"@id": _jl_id(s)}]}})
            continue
        if style.get("group") or s[0] == "a":
            if s in seen:
                continue
            seen.add(s)
            nodes.append(props(s, subj_of[s]))
        else:
            nodes.append(props(s, [q]))
    return nodes


def write_jsonld(quads, style):
    top, terms, named = [], {}, []
    for g, qs in blocks(quads):
        nodes = _jl_nodes(qs, style, terms)
        if g is None:
            if style.get("jl") == "included" and len(nodes) >= 2 and "@included" not in nodes[0]:
                nodes = [{**nodes[0], "@included": nodes[1:]}]
            top += nodes
        else:
            if g[0] == "a":
                raise ValueError("json-ld: anonymous graph name")
            go = {"@id": _jl_id(g), "@graph": nodes}
            if style.get("jl") == "nestgraph" and named:
                named[0]["@graph"].append(go)           # a graph object inside another graph object: still its own graph
            else:
                top.append(go)
            named.append(go)
    doc = top
    ctx = dict(terms)
    if any(t is not None and t[0] == "n" and t[1] == EMPTY_ID for q in quads for t in q):
        ctx["@base"] = None
    if ctx or style.get("anonstyle"):
        doc = {"@context": ctx, "@graph": top}
    return json.dumps(doc, indent=1 if style.get("group") else None)


# ---------------------------------------------------------------- hextuples


def write_hext(quads, style):
    lines = []
    for s, p, o, g in quads:
        if s[0] == "a" or o[0] == "a" or (g is not None and g[0] == "a"):
            raise ValueError("no anonymous-node syntax in hextuples")
        subj = s[1] if s[0] == "i" else "_:" + s[1]
        if o[0] == "i":
            val, dt, lang = o[1], "globalId", ""
        elif o[0] == "n":
            val, dt, lang = "_:" + o[1], "localId", ""
        else:
            val = o[1]
            if o[3]:
                dt, lang = RDFNS + "langString", o[3]
            else:
                dt, lang = o[2] or XSD + "string", ""
        gn = "" if g is None else (g[1] if g[0] == "i" else "_:" + g[1])
        lines.append(json.dumps([subj, p[1], val, dt, lang, gn]))
    return "\n".join(lines) + "\n"


def write_patch(quads, style):
    """RDF Patch: header, one transaction, an `A` row per statement, then the `D` rows in style["_dels"]; a blank node is
    `_:x` or (style anonstyle, plain labels only) `<_:x>`"""
    def term(t):
        if t[0] == "n" and style.get("anonstyle") and t[1].isalnum():
            return "<_:%s>" % t[1]
        return nt_term(t)

    def row(op, q):
        tail = "" if q[3] is None else " " + term(q[3])
        return "%s %s %s %s%s ." % (op, term(q[0]), term(q[1]), term(q[2]), tail)
    lines = ["H id <urn:c12:patch>"] if style.get("comment") else []
    tx = style.get("group")
    if tx:
        lines.append("TX .")
    lines += [row("A", q) for q in quads] + [row("D", q) for q in style.get("_dels", [])]
    if tx:
        lines.append("TC .")
    return "\n".join(lines) + "\n"


def write_n3(quads, style):
    style = {**style, "sparqlprefix": False, "n3path": style.get("path")}      # N3 has no SPARQL-style PREFIX; paths are N3 only
    top, formulas = [], {}
    for q in quads:
        if q[3] is None:
            top.append(q)
        elif q[3][0] == "a":
            formulas.setdefault(q[3], []).append(q)     # a statement inside the formula { … } that this node stands for
        else:
            raise ValueError("n3: named graph")
    return "\n".join(_ttl_head(style) + _ttl_block(top, style, "", formulas)) + "\n"


WRITERS = {"nt": write_nt, "nquads": write_nquads, "turtle": write_turtle, "n3": write_n3, "trig": write_trig,
           "xml": write_xml, "trix": write_trix, "json-ld": write_jsonld, "hext": write_hext, "patch": write_patch}


def write(fmt, quads, style):
    check_shape(quads, formulas=(fmt == "n3"))
    return WRITERS[fmt](quads, style)
