"""C08 — solution modifiers and aggregates follow SPARQL (DISTINCT, ORDER, slice, GROUP).  DESIGN §6 C08.

Case = {"src": "values"|"optional"|"bgp"|"empty", "vars": [names], "rows": [[termdesc|None …] …],
        "q": {"mod": None|"DISTINCT"|"REDUCED", "proj": [["v", name] | ["e", E, alias] …],
              "group": None | [name | ["as", E, alias] …], "having": None | E, "order": [[E, desc] …],
              "limit": None|n, "offset": None|n}}
termdesc = ["I", n] | ["I", n, "int"|…] | ["D", m, s] | ["F", m, s] (double) | ["F", m, s, "float"] | ["B", 0|1] | ["S", text, lang] | ["U", local] | ["N", label]
         | ["T", y, mo, d, h, mi, s, tz minutes|None] (xsd:dateTime) | ["Y", y, mo, d] (xsd:date)
E = ["v", name] | ["c", termdesc] | ["+", E, E] | ["-", E, E] | ["cmp", op, E, E]
  | ["agg", kind, distinct, "*"|E, sep|None]

The WHERE pattern only *produces* the input solution sequence (C04 is a different property):
  values   : VALUES (?a ?b) { … }            — the rows verbatim, UNDEF for unbound cells
  optional : VALUES ?r { <r0> … } ?r <t> <T> . OPTIONAL { ?r <pa> ?a } …   over a graph holding the cells (allows blank nodes)
  bgp      : ?r <pa> ?a . ?r <pb> ?b .        — all cells bound; solution order is whatever the store yields
  empty    : a BGP that matches nothing
Observation: Result.vars, then Result.bindings — as a sequence when ORDER BY is present (runs of rows whose
sort keys are projected and equal are sorted), else as a bag (only the count for LIMIT/OFFSET without ORDER BY).
A None-valued binding counts as unbound.  Oracle: an independent evaluator of SPARQL 1.1 §18.5
over the known input (fractions.Fraction numerics), written as a *checker* of the implementation's answer
because several clauses admit more than one answer (SAMPLE, ties, incomparable sort keys, errors inside aggregates).
"""
import itertools
import warnings
from fractions import Fraction

import core  # noqa: F401
import re

from rdflib import BNode, ConjunctiveGraph, Dataset, Graph, Literal, URIRef, Variable
from rdflib.graph import ReadOnlyGraphAggregate
from rdflib.namespace import XSD

warnings.filterwarnings("ignore")

ID = "C08"
LEAN_TARGETS = ["RV.C08.Props", "RV.C08.Audit"]
AUDIT = "RV/C08/Audit.lean"
DRIVER = "drv_c08"
CASES = {"quick": 1100, "thorough": 40000, "search": 12000}
RULE = ("random SELECT queries (put as text, prepared object, with initNs/base/initBindings, to a Graph / Dataset / union / aggregate) = (VALUES | VALUES+OPTIONAL over a graph | BGP | empty BGP) producing 0-9 solutions over 1-3 "
        "variables with unbound cells, mixed kinds and datatypes (numerics, booleans, plain / language-tagged strings, xsd:dateTime with and without timezone, xsd:date), duplicates, falsy terms; modifiers DISTINCT/REDUCED, "
        "projection with (expr AS ?v), ORDER BY 0-3 keys ASC/DESC, LIMIT/OFFSET, GROUP BY 0-2 keys or the implicit group, "
        "the seven aggregates with/without DISTINCT, aggregates inside arithmetic, HAVING, ORDER BY on aggregates and aliases; "
        "non-trivial = at least one solution and at least one modifier or aggregate did real work "
        "(a duplicate removed, two rows reordered, a group with >= 2 members, a slice that cut); "
        "distinct = distinct (query text, data)")
ASSUMPTIONS = [
    "the WHERE pattern's solution sequence is the listed rows (checked on every case against rdflib itself: SELECT of all variables)",
    "CPython sorted() is a stable sort (the model uses insertion sort; on a strict weak order every stable sort gives the same list)",
    "CPython's datetime module is what Model.lean transcribes (_ymd2ord, _days_before_month, field checks, isoformat); compared on every case with temporal terms / probes (`cal` line)",
    "Python int/Decimal arithmetic is exact on the generated magnitudes; CPython float arithmetic is IEEE 754 binary64 "
    "round-to-nearest-even and repr() the shortest round-tripping form (modelled in lean/RV/C08/Float.lean and compared exactly, "
    "value and lexical form, on every double / float cell); decimal AVG quotients (Decimal, 28 digits) are compared after rounding "
    "to the nearest fraction with denominator <= 10^6 plus their fraction digits",
    "an error of an aggregate's argument expression for a row either removes that row from the aggregate (rdflib, pinned by its "
    "own tests) or makes the aggregate an error/unbound (SPARQL 18.5.1 read literally): both are accepted, aborting the query is not",
    "GROUP BY over zero solutions may yield zero rows (18.5 Group) or one row without bindings (W3C test agg-empty-group): both accepted",
]
TRUSTED = ["harness/c08.py generators, canonicalisation and the 18.5 checker", "lean/RV/C08/Drive.lean line protocol and query parser",
           "TABLES(): tables probed from the live type_promotion / operators.numeric / Literal.eq / _val / one query per aggregate"]

E_NS = "http://e/"
XS = str(XSD)
NUMERIC_BASE = ["integer", "decimal", "float", "double"]

# ------------------------------------------------------------------ terms


def dec_lex(m, s):
    sign = "-" if m < 0 else ""
    digs = str(abs(m)).rjust(s + 1, "0")
    return sign + (digs[:-s] + "." + digs[-s:] if s else digs)


def time_lex(d):
    """the lexical form of a ["T", …] / ["Y", …] termdesc — the canonical one (what isoformat() writes: `+00:00`, never `Z`),
    so that the term is the same whether rdflib meets it in the query text or in the graph"""
    if d[0] == "Y":
        return "%04d-%02d-%02d" % tuple(d[1:4])
    tz = d[7]
    z = "" if tz is None else "%s%02d:%02d" % ("-" if tz < 0 else "+", abs(tz) // 60, abs(tz) % 60)
    return "%04d-%02d-%02dT%02d:%02d:%02d" % tuple(d[1:7]) + z


def time_dt(d):
    return "date" if d[0] == "Y" else "dateTime"


def mk_term(d):
    k = d[0]
    if k in "TY":
        return Literal(time_lex(d), datatype=URIRef(XS + time_dt(d)))
    if k == "I":
        return Literal(str(d[1]), datatype=URIRef(XS + (d[2] if len(d) > 2 else "integer")))
    if k == "D":
        return Literal(dec_lex(d[1], d[2]), datatype=XSD.decimal)
    if k == "F":  # double: what rdflib makes of the token 1.5e0; ["F", m, s, "float"]: xsd:float
        return Literal(dec_lex(d[1], d[2]), datatype=URIRef(XS + (d[3] if len(d) > 3 else "double")))
    if k == "B":
        return Literal("true" if d[1] else "false", datatype=XSD.boolean)
    if k == "S":
        return Literal(d[1], lang=d[2] or None)
    if k == "U":
        return URIRef(E_NS + d[1])
    if k == "N":
        return BNode(d[1])
    raise ValueError(d)


def sparql_term(d):
    k = d[0]
    if k in "TY":
        return f'"{time_lex(d)}"^^<{XS}{time_dt(d)}>'
    if k == "I":
        return str(d[1]) if len(d) == 2 else f'"{d[1]}"^^<{XS}{d[2]}>'
    if k == "D":  # (rdflib's parser cannot read a negative DECIMAL token: not this property's business)
        return dec_lex(d[1], d[2]) if d[1] >= 0 else f'"{dec_lex(d[1], d[2])}"^^<{XS}decimal>'
    if k == "F":
        if len(d) > 3:
            return f'"{dec_lex(d[1], d[2])}"^^<{XS}{d[3]}>'
        return dec_lex(d[1], d[2]) + "e0" if d[1] >= 0 else f'"{dec_lex(d[1], d[2])}"^^<{XS}double>'
    if k == "B":
        return "true" if d[1] else "false"
    if k == "S":
        return '"%s"' % d[1] + ("@" + d[2] if d[2] else "")
    if k == "U":
        return f"<{E_NS}{d[1]}>"
    raise ValueError(d)


def lex_of(d):
    """STR() of an input term"""
    k = d[0]
    if k in "TY":
        return time_lex(d)
    if k == "I":
        return str(d[1])
    if k == "D":
        return dec_lex(d[1], d[2])
    if k == "F":  # rdflib normalises the lexical form of a double to Python's repr (C09's business)
        return dec_lex(d[1], d[2])
    if k == "B":
        return "true" if d[1] else "false"
    if k == "S":
        return d[1]
    if k == "U":
        return E_NS + d[1]
    return d[1]


def cps(s):
    return "_".join(str(ord(c)) for c in s)


def tok(d):
    """protocol token of an input term"""
    if d is None:
        return "-"
    k = d[0]
    if k == "T":
        return "T." + ".".join(str(x) for x in d[1:7]) + "." + ("-" if d[7] is None else str(d[7]))
    if k == "Y":
        return "Y." + ".".join(str(x) for x in d[1:4])
    if k == "I":
        return f"I.{d[2] if len(d) > 2 else 'integer'}.{d[1]}"
    if k == "D":
        return f"D.{d[1]}.{d[2]}"
    if k == "F":
        return f"F.{d[3] if len(d) > 3 else 'double'}.{d[1]}.{d[2]}"
    if k == "B":
        return f"B.{d[1]}"
    if k == "S":
        return f"S.{cps(d[1])}.{cps(d[2].lower())}"  # language tags are case-insensitive: "a"@EN is the term "a"@en
    if k == "U":
        return "U." + cps(E_NS + d[1])
    if k == "N":
        return "N." + cps(d[1])
    raise ValueError(d)


def canon_desc(d):
    if d is None:
        return "-"
    k = d[0]
    if k in "TY":
        return f"T:{time_dt(d)}:{time_lex(d)}"
    if k == "I":
        return f"Q:{d[2] if len(d) > 2 else 'integer'}:{d[1]}/1"
    if k == "D":
        f = Fraction(d[1], 10 ** d[2])
        return f"Q:decimal:{f.numerator}/{f.denominator}~{d[2]}"  # the TERM: value and fraction digits
    if k == "F":  # the binary64 value of the lexical form, exactly, and the lexical form
        f = Fraction(float(dec_lex(d[1], d[2])))
        return f"Q:{d[3] if len(d) > 3 else 'double'}:{f.numerator}/{f.denominator}~{dec_lex(d[1], d[2])}"
    if k == "B":
        return f"B:{d[1]}"
    if k == "S":
        return f"S:{d[1]}@{d[2].lower()}"
    if k == "U":
        return "U:" + E_NS + d[1]
    return "N:" + d[1]


NUMERIC_DTS = None


def _numeric_dts():
    global NUMERIC_DTS
    if NUMERIC_DTS is None:
        NUMERIC_DTS = {XS + n for n in XSD_NUMERIC_NAMES}
    return NUMERIC_DTS


def canon_term(t):
    """canonical cell of an rdflib term (value + datatype for numerics; AVG quotients are rounded to the nearest simple fraction)"""
    if t is None:
        return "-"
    if isinstance(t, URIRef):
        return "U:" + str(t)
    if isinstance(t, BNode):
        return "N:" + str(t)
    if isinstance(t, Literal):
        dt = str(t.datatype) if t.datatype is not None else None
        if dt in _numeric_dts() and t.value is not None and not isinstance(t.value, bool):
            try:
                if dt in (XS + "double", XS + "float") and isinstance(t.value, float):
                    f = Fraction(t.value)  # exact binary64 value + the lexical form
                    return f"Q:{dt[len(XS):]}:{f.numerator}/{f.denominator}~{str(t)}"
                f = Fraction(t.value).limit_denominator(10 ** 6)
                sc = ""
                if dt == XS + "decimal":  # fraction digits of the lexical form; "x" = a quotient cut at 28 digits
                    nd = len(str(t).partition(".")[2])
                    sc = "~x" if nd > 20 else f"~{nd}"
                return f"Q:{dt[len(XS):]}:{f.numerator}/{f.denominator}{sc}"
            except (ValueError, OverflowError, TypeError):
                return "L:" + t.n3()
        if dt == XS + "boolean" and t.value is not None:
            return f"B:{int(bool(t.value))}"
        if dt in (XS + "dateTime", XS + "date") and t.value is not None:
            return f"T:{dt[len(XS):]}:{str(t)}"
        if dt is None:
            return f"S:{str(t)}@{(t.language or '').lower()}"
        return "L:" + t.n3()
    return "X:" + repr(t)


def canon_tok(tk):
    """canonical cell of a model output token"""
    if tk == "-":
        return "-"
    k, _, rest = tk.partition(".")
    if k == "Q":
        dt, n, dd, sc = rest.split(".")
        if sc.startswith("L"):
            return f"Q:{dt}:{n}/{dd}~{uncps(sc[1:])}"
        return f"Q:{dt}:{n}/{dd}" + (("~x" if int(sc) > 20 else "~" + sc) if dt == "decimal" else "")
    if k == "B":
        return "B:" + rest
    if k == "S":
        lex, _, lang = rest.partition(".")
        return "S:%s@%s" % (uncps(lex), uncps(lang))
    if k in "UN":
        return k + ":" + uncps(rest)
    if k == "T":
        f = rest.split(".")
        return canon_desc(["T"] + [int(x) for x in f[:6]] + [None if f[6] == "-" else int(f[6])])
    if k == "Y":
        return canon_desc(["Y"] + [int(x) for x in rest.split(".")])
    return "?" + tk


def uncps(s):
    return "".join(chr(int(x)) for x in s.split("_") if x)


# ------------------------------------------------------------------ query text


def expr_text(e):
    k = e[0]
    if k == "v":
        return "?" + e[1]
    if k == "c":
        return sparql_term(e[1])
    if k in "+-":
        return f"({expr_text(e[1])} {k} {expr_text(e[2])})"
    if k == "cmp":
        return f"({expr_text(e[2])} {e[1]} {expr_text(e[3])})"
    if k == "and":  # two HAVING constraints
        return f"{expr_text(e[1])} {expr_text(e[2])}"
    if k == "agg":
        _, kind, dist, arg, sep = e
        inner = "*" if arg == "*" else expr_text(arg)
        d = "DISTINCT " if dist else ""
        if kind == "GROUP_CONCAT" and sep is not None:
            return f'GROUP_CONCAT({d}{inner} ; separator="{sep}")'
        return f"{kind}({d}{inner})"
    raise ValueError(e)


def group_items(q):
    """GROUP BY conditions as (variable name or None, expression or None): ?v | (E AS ?v) | (E)"""
    return [(g, None) if isinstance(g, str) else (g[2], g[1]) if g[0] == "as" else (None, g[1]) for g in (q["group"] or [])]


def pattern_text(case):
    vs, rows, src = case["vars"], case["rows"], case["src"]
    if src == "values":
        body = " ".join("(" + " ".join("UNDEF" if c is None else sparql_term(c) for c in r) + ")" for r in rows)
        return "VALUES (%s) { %s }" % (" ".join("?" + v for v in vs), body)
    if src == "optional":
        # last variable is the row node ?r
        rs = " ".join(sparql_term(r[-1]) for r in rows)
        opt = " ".join(f"OPTIONAL {{ ?r <{E_NS}p{v}> ?{v} }}" for v in vs[:-1])
        return f"VALUES ?r {{ {rs} }} ?r <{E_NS}t> <{E_NS}T> . {opt}"
    if src == "bgp":
        return " ".join(f"?r <{E_NS}p{v}> ?{v} ." for v in vs[:-1])
    if src == "empty":
        return " ".join(f"?{v} <{E_NS}none> ?{vs[i + 1] if i + 1 < len(vs) else v} ." for i, v in enumerate(vs[:max(1, len(vs) - 1)]))
    raise ValueError(src)


KEYWORDS = ["SELECT", "DISTINCT", "REDUCED", "WHERE", "GROUP BY", "HAVING", "ORDER BY", "ASC", "DESC", "LIMIT", "OFFSET", "AS",
            "COUNT", "SUM", "AVG", "MIN", "MAX", "SAMPLE", "GROUP_CONCAT", "VALUES", "OPTIONAL", "UNDEF"]


def query_text(case, sliced=True, wrap=None):
    """the SPARQL text; `style` varies the spelling only (bare ORDER BY keys, OFFSET before LIMIT, lower-case keywords),
    `wrap` puts the whole query into a sub-select, `call` modes initNs/base abbreviate the IRIs"""
    q = case["q"]
    style = case.get("style") or {}
    proj = "*" if q.get("star") else \
        " ".join("?" + p[1] if p[0] == "v" else f"({expr_text(p[1])} AS ?{p[2]})" for p in q["proj"])
    s = f"SELECT {q['mod'] + ' ' if q['mod'] else ''}{proj} WHERE {{ {pattern_text(case)} }}"
    if q["group"] is not None:
        s += " GROUP BY " + " ".join("?" + n if e is None else f"({expr_text(e)})" if n is None else f"({expr_text(e)} AS ?{n})"
                                     for n, e in group_items(q))
    if q["having"] is not None:
        s += " HAVING " + expr_text(q["having"])
    if q["order"]:
        def key(e, d):
            if d:
                return "DESC(%s)" % expr_text(e)
            if style.get("bare_order") and e[0] in ("v", "+", "-"):
                return expr_text(e)  # `?a` or `(?a + 1)`: ascending is the default
            return "ASC(%s)" % expr_text(e)
        s += " ORDER BY " + " ".join(key(e, d) for e, d in q["order"])
    if sliced:
        parts = []
        if q["limit"] is not None:
            parts.append(f"LIMIT {q['limit']}")
        if q["offset"] is not None:
            parts.append(f"OFFSET {q['offset']}")
        if style.get("offset_first"):
            parts.reverse()
        s += "".join(" " + x for x in parts)
    if case.get("wrap") if wrap is None else wrap:
        s = "SELECT %s WHERE { { %s } }" % (" ".join("?" + (p[1] if p[0] == "v" else p[2]) for p in q["proj"]), s)
    if style.get("lower"):
        for kw in KEYWORDS:
            s = re.sub(r"(?<![A-Za-z_?:/<\"])%s(?![A-Za-z_])" % kw.replace(" ", r"\s+"), kw.lower(), s)
    mode = (case.get("call") or {}).get("mode")
    if mode == "initNs":
        s = re.sub(r"<%s([A-Za-z0-9]+)>" % re.escape(E_NS), r"e:\1", s)
        s = re.sub(r"\^\^<%s([A-Za-z]+)>" % re.escape(XS), r"^^xsd:\1", s)
    elif mode == "base":
        s = re.sub(r"<%s([A-Za-z0-9]+)>" % re.escape(E_NS), r"<\1>", s)
    return s


def call_kwargs(case):
    c = case.get("call") or {}
    if c.get("mode") == "initNs":
        return {"initNs": {"e": E_NS, "xsd": XS}}
    if c.get("mode") == "base":
        return {"base": E_NS}
    if c.get("mode") == "initBindings":
        return {"initBindings": {c["var"]: mk_term(c["val"])}}
    return {}


def build_graph(case):
    """the object the query is put to: a Graph, a ConjunctiveGraph / Dataset (default graph), a Dataset with
    default_union over two named graphs, or a ReadOnlyGraphAggregate of two graphs; every triple is in one graph"""
    kind = case.get("store") or "graph"
    if kind == "graph":
        top, parts = Graph(), None
    elif kind == "cg":
        top, parts = ConjunctiveGraph(), None
    elif kind == "dataset":
        top, parts = Dataset(), None
    elif kind == "union":
        top = Dataset(default_union=True)
        parts = [top.graph(URIRef(E_NS + "g1")), top.graph(URIRef(E_NS + "g2"))]
    elif kind == "aggregate":
        parts = [Graph(), Graph()]
        top = ReadOnlyGraphAggregate(parts)
    else:
        raise ValueError(kind)
    n = [0]

    def add(t):
        if parts is None:
            top.add(t)
        else:  # the type triple and the cells of one row end up in different graphs
            parts[n[0] % 2].add(t)
            n[0] += 1
    vs, rows, src = case["vars"], case["rows"], case["src"]
    if src in ("optional", "bgp"):
        seen = set()
        for r in rows:
            node = mk_term(r[-1])
            if node in seen:
                continue
            seen.add(node)
            add((node, URIRef(E_NS + "t"), URIRef(E_NS + "T")))
            for v, c in zip(vs[:-1], r[:-1]):
                if c is not None:
                    add((node, URIRef(f"{E_NS}p{v}"), mk_term(c)))
    return top


def input_solutions(case, g=None):
    """the pattern's solution sequence as lists of termdescs aligned with case['vars'].
    For `bgp` the order is taken from rdflib (SPARQL leaves it open); the multiset is checked by the caller."""
    c = case.get("call") or {}
    if c.get("mode") == "initBindings":  # a pre-bound variable: solutions binding it otherwise drop out, the others get it
        i = case["vars"].index(c["var"])
        return [list(r[:i]) + [c["val"]] + list(r[i + 1:]) for r in case["rows"]
                if r[i] is None or canon_desc(r[i]) == canon_desc(c["val"])]
    if case["src"] != "bgp":
        return [list(r) for r in case["rows"]]
    g = g or build_graph(case)
    by = {}
    for r in case["rows"]:
        by.setdefault(canon_desc(r[-1]), []).append(r)
    out = []
    for row in g.query("SELECT %s WHERE { %s }" % (" ".join("?" + v for v in case["vars"]), pattern_text(case))).bindings:
        key = canon_term(row.get(Variable("r")))
        if by.get(key):
            out.append(list(by[key][0]))
    return out


# ------------------------------------------------------------------ the independent §18.5 checker

KIND_RANK = {"-": 0, "N": 1, "U": 2}


def cell_rank(c):
    return KIND_RANK.get(c[0], 3)


def num_of(c):
    """(dtclass, Fraction) of a numeric cell, else None"""
    if c.startswith("Q:"):
        _, dt, fr = c.split(":")
        return dt, Fraction(fr.partition("~")[0])
    return None


def base_dt(dt):
    return dt if dt in NUMERIC_BASE else "integer"


def promote(a, b):
    a, b = base_dt(a), base_dt(b)
    return NUMERIC_BASE[max(NUMERIC_BASE.index(a), NUMERIC_BASE.index(b))]


def num_cell(dt, f):
    f = Fraction(f)
    return f"Q:{dt}:{f.numerator}/{f.denominator}"


def time_of(c):
    """(aware?, datetime) of an xsd:dateTime cell, else None"""
    if c.startswith("T:dateTime:"):
        import datetime
        v = datetime.datetime.fromisoformat(c[len("T:dateTime:"):])
        return v.tzinfo is not None, v
    return None


FLOATING = ("double", "float")


def float_close(na, nb):
    """two numeric cells, one of them floating, whose exact values are within rounding distance: the checker computes with
    exact fractions, a binary64 computation may land on either side — no demand is derived from such a pair"""
    if na[0] not in FLOATING and nb[0] not in FLOATING:
        return False
    x, y = na[1], nb[1]
    return x != y and abs(x - y) <= Fraction(1, 10 ** 9) * max(1, abs(x), abs(y))


def spec_lt(a, b):
    """SPARQL 15.1: True/False where the order of the two keys is fixed, None where it is left open"""
    ra, rb = cell_rank(a), cell_rank(b)
    if ra != rb:
        return ra < rb
    if a == b:
        return False
    if ra == 0:
        return False
    if ra == 2:
        return a < b  # IRIs: compared as simple literals (code points)
    if ra == 3:
        na, nb = num_of(a), num_of(b)
        if na and nb:
            if float_close(na, nb):
                return None
            return na[1] < nb[1]
        if a.startswith("S:") and b.startswith("S:") and a.endswith("@") and b.endswith("@"):
            return a[2:-1] < b[2:-1]
        if a.startswith("B:") and b.startswith("B:"):
            return a < b
        ta, tb = time_of(a), time_of(b)
        if ta and tb and ta[0] == tb[0]:  # op:dateTime-less-than; one with and one without timezone: indeterminate
            return ta[1] < tb[1]
    return None  # blank nodes among themselves, language strings, mixed literal classes, xsd:date …


def spec_same(a, b):
    if a == b:
        return True
    na, nb = num_of(a), num_of(b)
    if na and nb and na[1] == nb[1]:
        return True
    ta, tb = time_of(a), time_of(b)  # one instant written with two UTC offsets
    return bool(ta and tb and ta[0] and tb[0] and ta[1] == tb[1])


def precedes(ka, kb, descs):
    """row with keys ka MUST come before row with keys kb (None cells = value not determined → no demand)"""
    for x, y, d in zip(ka, kb, descs):
        if x is None or y is None:
            return False
        if spec_same(x, y):
            continue
        r = spec_lt(y, x) if d else spec_lt(x, y)
        return r is True
    return False


class Ev:
    """evaluates expressions to *sets of admissible cells* ('-' = error/unbound)"""

    def __init__(self, case):
        self.case = case
        self.lex = {}
        for r in case["rows"] + [[(case.get("call") or {}).get("val")]]:
            for c in r:
                if c is not None:
                    self.lex[canon_desc(c)] = lex_of(c)

    def arith(self, op, a, b):
        if not isinstance(a, str) or not isinstance(b, str):
            return "-"
        na, nb = num_of(a), num_of(b)
        if not na or not nb:
            return "-"
        dt = promote(na[0], nb[0])
        return num_cell(dt, na[1] + nb[1] if op == "+" else na[1] - nb[1])

    def cmp(self, op, a, b):
        if a == "-" or b == "-":
            return {"-"}
        if not isinstance(a, str) or not isinstance(b, str):
            return {"B:0", "B:1", "-"}
        na, nb = num_of(a), num_of(b)
        if na and nb and (float_close(na, nb) or (na[1] == nb[1] and (na[0] in FLOATING or nb[0] in FLOATING) and "~" not in a + b)):
            return {"B:0", "B:1"}  # a computed double within rounding distance of the other operand: not judged
        if na and nb:
            x, y = na[1], nb[1]
            r = {"<": x < y, ">": x > y, "=": x == y, "!=": x != y, "<=": x <= y, ">=": x >= y}[op]
            return {f"B:{int(r)}"}
        ta, tb = time_of(a), time_of(b)
        if ta and tb and ta[0] == tb[0]:  # two xsd:dateTime, both with or both without timezone
            x, y = ta[1], tb[1]
            r = {"<": x < y, ">": x > y, "=": x == y, "!=": x != y, "<=": x <= y, ">=": x >= y}[op]
            return {f"B:{int(r)}"}
        if op in ("=", "!="):
            # RDFterm-equal: IRIs / blank nodes against anything, two simple strings, two booleans
            ka, kb = a[0], b[0]
            simple = lambda c: c.startswith("S:") and c.endswith("@")
            if ka in "UN" or kb in "UN" or (simple(a) and simple(b)) or (ka == "B" and kb == "B"):
                return {f"B:{int((a == b) == (op == '='))}"}
        elif (a.startswith("S:") and a.endswith("@") and b.startswith("S:") and b.endswith("@")) or (a[0] == "B" and b[0] == "B"):
            a, b = a[2:-1] if a[0] == "S" else a, b[2:-1] if b[0] == "S" else b
            r = {"<": a < b, ">": a > b, "<=": a <= b, ">=": a >= b}[op]
            return {f"B:{int(r)}"}
        elif a[0] in "UN" or b[0] in "UN":
            return {"-"}  # ordering an IRI / blank node is a type error
        return {"B:0", "B:1", "-"}  # not judged (mixed literal classes, language strings)

    def ev(self, e, sol, group=None):
        """sol: dict var->cell (the solution, or the group's key bindings); group: list of solutions or None"""
        k = e[0]
        if k == "v":
            return {sol.get(e[1], "-")}
        if k == "c":
            return {canon_desc(e[1])}
        if k in "+-":
            return {self.arith(k, a, b) for a in self.ev(e[1], sol, group) for b in self.ev(e[2], sol, group)}
        if k == "cmp":
            out = set()
            for a in self.ev(e[2], sol, group):
                for b in self.ev(e[3], sol, group):
                    out |= self.cmp(e[1], a, b)
            return out
        if k == "and":
            out = set()
            for a in self.ev(e[1], sol, group):
                for b in self.ev(e[2], sol, group):
                    out.add("B:0" if a == "B:0" else (b if b in ("B:0", "B:1") else "-") if a == "B:1" else "-")
            return out
        if k == "agg":
            return self.agg(e, group if group is not None else [sol])
        raise ValueError(e)

    def agg(self, e, rows):
        _, kind, dist, arg, sep = e
        if arg == "*":
            if dist:
                return {num_cell("integer", len({tuple(sorted(r.items())) for r in rows}))}
            return {num_cell("integer", len(rows))}
        vals = [next(iter(self.ev(arg, r))) for r in rows]  # arguments contain no aggregates: single-valued
        if dist and arg[0] != "v" and kind in ("COUNT", "SUM", "AVG"):
            # DISTINCT over COMPUTED decimals: -1.0 and -1.00 are one value, two terms if the implementation keeps
            # the operands' fraction digits; SPARQL does not fix the lexical form, so both readings are accepted
            tagged = [v + "#%s" % _scale_of(arg, r) if isinstance(v, str) and v.startswith("Q:decimal") else v
                      for v, r in zip(vals, rows)]
            if len(set(tagged)) != len(set(vals)):
                plain = self.agg(["agg", kind, False, ["v", "\0"], sep], [{"\0": v} for v in dict.fromkeys(vals) if v != "-"] +
                                 [{} for v in vals if v == "-"])
                fine = self.agg(["agg", kind, False, ["v", "\0"], sep],
                                [{"\0": t.partition("#")[0]} for t in dict.fromkeys(tagged) if t != "-"] + [{} for v in vals if v == "-"])
                return plain | fine
        errs = sum(1 for v in vals if v == "-")
        good = [v for v in vals if v != "-"]
        if dist:
            good = list(dict.fromkeys(good))
        if kind == "COUNT":
            return {num_cell("integer", len(good))}
        if kind in ("SUM", "AVG"):
            nums = [num_of(v) for v in good if num_of(v)]
            type_err = len(nums) != len(good)
            out = set()
            if errs or type_err:
                out.add("-")  # 18.5.1 literally: error
            # … or the erroring rows are left out
            dt = "integer"
            tot = Fraction(0)
            for d, f in nums:
                dt = promote(dt, d)
                tot += f
            if kind == "SUM":
                out.add(num_cell(dt, tot))
            elif not nums:
                out.add(num_cell("integer", 0))
            else:
                out.add(num_cell("double" if dt == "double" else "float" if dt == "float" else "decimal", tot / len(nums)))
            if not (errs or type_err):
                out.discard("-")
            return out
        if kind in ("MIN", "MAX"):
            out = set()
            for x in good:
                if kind == "MIN" and not any(spec_lt(y, x) is True for y in good):
                    out.add(x)
                if kind == "MAX" and not any(spec_lt(x, y) is True for y in good):
                    out.add(x)
            if errs or not good:
                out.add("-")
            return out
        if kind == "SAMPLE":
            out = set(good)
            if errs or not good:
                out.add("-")
            return out
        if kind == "GROUP_CONCAT":
            pieces = sorted(self.lex.get(v, v) for v in good)
            out = {("GC", sep if sep is not None else " ", tuple(pieces))}
            if errs:
                out.add("-")
            return out
        raise ValueError(kind)


def cell_ok(cell, admissible):
    if cell in admissible:
        return True
    if "~" in cell and cell.partition("~")[0] in admissible:
        return True  # a computed decimal: SPARQL fixes its value and datatype, not its lexical form
    nc = num_of(cell)
    if nc and nc[0] in FLOATING:  # binary64 arithmetic: the checker's exact value, up to rounding
        for a in admissible:
            na = num_of(a) if isinstance(a, str) else None
            if na and na[0] == nc[0] and (na[1] == nc[1] or float_close(na, nc)):
                return True
    for a in admissible:
        if isinstance(a, tuple) and a[0] == "GC" and cell.startswith("S:") and cell.endswith("@"):
            _, sep, pieces = a
            text = cell[2:-1]
            if not pieces:
                if text == "":
                    return True
            elif sep == "":
                if _segments(text, list(pieces)):
                    return True
            elif sorted(text.split(sep)) == list(pieces):
                return True
    return False


def _segments(text, pieces):
    """is text the concatenation of the pieces in some order?"""
    if not pieces:
        return text == ""
    for p in set(pieces):
        if text.startswith(p):
            rest = list(pieces)
            rest.remove(p)
            if _segments(text[len(p):], rest):
                return True
    return False


def has_agg(e):
    if not isinstance(e, list):
        return False
    if e and e[0] == "agg":
        return True
    return any(has_agg(x) for x in e[1:])


def is_grouped(q):
    return q["group"] is not None or any(p[0] == "e" and has_agg(p[1]) for p in q["proj"]) or has_agg(q["having"]) \
        or any(has_agg(e) for e, _ in q["order"])


def build_items(case, sols):
    """items = the rows the query must/may produce before ORDER BY/DISTINCT/slice:
       {cells: {var: set of admissible cells}, presence: 'req'|'opt', keys: [cell|None …]}"""
    q = case["q"]
    ev = Ev(case)
    sol_dicts = [{v: canon_desc(c) for v, c in zip(case["vars"], r) if c is not None} for r in sols]
    items = []
    if is_grouped(q):
        if q["group"] is None:
            groups = [({}, sol_dicts)]
        else:
            gi = group_items(q)
            idx = {}
            for s in sol_dicts:
                s = dict(s)
                key = []
                for n, e in gi:  # GROUP BY (expr AS ?k) extends the solution before grouping; (expr) is only a key
                    val = s.get(n, "-") if e is None else next(iter(ev.ev(e, s)))
                    if e is not None and n is not None and val != "-":
                        s[n] = val
                    key.append(val)
                idx.setdefault(tuple(key), []).append(s)
            groups = [({n: c for (n, _e), c in zip(gi, key) if c != "-" and n is not None}, rows) for key, rows in idx.items()]
        ctxs = [(kb, rows) for kb, rows in groups]
    else:
        ctxs = [(s, None) for s in sol_dicts]
    for sol, grp in ctxs:
        cells, env = {}, dict(sol)
        multi = {}
        for p in q["proj"]:
            if p[0] == "v":
                cells[p[1]] = {sol.get(p[1], "-")}
            else:
                vals = ev.ev(p[1], sol, grp)
                cells[p[2]] = vals
                multi[p[2]] = vals
        presence = "req"
        if q["having"] is not None:
            hv = ev.ev(q["having"], sol, grp)
            if hv <= {"B:1"}:
                presence = "req"
            elif "B:1" not in hv:
                continue
            else:
                presence = "opt"
        keys = []
        for e, _d in q["order"]:
            if e[0] == "v" and e[1] in multi:
                vals = multi[e[1]]
            else:
                vals = ev.ev(e, sol, grp)
            vals = {v for v in vals}
            keys.append(next(iter(vals)) if len(vals) == 1 and not isinstance(next(iter(vals)), tuple) else None)
        items.append({"cells": cells, "presence": presence, "keys": keys})
    return items


def _vars_in(e):
    if not isinstance(e, list) or not e:
        return set()
    if e[0] == "v":
        return {e[1]}
    out = set()
    for x in e[1:]:
        out |= _vars_in(x)
    return out


def _scale_of(e, sol):
    """fraction digits Python's Decimal arithmetic would give the value of e (None = not a decimal/integer)"""
    if e[0] == "v" or e[0] == "c":
        c = sol.get(e[1], "-") if e[0] == "v" else canon_desc(e[1])
        n = num_of(c) if isinstance(c, str) else None
        if not n:
            return None
        if "~" in c and n[0] == "decimal":
            return int(c.partition("~")[2])
        return 0 if base_dt(n[0]) == "integer" else None
    if e[0] in "+-":
        x, y = _scale_of(e[1], sol), _scale_of(e[2], sol)
        return None if x is None or y is None else max(x, y)
    return None


def _ambiguous_computed_key(case, sols):
    """GROUP BY (arithmetic AS ?k): two solutions whose keys are the same decimal VALUE but would differ as terms
    (0.5 vs 0.50) — one group or two, SPARQL does not fix the lexical form of a computed value"""
    ev = Ev(case)
    for _n, e in group_items(case["q"]):
        if e is None or e[0] == "v":
            continue
        seen = {}
        for r in sols:
            sol = {v: canon_desc(c) for v, c in zip(case["vars"], r) if c is not None}
            val = next(iter(ev.ev(e, sol)))
            if isinstance(val, str) and val.startswith("Q:decimal"):
                sc = _scale_of(e, sol)
                if seen.setdefault(val, sc) != sc:
                    return True
    return False


def row_matches(row, vars_, item):
    return all(cell_ok(c, item["cells"][v]) for v, c in zip(vars_, row))


def assign(rows, vars_, items, descs, ordered, need_all):
    """is there an injective assignment rows[i] -> item, respecting cells, (if ordered) the sort demand, and
       (if need_all) using every required item?"""
    n = len(rows)
    cand = [[j for j, it in enumerate(items) if row_matches(r, vars_, it)] for r in rows]
    req = sum(1 << j for j, it in enumerate(items) if it["presence"] == "req")
    seen = set()

    def go(i, used):
        if (i, used) in seen:
            return False
        if i == n:
            if not need_all or (used & req) == req:
                return True
            seen.add((i, used))
            return False
        for j in cand[i]:
            if used >> j & 1:
                continue
            if ordered and any(used >> k & 1 and precedes(items[j]["keys"], items[k]["keys"], descs) for k in range(len(items))):
                continue
            if go(i + 1, used | 1 << j):
                return True
        seen.add((i, used))
        return False

    return go(0, 0)


def check_result(case, sols, vars_, rows, raw_rows):
    """violations of the unsliced query's answer (rows = canonical cells per Result.vars)"""
    q = case["q"]
    viol = []
    want_vars = [p[1] if p[0] == "v" else p[2] for p in q["proj"]]
    if vars_ != want_vars:
        viol.append(f"project: Result.vars = {vars_}, SELECT names {want_vars}")
        return viol
    if _ambiguous_computed_key(case, sols):
        return viol  # GROUP BY (?b - 1 AS ?k) over 1.5 and 1.50: one group or two, SPARQL does not fix the key's lexical form
    items = build_items(case, sols)
    descs = [d for _e, d in q["order"]]
    ordered = bool(q["order"])
    empty_grouped = q["group"] is not None and not sols
    if empty_grouped and (rows == [] or rows == [tuple("-" for _ in vars_)]):
        return viol
    if len(items) > 14:
        return viol
    for r in rows:
        if not any(row_matches(r, vars_, it) for it in items):
            tag = "group" if is_grouped(q) else "project"
            viol.append(f"{tag}: answer row {dict(zip(vars_, r))} is not a row the query defines "
                        f"(admissible: {[{v: sorted(map(str, s)) for v, s in it['cells'].items()} for it in items][:6]})")
            return viol
    if q["mod"] == "DISTINCT":
        if len(set(raw_rows)) != len(raw_rows):
            viol.append("distinct: a solution occurs twice in a DISTINCT answer")
        for it in items:
            if it["presence"] == "req" and not any(row_matches(r, vars_, it) for r in rows):
                viol.append(f"distinct: required row {[sorted(map(str, s)) for s in it['cells'].values()]} missing")
                break
        single = all(len(s) == 1 and not isinstance(next(iter(s)), tuple) for it in items for s in it["cells"].values()) \
            and all(it["presence"] == "req" for it in items)
        if single:
            want = {tuple(next(iter(it["cells"][v])) for v in vars_) for it in items}
            # SPARQL does not fix the lexical form of a computed decimal/double ("3.5" vs "3.50" are different
            # terms with one value): rows that differ only there may legitimately both survive DISTINCT
            computed = {p[2] for p in q["proj"] if p[0] == "e" and not (
                p[1][0] == "agg" and p[1][1] in ("MIN", "MAX", "SAMPLE", "COUNT", "GROUP_CONCAT") and (p[1][3] == "*" or p[1][3][0] == "v"))}
            fuzzy = any(c.startswith(("Q:decimal", "Q:double", "Q:float")) for r in rows for v, c in zip(vars_, r) if v in computed)
            fuzzy_float = any(c.startswith(("Q:double", "Q:float")) for r in rows for v, c in zip(vars_, r) if v in computed)
            if (len(rows) < len(want) and not fuzzy_float) or (len(rows) > len(want) and not fuzzy):
                viol.append(f"distinct: {len(rows)} rows, the query has {len(want)} distinct solutions")
        if not viol and not assign(rows, vars_, items, descs, ordered, False):
            viol.append("order: DISTINCT answer is not in ORDER BY order" if ordered else "distinct: rows cannot be matched")
        return viol
    if q["mod"] == "REDUCED":
        for it in items:
            if it["presence"] == "req" and not any(row_matches(r, vars_, it) for r in rows):
                viol.append("reduced: a solution is missing altogether")
                break
        if not viol and not assign(rows, vars_, items, descs, ordered, False):
            viol.append("order: REDUCED answer not in ORDER BY order" if ordered else "reduced: more copies of a row than the pattern yields")
        return viol
    nreq = sum(1 for it in items if it["presence"] == "req")
    if not (nreq <= len(rows) <= len(items)):
        tag = "having" if q["having"] is not None else ("group" if is_grouped(q) else "project")
        viol.append(f"{tag}: {len(rows)} rows, expected between {nreq} and {len(items)}")
        return viol
    if not assign(rows, vars_, items, descs, False, True):
        tag = "having" if q["having"] is not None else ("group" if is_grouped(q) else "project")
        viol.append(f"{tag}: answer rows are not the multiset the query defines")
    elif ordered and not assign(rows, vars_, items, descs, True, True):
        viol.append(f"order: a later row precedes an earlier one under ORDER BY {[expr_text(e) + (' DESC' if d else '') for e, d in q['order']]}: "
                    f"{[dict(zip(vars_, r)) for r in rows][:8]}")
    return viol


# ------------------------------------------------------------------ running rdflib


class Unstable(Exception):
    pass


def run_query(g, text, case=None, star=False):
    kw = call_kwargs(case) if case else {}
    if case and (case.get("call") or {}).get("mode") == "prepared":
        from rdflib.plugins.sparql import prepareQuery
        pq = prepareQuery(text)  # one query object, evaluated three times
        answers = []
        for _ in range(3):
            r = g.query(pq)
            answers.append(([str(v) for v in r.vars], [sorted((str(k), v.n3()) for k, v in b.items() if v is not None) for b in r.bindings]))
        if answers[0] != answers[1] or answers[0] != answers[2]:
            raise Unstable("the prepared query answered differently when evaluated again")
        res = g.query(pq)
    else:
        res = g.query(text, **kw)
    vars_ = [str(v) for v in res.vars]
    if star:
        vars_ = sorted(vars_)  # SELECT *: the order of the variables is not defined
    bindings = list(res.bindings)
    rows, raw, extra = [], [], False
    for b in bindings:
        ks = {str(k) for k, v in b.items() if v is not None}
        if not ks <= set(vars_):
            extra = True
        rows.append(tuple(canon_term(b.get(Variable(v))) for v in vars_))
        raw.append(tuple("-" if b.get(Variable(v)) is None else b.get(Variable(v)).n3() for v in vars_))
    return vars_, rows, raw, extra


def seq_canon(case, vars_, rows):
    """ORDER BY answers are compared as sequences; runs of consecutive rows whose sort keys are all projected
    variables with equal values are sorted (their relative order is not the property's business)."""
    q = case["q"]
    keys = [e[1] for e, _d in q["order"] if e[0] == "v"]
    if len(keys) != len(q["order"]) or not all(k in vars_ for k in keys):
        return list(rows)
    ix = [vars_.index(k) for k in keys]
    out, run = [], []
    for r in rows:
        if run and all(spec_same(run[-1][i], r[i]) for i in ix):
            run.append(r)
        else:
            out += sorted(run)
            run = [r]
    return out + sorted(run)


def obs_lines(case, vars_, rows, exc=None):
    q = case["q"]
    if exc:
        return ["exc:" + exc]
    sliced = q["limit"] is not None or q["offset"] is not None
    line0 = "vars " + " ".join(vars_)
    if q["order"] and not case.get("wrap"):  # (a sub-select's order does not reach the outer query)
        body = seq_canon(case, vars_, rows)
        return [line0, "seq " + " | ".join(",".join(r) for r in body)]
    if sliced:  # LIMIT/OFFSET without ORDER BY: which rows is not determined, only how many (membership: checker)
        return [line0, f"n {len(rows)}"]
    return [line0, "bag " + " | ".join(",".join(r) for r in sorted(rows))]


def run_impl(case):
    q = case["q"]
    g = build_graph(case)
    stats = {"src_" + case["src"]: 1, "rows": len(case["rows"]), "mod_" + str(q["mod"]): 1,
             "order_keys": len(q["order"]), "sliced": int(q["limit"] is not None or q["offset"] is not None),
             "grouped": int(is_grouped(q)), "group_keys_" + str(None if q["group"] is None else len(q["group"])): 1,
             "having": int(q["having"] is not None),
             "having_without_aggregate": int(q["having"] is not None and not has_agg(q["having"])),
             "group_by_expr_as": int(any(e is not None and n is not None for n, e in group_items(q))),
             "order_by_unselected_key": int(any(e[0] == "v" and e[1] in [n for n, _ in group_items(q)] and
                                                ["v", e[1]] not in q["proj"] for e, _d in q["order"]))}
    stats["order_by_twin_of_held_aggregate"] = int(bool(q.get("twin")))
    ntime = sum(1 for r in case["rows"] for c in r if c is not None and c[0] in "TY")
    stats["cases_with_dateTime_or_date"] = int(ntime > 0)
    stats["cases_with_nondyadic_double"] = int(any(c is not None and c[0] == "F" and Fraction(float(dec_lex(c[1], c[2]))) != Fraction(c[1], 10 ** c[2])
                                                   for r in case["rows"] for c in r))
    stats["cases_with_uppercase_language_tag"] = int(any(c is not None and c[0] == "S" and c[2] != c[2].lower() for r in case["rows"] for c in r))
    stats["temporal_cells"] = ntime
    for p in q["proj"]:
        for a in _aggs_in(p[1] if p[0] == "e" else None):
            stats["agg_" + a[1] + ("_distinct" if a[2] else "")] = stats.get("agg_" + a[1] + ("_distinct" if a[2] else ""), 0) + 1
    viol = []
    # 0. the input the modifiers work on
    call = case.get("call") or {}
    star = bool(q.get("star"))
    for k_, v_ in (("call_" + call.get("mode", "text"), 1), ("store_" + (case.get("store") or "graph"), 1), ("wrap_subselect", int(bool(case.get("wrap")))),
                   ("select_star", int(star)), ("having_two_constraints", int(bool(q["having"]) and q["having"][0] == "and")),
                   ("group_by_bare_expr", int(any(n is None for n, _e in group_items(q)))),
                   ("never_bound_var", int("u" in _all_vars(q))),
                   *[("style_" + k2, int(bool(v2))) for k2, v2 in (case.get("style") or {}).items()]):
        stats[k_] = v_
    sols = input_solutions(case, g)
    ptext = "SELECT %s WHERE { %s }" % (" ".join("?" + v for v in case["vars"]), pattern_text(case))
    pv, prow, _raw, _x = run_query(g, ptext, case if call.get("mode") == "initBindings" else None)
    want_in = [tuple(canon_desc(c) for c in r) for r in sols]
    ordered_src = case["src"] != "bgp" and (case.get("store") or "graph") in ("graph", "cg", "dataset", "union", "aggregate")
    if sorted(prow) != sorted(want_in) or (ordered_src and prow != want_in):
        return {"obs": ["input-differs"], "viol": [], "nontrivial": False, "key": "input",
                "stats": {"input_differs": 1, "input_differs_" + call.get("mode", "text") + "_" + (case.get("store") or "graph"): 1}}
    text_full = query_text(case, sliced=False, wrap=False)
    text = query_text(case, wrap=False)
    sliced = text != text_full
    try:
        fvars, frows, fraw, fextra = run_query(g, text_full, case, star)
    except Unstable as e:
        return {"obs": obs_lines(case, [], [], "Unstable"), "nontrivial": True, "key": text,
                "viol": [f"reuse: {e} :: {text_full}"], "stats": stats}
    except Exception as e:  # noqa: BLE001
        stats["exc_" + type(e).__name__] = 1
        return {"obs": obs_lines(case, [], [], type(e).__name__), "nontrivial": True, "key": text,
                "viol": [f"abort: query raised {type(e).__name__}: {str(e)[:120]} :: {text_full}"], "stats": stats}
    if fextra:
        viol.append("project: a binding carries a variable that was not selected")
    viol += check_result(case, sols, fvars, frows, fraw)
    vars_, rows = fvars, frows
    if sliced:
        try:
            vars_, rows, _raw2, _e2 = run_query(g, text, case, star)
        except Exception as e:  # noqa: BLE001
            return {"obs": obs_lines(case, [], [], type(e).__name__), "nontrivial": True, "key": text,
                    "viol": [f"abort: query raised {type(e).__name__}: {str(e)[:120]} :: {text}"], "stats": stats}
        o = q["offset"] or 0
        lim = q["limit"]
        want_n = max(0, len(frows) - o) if lim is None else max(0, min(lim, len(frows) - o))
        if len(rows) != want_n:
            viol.append(f"slice: OFFSET {o} LIMIT {lim} of {len(frows)} rows gave {len(rows)} rows, expected {want_n}")
        elif q["order"]:
            if rows != frows[o:o + want_n]:
                viol.append(f"slice: OFFSET {o} LIMIT {lim} is not that slice of the ordered sequence")
        else:
            pool = list(frows)
            for r in rows:
                if r in pool:
                    pool.remove(r)
                else:
                    viol.append("slice: sliced answer contains a row (or more copies of it) than the unsliced answer")
                    break
    if case.get("wrap"):
        # the same query as a sub-select: ToMultiSet of its answer — the same bag (only the count if the slice is open)
        wtext = query_text(case, wrap=True)
        try:
            wvars, wrows, _r3, _e3 = run_query(g, wtext, case, star)
        except Exception as e:  # noqa: BLE001
            return {"obs": obs_lines(case, [], [], type(e).__name__), "nontrivial": True, "key": wtext,
                    "viol": [f"abort: query raised {type(e).__name__}: {str(e)[:120]} :: {wtext}"], "stats": stats}
        if wvars != vars_:
            viol.append(f"subselect: outer Result.vars {wvars}, inner {vars_}")
        elif len(wrows) != len(rows) or (not (sliced and not q["order"]) and sorted(wrows) != sorted(rows)):
            viol.append(f"subselect: as a sub-select the query yields {sorted(wrows)[:6]}, alone {sorted(rows)[:6]}")
        rows = wrows
    # non-triviality
    nt = bool(sols) and (
        (q["mod"] and len(frows) < len(sols)) or (q["order"] and len(set(frows)) > 1) or (sliced and len(rows) < len(frows))
        or (is_grouped(q) and len(frows) < len(sols)) or (q["having"] is not None))
    stats["nontrivial"] = int(bool(nt))
    stats["answer_rows"] = len(rows)
    cal = cal_line(case)
    stats["calendar_lines"] = len(cal)
    stats["calendar_cells"] = len(cal_terms(case))
    return {"obs": cal + obs_lines(case, vars_, rows), "viol": viol, "nontrivial": bool(nt), "key": text + repr(case["rows"]),
            "stats": stats}


def _all_vars(q):
    out = set()
    for p in q["proj"]:
        out |= {p[1]} if p[0] == "v" else _vars_in(p[1])
    for n, e in group_items(q):
        out |= ({n} if n and e is None else set()) | (_vars_in(e) if e is not None else set())
    if q["having"] is not None:
        out |= _vars_in(q["having"])
    for e, _d in q["order"]:
        out |= _vars_in(e)
    return out


def _aggs_in(e):
    if not isinstance(e, list) or not e:
        return []
    if e[0] == "agg":
        return [e]
    out = []
    for x in e[1:]:
        out += _aggs_in(x)
    return out


# ------------------------------------------------------------------ calendar functions (CPython datetime, as rdflib uses it)


def cal_terms(case):
    """the temporal termdescs whose calendar functions are compared: the distinct ones of the rows (well-typed by
    construction) and the random probes of case['cal'] (possibly invalid field values)"""
    out = []
    for d in [c for r in case["rows"] for c in r if c is not None and c[0] in "TY"] + [list(x) for x in case.get("cal") or []]:
        if d not in out:
            out.append(d)
    return out[:16]


def cal_cell(d):
    """valid? / aware? / the point on the time line / the lexical form, from rdflib's Literal and CPython's datetime:
    Literal(lexical, datatype).value (None = ill-typed), date.toordinal(), datetime subtraction (what datetime._cmp uses)"""
    import datetime
    t = mk_term(d)
    v = t.value
    if v is None or t.ill_typed:
        return "0"
    if d[0] == "Y":
        return f"1:{v.toordinal()}:{cps(str(t))}"
    aware = v.tzinfo is not None and v.utcoffset() is not None
    diff = v - datetime.datetime(1, 1, 1, tzinfo=datetime.timezone.utc if aware else None)
    return f"1:{int(aware)}:{diff.days * 86400 + diff.seconds + 86400}:{cps(str(t))}"


def cal_line(case):
    import logging
    ts = cal_terms(case)
    if not ts:
        return []
    lg = logging.getLogger("rdflib.term")
    old = lg.level
    lg.setLevel(logging.CRITICAL)  # (ill-typed probes are logged with a traceback)
    try:
        return ["cal " + " ".join(cal_cell(d) for d in ts)]
    finally:
        lg.setLevel(old)


# ------------------------------------------------------------------ model side

AGG_TOK = {"COUNT": "count", "SUM": "sum", "AVG": "avg", "MIN": "min", "MAX": "max", "SAMPLE": "sample",
           "GROUP_CONCAT": "gconcat"}
CMP_TOK = {"<": "lt", ">": "gt", "=": "eq", "!=": "ne", "<=": "le", ">=": "ge"}


def var_index(case):
    names = list(case["vars"])
    for n, e in group_items(case["q"]):
        if e is not None and n is not None and n not in names:
            names.append(n)
    if "u" in _all_vars(case["q"]) and "u" not in names:
        names.append("u")  # a variable the pattern never binds
    for p in case["q"]["proj"]:
        if p[0] == "e" and p[2] not in names:
            names.append(p[2])
    return {n: i for i, n in enumerate(names)}


def expr_toks(e, ix):
    k = e[0]
    if k == "v":
        return ["v", str(ix[e[1]])]
    if k == "c":
        return ["c", tok(e[1])]
    if k in "+-":
        return [k] + expr_toks(e[1], ix) + expr_toks(e[2], ix)
    if k == "cmp":
        return ["cmp", CMP_TOK[e[1]]] + expr_toks(e[2], ix) + expr_toks(e[3], ix)
    if k == "and":
        return ["and"] + expr_toks(e[1], ix) + expr_toks(e[2], ix)
    if k == "agg":
        _, kind, dist, arg, sep = e
        return ["agg", AGG_TOK[kind], "1" if dist else "0", "-" if sep is None else "s" + cps(sep)] + \
            (["*"] if arg == "*" else expr_toks(arg, ix))
    raise ValueError(e)


def model_lines(case):
    q = case["q"]
    ix = var_index(case)
    lines = ["reset"]
    for r in input_solutions(case):
        lines.append("row " + " ".join(tok(c) for c in r))
    t = ["q", {None: "N", "DISTINCT": "D", "REDUCED": "R"}[q["mod"]],
         "-" if q["offset"] is None else str(q["offset"]), "-" if q["limit"] is None else str(q["limit"]),
         str(len(ix))]
    if q["group"] is None:
        t.append("-")
    else:
        t.append(str(len(q["group"])))
        for n, e in group_items(q):
            t += ["gv", str(ix[n])] if e is None else ["ge"] + expr_toks(e, ix) if n is None else ["ga", str(ix[n])] + expr_toks(e, ix)
    t.append(str(len(q["proj"])))
    for p in q["proj"]:
        t += ["pv", str(ix[p[1]])] if p[0] == "v" else ["pe", str(ix[p[2]])] + expr_toks(p[1], ix)
    if q["having"] is None:
        t.append("0")
    else:
        t += ["1"] + expr_toks(q["having"], ix)
    t.append(str(len(q["order"])))
    for e, d in q["order"]:
        t += ["D" if d else "A"] + expr_toks(e, ix)
    if cal_terms(case):
        lines.append("cal " + " ".join(tok(d) for d in cal_terms(case)))
    lines.append(" ".join(t))
    return lines


def select_model_obs(case, out):
    ans = out[-1]
    if ans.startswith("bad") or "#" not in ans:
        return ["model:" + ans]
    cal = []
    if cal_terms(case):  # an invalid value: only that it is invalid
        cal = ["cal " + " ".join("0" if c.startswith("0:") else c for c in out[-2].split(" "))]
    ix = var_index(case)
    names = {i: n for n, i in ix.items()}
    vs, _, body = ans.partition("#")
    vars_ = [names[int(v)] for v in vs.split(",") if v != ""]
    rows = [tuple(canon_tok(c) for c in r.split(",")) for r in body.split(";")] if body != "" else []
    if not vars_:
        rows = [() for _ in rows]
    return cal + obs_lines(case, vars_, rows)


# ------------------------------------------------------------------ generator

INTS = [0, 1, 2, 3, -2, 10, 1, 2]
DECS = [(5, 1), (15, 1), (20, 1), (-125, 2), (25, 1), (10, 1), (333, 2), (100, 2), (150, 2), (200, 2), (50, 2)]
# xsd:double / xsd:float: dyadic values, values that are not binary fractions (0.1 + 0.2 != 0.3 in binary64, the sum depends
# on the order), 2^53 (1.0 is absorbed); every lexical form is the repr() of its value
DBLS = [(15, 1), (25, 2), (20, 1), (-10, 1), (1, 1), (2, 1), (3, 1), (7, 1), (11, 1), (1, 1), (3, 1), (90071992547409920, 1), (10, 1)]
assert all(repr(float(dec_lex(m, s_))) == dec_lex(m, s_) for m, s_ in DBLS)
STRS = ["", "a", "b", "ab", "B", "10", "a"]
IRIS = ["a", "b", "A", "r0"]
BNS = ["b1", "b2"]
# xsd:dateTime: without / with timezone, one instant under several UTC offsets (2020-01-01T00:00Z four ways), offsets that
# move the instant into another day / month / year, leap days, the same local time with and without timezone
DTS = [(2020, 1, 1, 0, 0, 0, None), (2020, 1, 1, 0, 0, 0, 0), (2020, 1, 1, 5, 30, 0, 330), (2019, 12, 31, 23, 0, 0, -60),
       (2019, 12, 31, 10, 0, 0, -840), (2019, 12, 31, 23, 0, 0, None), (2020, 2, 29, 12, 0, 0, None), (2020, 3, 1, 0, 0, 0, None),
       (2020, 3, 1, 0, 0, 0, 60), (2020, 2, 29, 23, 30, 0, 0), (1999, 12, 31, 23, 59, 59, 0), (2000, 1, 1, 0, 0, 0, None),
       (2021, 1, 1, 0, 0, 1, -840), (1900, 3, 1, 0, 0, 0, None), (1900, 2, 28, 23, 59, 59, None), (2020, 1, 1, 0, 0, 0, -1),
       (2020, 1, 1, 0, 1, 0, 0), (1, 1, 1, 0, 0, 0, None), (9999, 12, 31, 23, 59, 59, 0)]
DATES = [(2020, 1, 1), (2019, 12, 31), (2020, 2, 29), (2020, 3, 1), (2000, 1, 1), (1900, 3, 1), (1900, 2, 28), (2100, 2, 28),
         (2100, 3, 1), (2020, 12, 31), (2021, 1, 1)]


def gen_cal_probe(rng):
    y = rng.choice([rng.randint(1, 9999), rng.choice([1, 4, 100, 400, 1900, 2000, 2023, 2024, 2100, 9999])])
    mo = rng.choice([rng.randint(1, 12), 2, 2, 12, 1, 13, 0][:rng.choice([1, 5, 7])])
    d = rng.choice([rng.randint(1, 28), 28, 29, 30, 31, 1, 32, 0][:rng.choice([1, 6, 8])])
    if rng.random() < 0.4:
        return ["Y", y, mo, d]
    h, mi, sec = rng.choice([rng.randint(0, 23), 0, 23, 24]), rng.choice([rng.randint(0, 59), 0, 59, 60]), rng.choice([rng.randint(0, 59), 0, 59, 60])
    tz = rng.choice([None, None, 0, 330, -60, -840, 840, 1, -1, rng.randint(-839, 839)])
    if tz is not None and (y < 2 or y > 9998):
        tz = None  # (an offset that leaves year 1..9999 overflows CPython's datetime arithmetic: not modelled)
    return ["T", y, mo, d, h, mi, sec, tz]


def gen_time(rng, small=False):
    if rng.random() < 0.25:
        return ["Y"] + list(rng.choice(DATES[:3] if small else DATES))
    return ["T"] + list(rng.choice(DTS[:5] if small else DTS))


def gen_term(rng, profile, bn_ok):
    r = rng.random()
    if profile == "int":
        return ["I", rng.choice(INTS)]
    if profile == "num":
        if r < 0.5:
            return ["I", rng.choice(INTS)]
        if r < 0.85:
            return ["D"] + list(rng.choice(DECS))
        if r < 0.93:
            return ["F"] + list(rng.choice(DBLS))
        if r < 0.96:
            return ["F"] + list(rng.choice(DBLS)) + ["float"]
        # derived integer datatypes, with the boundary value 0 of the non-negative ones (mutant C08-5: `>= 0` -> `> 0` in
        # term._well_formed_non_negative_integer made "0"^^xsd:nonNegativeInteger ill-typed, i.e. no longer a number)
        return ["I", rng.choice([0, 1, 2, 3, 0]), rng.choice(["int", "unsignedInt", "short", "nonNegativeInteger", "nonNegativeInteger"])]
    if profile == "str":
        if r < 0.85:
            return ["S", rng.choice(STRS), ""]
        return ["S", rng.choice(["a", "b"]), rng.choice(["en", "fr", "en", "de", "EN", "EN"])]
    if profile == "dbl":  # doubles (now and then a float / decimal / integer): binary64 sums, left to right
        if r < 0.8:
            return ["F"] + list(rng.choice(DBLS))
        if r < 0.88:
            return ["F"] + list(rng.choice(DBLS[:11])) + ["float"]
        return ["D"] + list(rng.choice(DECS)) if r < 0.95 else ["I", rng.choice(INTS)]
    if profile == "time":  # xsd:dateTime / xsd:date, now and then something else
        if r < 0.85:
            return gen_time(rng)
        return rng.choice([["I", 1], ["D", 15, 1], ["S", "2020-01-01", ""], ["B", 1], ["U", "a"], ["F", 15, 1]])
    if profile == "key":  # few distinct values, for grouping
        if r < 0.15:
            return gen_time(rng, True)
        return rng.choice([["I", 1], ["I", 2], ["S", "a", ""], ["U", "a"], ["I", 1], ["D", 10, 1], ["S", "", ""], ["B", 0]])
    # mixed
    if r < 0.06:
        return gen_time(rng)
    if r < 0.25:
        return ["I", rng.choice(INTS)]
    if r < 0.4:
        return ["D"] + list(rng.choice(DECS))
    if r < 0.58:
        return ["S", rng.choice(STRS), ""]
    if r < 0.7:
        return ["U", rng.choice(IRIS)]
    if r < 0.8:
        return ["B", rng.randint(0, 1)]
    if r < 0.86:
        return ["F"] + list(rng.choice(DBLS))
    if r < 0.92 and bn_ok:
        return ["N", rng.choice(BNS)]
    if r < 0.96:
        return ["S", rng.choice(["a", "b"]), rng.choice(["en", "fr", "en", "de", "EN", "EN"])]
    # (derived integer datatypes stay in the purely numeric columns: next to strings Literal.__gt__ is not
    #  transitive — known finding C08-K1, exercised by its witness — and then the answer depends on the sort algorithm)
    return ["I", rng.choice(INTS)]


def gen_case(rng, tier, i):
    src = rng.choice(["values"] * 5 + ["optional"] * 3 + ["bgp"] * 2 + ["empty"])
    nv = rng.choice([1, 2, 2, 3, 3])
    names = ["a", "b", "c"][:nv]
    profiles = [rng.choice(["int", "num", "num", "str", "key", "key", "mixed", "mixed", "time", "dbl"]) for _ in names]
    nrows = 0 if src == "empty" else rng.choice([0, 1, 2, 3, 4, 5, 6, 7, 8, 9]) if src == "values" else rng.randint(1, 8)
    p_unbound = 0.0 if src == "bgp" else rng.choice([0, 0.1, 0.25, 0.5])
    rows = []
    for k in range(nrows):
        if rows and rng.random() < 0.2:
            r = list(rng.choice(rows))[:nv]  # duplicate solution (same cells)
        else:
            r = [None if rng.random() < p_unbound else gen_term(rng, pr, src in ("optional", "bgp")) for pr in profiles]
        if src in ("optional", "bgp"):
            r = r + [["U", f"r{k}"]]
        rows.append(r)
    if src == "optional" and rows and rng.random() < 0.15:
        rows.insert(rng.randint(0, len(rows)), list(rng.choice(rows)))  # the same row node twice in VALUES ?r
    if not rows:
        src = "empty"  # (an empty VALUES block does not translate in rdflib: not this property's business)
    vars_ = names + (["r"] if src in ("optional", "bgp") else [])
    if src == "empty" and nv == 1:
        vars_ = ["a"]
    pa = 0.12 if tier == "thorough" else 0.05  # share of each public-surface axis (design.d/C08.md, Surface audit)
    q = gen_query(rng, vars_, names, profiles, pa)
    case = {"src": src, "vars": vars_, "rows": rows, "q": q}
    if rng.random() < 0.3:  # random calendar probes (field values may be invalid): only their calendar functions are compared
        case["cal"] = [gen_cal_probe(rng) for _ in range(rng.randint(1, 4))]
    # -- how the query is put: keyword options, a prepared query object evaluated three times
    if rng.random() < 2 * pa:
        modes = ["prepared", "prepared", "initNs", "base"] + (["initBindings", "initBindings"] if src == "values" else [])
        mode = rng.choice(modes)
        case["call"] = {"mode": mode}
        if mode == "initBindings":
            i = rng.randrange(len(names))
            col = [r[i] for r in rows if r[i] is not None]
            val = rng.choice(col) if col and rng.random() < 0.75 else gen_term(rng, profiles[i], False)
            case["call"].update({"var": names[i], "val": val})
            if not input_solutions(case):  # nothing left: rdflib's unbound row for an empty GROUP BY would carry the pre-bound value
                del case["call"]
    # -- what the query is put to
    if rng.random() < 2 * pa:
        case["store"] = rng.choice(["cg", "dataset", "union", "union", "aggregate", "aggregate"])
    # -- spelling
    style = {k: True for k in ("bare_order", "offset_first", "lower") if rng.random() < pa}
    if style:
        case["style"] = style
    # -- the whole query as a sub-select
    if rng.random() < pa:
        case["wrap"] = True
    # -- SELECT *
    if not is_grouped(q) and all(p[0] == "v" for p in q["proj"]) and "u" not in _all_vars(q) \
            and (case.get("call") or {}).get("mode") != "initBindings" and rng.random() < 2 * pa:
        q["star"] = True
        q["proj"] = [["v", v] for v in sorted(vars_)]
    return case


def gen_const(rng):
    return rng.choice([["I", 1], ["I", 2], ["I", 0], ["D", 5, 1], ["D", 15, 1], ["I", 3]])


def gen_key_const(rng):
    return rng.choice([["I", 1], ["I", 2], ["S", "a", ""], ["U", "a"], ["D", 10, 1], ["S", "", ""], ["B", 0], ["U", "b"], ["I", 0],
                       ["S", "b", ""], ["B", 1], ["T"] + list(DTS[1]), ["T"] + list(DTS[0]), ["Y"] + list(DATES[0])])


def gen_agg(rng, names, profiles):
    kind = rng.choice(["COUNT", "COUNT", "SUM", "SUM", "AVG", "MIN", "MAX", "SAMPLE", "GROUP_CONCAT"])
    dist = rng.random() < 0.35
    v = rng.choice(names)
    if kind == "COUNT" and rng.random() < 0.4:
        return ["agg", kind, dist, "*", None]
    sep = None
    if kind == "GROUP_CONCAT":
        sep = rng.choice([None, "|", ", ", ""])
        return ["agg", kind, dist, ["v", v], sep]
    r = rng.random()
    if r < 0.75:
        arg = ["v", v]
    elif r < 0.9:
        arg = [rng.choice("+-"), ["v", v], ["c", gen_const(rng)]]
    else:
        arg = ["+", ["v", v], ["v", rng.choice(names)]]
    return ["agg", kind, dist, arg, sep]


def gen_query(rng, vars_, names, profiles, pa=0.05):
    q = {"mod": rng.choice([None, None, None, "DISTINCT", "DISTINCT", "REDUCED"]), "proj": [], "group": None,
         "having": None, "order": [], "limit": None, "offset": None}
    aliases = ["x", "y", "z"]
    grouped = rng.random() < 0.55
    if grouped:
        r = rng.random()
        kvars = [] if r < 0.3 else [rng.choice(vars_)] if r < 0.8 else rng.sample(vars_, min(2, len(vars_)))
        group, keys = [], []
        for j, k in enumerate(kvars):
            if rng.random() < 2 * pa:  # GROUP BY (expr): a key that has no name
                group.append(["ex", [rng.choice("+-"), ["v", k], ["c", gen_const(rng)]]])
            elif rng.random() < 0.2:  # GROUP BY (expr AS ?k)
                e = ["v", k] if rng.random() < 0.4 else [rng.choice("+-"), ["v", k], ["c", gen_const(rng)]]
                group.append(["as", e, "k" + str(j)])
                keys.append("k" + str(j))
            else:
                group.append(k)
                keys.append(k)
        if group and rng.random() < pa:  # a key the pattern never binds
            group.append("u")
            keys.append("u")
        q["group"] = group or None
        shown = [k for k in keys if rng.random() < 0.7]
        for k in shown:
            q["proj"].append(["v", k])
        nagg = rng.choice([1, 1, 2, 3]) if (q["group"] is None or rng.random() < 0.9) else 0
        for j in range(nagg):
            a = gen_agg(rng, vars_ if rng.random() < 0.2 else names, profiles)
            r = rng.random()
            numeric_agg = a[1] in ("COUNT", "SUM", "AVG")
            if r < 0.7 or not numeric_agg:
                e = a
            elif r < 0.85:
                e = [rng.choice("+-"), a, ["c", gen_const(rng)]]
            elif r < 0.93 or not keys:
                e = ["+", a, gen_agg(rng, names, profiles)]
            else:
                e = ["+", a, ["v", rng.choice(keys)]]
            q["proj"].append(["e", e, aliases[j]])
        if not q["proj"]:
            if keys:
                q["proj"].append(["v", keys[0]])
            else:
                q["proj"].append(["e", ["agg", "COUNT", False, "*", None], "x"])
        rng.shuffle(q["proj"])
        if rng.random() < 0.4:
            a = gen_agg(rng, names, profiles)
            while a[1] not in ("COUNT", "SUM", "AVG"):
                a = gen_agg(rng, names, profiles)
            op = rng.choice(["<", ">", "=", "!=", "<=", ">="])
            r = rng.random()
            if r < 0.45 or not keys:  # aggregates only
                lhs = a if rng.random() < 0.8 else ["+", a, ["c", gen_const(rng)]]
                q["having"] = ["cmp", op, lhs, ["c", gen_const(rng)]]
            elif r < 0.8:  # the group key only (selected or not): HAVING without any aggregate
                k = ["v", rng.choice(keys)]
                c = ["c", gen_key_const(rng)]
                op = rng.choice(["=", "!=", "=", "!=", "<", ">", "<=", ">="])
                q["having"] = ["cmp", op, k, c] if rng.random() < 0.8 else ["cmp", op, c, k]
            else:  # key and aggregate together
                k = ["v", rng.choice(keys)]
                q["having"] = ["cmp", op, a, k] if rng.random() < 0.5 else ["cmp", op, [rng.choice("+-"), a, k], ["c", gen_const(rng)]]
        if q["having"] is not None and rng.random() < 3 * pa:  # HAVING (c1) (c2)
            a2 = gen_agg(rng, names, profiles)
            while a2[1] not in ("COUNT", "SUM", "AVG"):
                a2 = gen_agg(rng, names, profiles)
            h2 = ["cmp", rng.choice(["<", ">", "=", "!=", "<=", ">="]), a2, ["c", gen_const(rng)]]
            q["having"] = ["and", q["having"], h2] if rng.random() < 0.5 else ["and", h2, q["having"]]
        pool = [["v", k] for k in keys] * 2 + [["v", p[2]] for p in q["proj"] if p[0] == "e"] * 2
        nk = rng.choice([0, 0, 1, 1, 2, 3])
        use_agg_key = rng.random() < 0.3
        for _ in range(nk):
            if use_agg_key and rng.random() < 0.6:
                a = gen_agg(rng, names, profiles)
                e = a if rng.random() < 0.8 else ["+", a, ["c", gen_const(rng)]]
                q["order"].append([e, rng.random() < 0.4])
            elif pool:
                q["order"].append([rng.choice(pool), rng.random() < 0.4])
        if q["group"] and rng.random() < 0.15:
            # a fixed share: ORDER BY on the TWIN of an aggregate that SELECT / HAVING already hold — same function and
            # argument, the other DISTINCT-ness (or another GROUP_CONCAT separator).  translateAggregates must collect it as
            # an aggregate of its own (seeded C08-4 / C08-10 re-used the collected one and ordered by the wrong value).
            held = [x for p in q["proj"] if p[0] == "e" for x in _aggs_in(p[1])] + _aggs_in(q["having"])
            held = [x for x in held if x[1] in ("COUNT", "SUM", "AVG", "GROUP_CONCAT")]
            if not held:
                x = ["agg", rng.choice(["COUNT", "COUNT", "SUM"]), rng.random() < 0.5, ["v", rng.choice(names)], None]
                q["proj"].append(["e", x, "w"])
                held = [x]
            x = rng.choice(held)
            if x[1] == "GROUP_CONCAT" and rng.random() < 0.5:
                twin = ["agg", x[1], x[2], x[3], rng.choice([s_ for s_ in (None, "|", ", ", "") if s_ != x[4]])]
            else:
                twin = ["agg", x[1], not x[2], x[3], x[4]]
            q["order"].insert(0, [twin, rng.random() < 0.5])
            q["order"] = q["order"][:3]
            q["twin"] = True
    else:
        cols = rng.sample(vars_, rng.randint(1, len(vars_)))
        for c in cols:
            q["proj"].append(["v", c])
        if rng.random() < 0.3:
            v = rng.choice(names)
            e = [rng.choice("+-"), ["v", v], ["c", gen_const(rng)]] if rng.random() < 0.7 else ["+", ["v", v], ["v", rng.choice(names)]]
            q["proj"].insert(rng.randint(0, len(q["proj"])), ["e", e, "x"])
        pool = [["v", v] for v in vars_] * 3 + [["v", p[2]] for p in q["proj"] if p[0] == "e"] * 2 + \
            [["+", ["v", rng.choice(names)], ["c", gen_const(rng)]]]
        if rng.random() < pa:  # a variable the pattern never binds: an unbound column / sort key
            q["proj"].append(["v", "u"])
            pool += [["v", "u"]] * 3
        for _ in range(rng.choice([0, 1, 1, 2, 2, 3])):
            q["order"].append([rng.choice(pool), rng.random() < 0.4])
    if rng.random() < 0.35:
        q["limit"] = rng.choice([0, 1, 2, 3, 5])
    if rng.random() < 0.3:
        q["offset"] = rng.choice([0, 1, 2, 4])
    return q


# ------------------------------------------------------------------ shrinking, matchers


def shrink(case):
    q = case["q"]
    rows = case["rows"]
    if case.get("cal"):
        yield {k: v for k, v in case.items() if k != "cal"}
    for i in range(len(rows)):
        yield {**case, "rows": rows[:i] + rows[i + 1:]}
    for f, v in (("limit", None), ("offset", None), ("mod", None), ("having", None)):
        if q[f] is not None:
            yield {**case, "q": {**q, f: v}}
    for i in range(len(q["order"])):
        yield {**case, "q": {**q, "order": q["order"][:i] + q["order"][i + 1:]}}
    if len(q["proj"]) > 1:
        used = {e[1] for e, _ in q["order"] if e[0] == "v"}
        for i, p in enumerate(q["proj"]):
            if p[0] == "e" and p[2] in used:
                continue
            rest = q["proj"][:i] + q["proj"][i + 1:]
            if q["group"] is None and is_grouped(q) and not any(x[0] == "e" and has_agg(x[1]) for x in rest) \
                    and not has_agg(q["having"]) and not any(has_agg(e) for e, _ in q["order"]):
                continue
            yield {**case, "q": {**q, "proj": rest}}
    for i, p in enumerate(q["proj"]):
        if p[0] == "e" and p[1][0] in "+-":
            for sub in (p[1][1], p[1][2]):
                if has_agg(sub) or not has_agg(p[1]):
                    yield {**case, "q": {**q, "proj": q["proj"][:i] + [["e", sub, p[2]]] + q["proj"][i + 1:]}}
    for i, r in enumerate(rows):
        for j, c in enumerate(r):
            if c is not None and case["src"] in ("values",) :
                yield {**case, "rows": rows[:i] + [r[:j] + [None] + r[j + 1:]] + rows[i + 1:]}
            if c is not None and c[0] != "I" and not (case["src"] != "values" and j == len(r) - 1):
                yield {**case, "rows": rows[:i] + [r[:j] + [["I", 1]] + r[j + 1:]] + rows[i + 1:]}


def _m_order_derived(case, result):
    """ORDER BY over a derived numeric datatype (unsignedInt, short, int, byte …) next to non-numeric literals (strings, booleans, dates):
    Literal.__gt__ orders cross-datatype pairs by datatype URI, which is not transitive with value order"""
    if not any(v.startswith("order") for v in result["viol"]):
        return False
    derived = any(c is not None and c[0] == "I" and len(c) > 2 for r in case["rows"] for c in r)
    other = any(c is not None and c[0] in "SBTY" for r in case["rows"] for c in r)  # (T, Y: the xsd:byte / xsd:date shape of K1)
    return derived and other


MATCHERS = {"order_derived_numeric": _m_order_derived}


# ------------------------------------------------------------------ regenerated tables (source -> Lean)


XSD_NUMERIC_NAMES = ["integer", "decimal", "float", "double", "byte", "int", "long", "negativeInteger", "nonNegativeInteger",
                     "nonPositiveInteger", "positiveInteger", "short", "unsignedByte", "unsignedInt", "unsignedLong", "unsignedShort"]
TABLE_DT_NAMES = XSD_NUMERIC_NAMES[:4] + sorted(XSD_NUMERIC_NAMES[4:] + ["boolean", "string", "date", "dateTime"])


def TABLES():
    """lean/RV/C08/Tables.lean, extracted BEHAVIOURALLY from the live rdflib (no private table is read, so a
    refactoring that keeps the behaviour keeps the tables): `type_promotion(t1, t2)` called on all pairs of a fixed
    list of XSD datatypes (TypeError = none), the super type as `type_promotion(t, t)`, which datatypes
    `operators.numeric` accepts, which datatypes Literal comparison treats as numeric (value equality with an
    xsd:integer), the ORDER BY position of one representative per kind (= `_val` ranks), the datatype-URI string order, and which of the
    seven aggregates evaluate in a query."""
    from rdflib.plugins.sparql.datatypes import type_promotion
    from rdflib.plugins.sparql.operators import numeric
    from rdflib.plugins.sparql.sparql import SPARQLError

    names = list(TABLE_DT_NAMES)
    by_uri = sorted(names, key=lambda n: XS + n)
    U = lambda n: URIRef(XS + n)

    def promo(a, b):
        try:
            r = type_promotion(U(a), U(b))
        except TypeError:
            return None
        r = str(r)
        if not r.startswith(XS) or r[len(XS):] not in names:
            raise ValueError(f"type_promotion({a}, {b}) = {r}: outside the table's datatypes")
        return r[len(XS):]

    WELL = {"date": ("2020-01-01",), "dateTime": ("2020-01-01T00:00:00",)}  # a well-typed lexical form per datatype

    def acc(n):
        try:
            numeric(Literal(WELL.get(n, ("1",))[0], datatype=U(n)))
            return True
        except SPARQLError:
            return False

    def numeric_term(n):  # compared in value space with other numeric datatypes?
        other = U("decimal" if n == "integer" else "integer")
        for lex in WELL.get(n, ("1", "-1")):  # a lexical form that is well-typed for n
            try:
                if Literal(lex, datatype=U(n)).eq(Literal("1" if n in WELL else lex, datatype=other)) is True:
                    return True
            except TypeError:
                pass
        return False

    sup = {}
    for n in names:
        r = promo(n, n)
        if r is None:
            raise ValueError(f"type_promotion({n}, {n}) raises")
        sup[n] = r
    # kind ranks of the ORDER BY key, observed through a query: unbound, blank node, IRI, literal
    g = Graph()
    T, P, TY = URIRef(E_NS + "T"), URIRef(E_NS + "p"), URIRef(E_NS + "t")
    reps = {"Variable": None, "BNode": BNode("b"), "URIRef": URIRef(E_NS + "u"), "Literal": Literal("l")}
    for k, (kind, term) in enumerate(reps.items()):
        g.add((URIRef(E_NS + "s%d" % k), TY, T))
        if term is not None:
            g.add((URIRef(E_NS + "s%d" % k), P, term))
    order = [b.get(Variable("v")) for b in g.query(
        "SELECT ?v WHERE { ?s <%s> <%s> OPTIONAL { ?s <%s> ?v } } ORDER BY ?v" % (TY, T, P)).bindings]
    if len(order) != 4:
        raise ValueError("rank probe: expected 4 solutions")
    ranks = {kind: order.index(term) for kind, term in reps.items()}
    g = Graph()
    evaluated = []
    for kw in ["COUNT", "SAMPLE", "SUM", "AVG", "MIN", "MAX", "GROUP_CONCAT"]:
        try:
            rows = list(g.query("SELECT (%s(?v) AS ?x) WHERE { VALUES ?v { 1 2 } }" % kw).bindings)
            if len(rows) == 1 and rows[0].get(Variable("x")) is not None:
                evaluated.append(kw)
        except Exception:  # noqa: BLE001
            pass
    L = ["/- GENERATED on every run by harness/c08.py TABLES() by PROBING the live rdflib: type_promotion(t1, t2) on all",
         "   pairs, operators.numeric, Literal.eq, evalutils._val, one query per aggregate — do not edit. -/",
         "namespace RV.C08", "",
         "/-- the XSD numeric datatypes, plus boolean, string, date and dateTime -/",
         "inductive DT", "  " + " ".join("| " + n for n in names), "  deriving DecidableEq, Repr", "",
         "def DT.all : List DT := [" + ", ".join("." + n for n in names) + "]", "",
         "def DT.name : DT → String"] + [f'  | .{n} => "{n}"' for n in names] + ["",
         "def DT.ofName? (s : String) : Option DT := DT.all.find? (fun d => d.name == s)", "",
         "/-- position of the datatype URI in Python `str` order (Literal.__gt__ orders unlike datatypes by URI) -/",
         "def DT.uriRank : DT → Nat"] + [f"  | .{n} => {by_uri.index(n)}" for n in names] + ["",
         "/-- datatypes that Literal comparison takes into value space together with the other numeric ones -/",
         "def DT.isNumericTerm : DT → Bool"] + \
        [f"  | .{n} => {'true' if numeric_term(n) else 'false'}" for n in names] + ["",
         "/-- datatypes accepted by rdflib.plugins.sparql.operators.numeric -/", "def DT.isNumericOp : DT → Bool"] + \
        [f"  | .{n} => {'true' if acc(n) else 'false'}" for n in names] + ["",
         "/-- the type a datatype is promoted as: type_promotion(t, t) -/", "def DT.superType : DT → DT"] + \
        [f"  | .{n} => .{sup[n]}" for n in names] + ["",
         "/-- type_promotion(t1, t2); none = it raises TypeError -/", "def promoTab : DT → DT → Option DT"]
    for a_ in names:
        for b_ in names:
            r = promo(a_, b_)
            if r is not None:
                L.append(f"  | .{a_}, .{b_} => some .{r}")
    L += ["  | _, _ => none", "",
          "/-- kind ranks of ORDER BY keys (evalutils._val), observed by sorting one term of each kind -/",
          f"def rankVariable : Nat := {ranks['Variable']}", f"def rankBNode : Nat := {ranks['BNode']}",
          f"def rankIRI : Nat := {ranks['URIRef']}", f"def rankLiteral : Nat := {ranks['Literal']}", "",
          "/-- aggregates that evaluate to a value in `SELECT (AGG(?v) AS ?x) WHERE { VALUES ?v { 1 2 } }` -/",
          "def aggregatesEvaluated : List String := [" + ", ".join(f'"{k}"' for k in evaluated) + "]", "",
          "end RV.C08", ""]
    return "\n".join(L)
