"""C05 — parsers read every legal spelling of a graph; N-Triples/N-Quads output is valid.  DESIGN §6 C05.

Case kinds
  {"kind":"spell","fmt":F,"quads":[…],"streams":[seed…],"off":[feature…]}
        F ∈ nt nquads turtle trig xml json-ld.  The independent writer (harness/c05_spell.py) renders the
        graph once per choice stream; rdflib parses every rendering handed over as data=str, data=bytes,
        file=<binary file object>, source=<path>, source=BytesIO; every result must be ≅ the graph.
  {"kind":"doc","fmt":F,"doc":text,"quads":[…]}     one explicit document (witnesses of findings)
  {"kind":"out","quads":[…]}   rdflib's own nt / nquads output is read by a strict reader of the W3C grammar
        (Python oracle here, the verified Lean reader through the driver) and must mean the same graph;
        xml / pretty-xml / trix / json-ld output must be well-formed (xml.dom.minidom, json).
  {"kind":"w3c","suite":"ntriples"|"nquads"}   the W3C syntax tests shipped with rdflib through both strict
        readers (sanity check of the reference) and the positive ones through rdflib.

Observations compared with the Lean driver (lean/RV/C05/Drive.lean):
  spell nt/nquads : what the strict Lean reader makes of the rendered document  vs  the graph rdflib read
  spell turtle/trig: every string token / PN_LOCAL / relative reference the writer produced, recomputed by the
                     Lean codec (and read back there)
  out            : what the Lean reader makes of rdflib's N-Triples / N-Quads bytes  vs  the graph serialised
  w3c            : accept / reject per test file
"""
from __future__ import annotations

import io
import json
import os
import re
import shutil
import tempfile
import warnings
import xml.dom.minidom

import core  # noqa: F401  (puts the repository under test first on sys.path)
import c05_spell as sp
import isoutil
from rdflib import BNode, Dataset, Graph, Literal, URIRef

warnings.filterwarnings("ignore")
import logging  # noqa: E402

logging.getLogger("rdflib").setLevel(logging.CRITICAL)

ID = "C05"
LEAN_TARGETS = ["RV.C05.Props", "RV.C05.Audit"]
AUDIT = "RV/C05/Audit.lean"
DRIVER = "drv_c05"
CASES = {"quick": 420, "thorough": 12000, "search": 3000}
RULE = ("random graphs/datasets (IRIs in several namespaces incl. query/fragment/odd local names, literals over a "
        "nasty character pool, language tags, datatypes, shorthand-able and not shorthand-able numerics, blank nodes, "
        "collections, blank-node graph names) rendered by the independent writer under 3-8 choice streams per case "
        "in N-Triples, N-Quads, Turtle, TriG, RDF/XML, JSON-LD and parsed through 5 carriers; rdflib's own "
        "nt/nquads/xml/pretty-xml/trix/json-ld output checked by strict readers; non-trivial = at least one document "
        "was parsed (or one output produced) for a non-empty graph; distinct = distinct (kind, fmt, graph, streams)")
ASSUMPTIONS = [
    "terms are compared as rdflib constructs them from (lexical form, datatype, language) with its default literal "
    "normalisation (C09's subject); xsd:string-typed and plain literals are kept apart as rdflib does",
    "lone surrogates are outside the quantifier (not encodable as UTF-8; Lean Char is a Unicode scalar value)",
    "the document base is given explicitly (publicID) so that all carriers resolve relative IRIs alike",
]
TRUSTED = [
    "harness/c05_spell.py document-level writers (Turtle/TriG/RDF-XML/JSON-LD/N-Triples/N-Quads): trusted to emit "
    "legal text meaning the given graph; their string, PN_LOCAL and relative-IRI tokens are recomputed and read back "
    "by the verified Lean codecs on every run; N-Triples/N-Quads documents are additionally read by the Lean reader",
    "harness/c05.py Python transcription of the N-Triples/N-Quads grammar (oracle for viol; cross-checked against the "
    "Lean reader on every document and on the W3C suites)",
    "xml.dom.minidom / json of the standard library as well-formedness oracles",
]

BASE = "http://example.org/base/doc"
XSD = sp.XSD
RDF = sp.RDF
DEFAULT = URIRef("urn:x-rdflib:default")

# ------------------------------------------------------------------ strict N-Triples / N-Quads reader (Python oracle)

_HEX = "[0-9A-Fa-f]"
_UCHAR = r"(?:\\u%s{4}|\\U%s{8})" % (_HEX, _HEX)
_IRIREF = r'<((?:[^\x00-\x20<>"{}|^`\\]|%s)*)>' % _UCHAR
_ECHAR = r"\\[tbnrf\"'\\]"
_STRING = r'"((?:[^\x22\x5C\x0A\x0D]|%s|%s)*)"' % (_ECHAR, _UCHAR)
_PNB = ("A-Za-z\u00C0-\u00D6\u00D8-\u00F6\u00F8-\u02FF\u0370-\u037D\u037F-\u1FFF\u200C-\u200D\u2070-\u218F"
        "\u2C00-\u2FEF\u3001-\uD7FF\uF900-\uFDCF\uFDF0-\uFFFD\U00010000-\U000EFFFF")
_PNU = _PNB + "_:"
_PNC = _PNU + "\\-0-9\u00B7\u0300-\u036F\u203F-\u2040"
_BNODE = r"_:([%s0-9](?:[%s.]*[%s])?)" % (_PNU, _PNC, _PNC)
_LANG = r"@([a-zA-Z]+(?:-[a-zA-Z0-9]+)*)"
_WS = "[ \t]*"
_SUBJ = r"(?:%s|%s)" % (_IRIREF, _BNODE)
_OBJ = r"(?:%s|%s|%s(?:\^\^%s|%s)?)" % (_IRIREF, _BNODE, _STRING, _IRIREF, _LANG)
_NT_LINE = re.compile(_WS + r"(?:" + _SUBJ + _WS + _IRIREF + _WS + _OBJ + _WS + r"\." + _WS + r"(?:#.*)?|#.*)?")
_NQ_LINE = re.compile(_WS + r"(?:" + _SUBJ + _WS + _IRIREF + _WS + _OBJ + _WS + r"(?:" + _SUBJ + ")?" + _WS + r"\." +
                      _WS + r"(?:#.*)?|#.*)?")
_ESC = re.compile(r"\\(?:u(%s{4})|U(%s{8})|(.))" % (_HEX, _HEX), re.S)
_ECH = {"t": "\t", "b": "\b", "n": "\n", "r": "\r", "f": "\f", '"': '"', "'": "'", "\\": "\\"}
_ABS = re.compile(r"^[A-Za-z][A-Za-z0-9+.\-]*:")


class Reject(Exception):
    pass


def _unesc(s):
    def f(m):
        h = m.group(1) or m.group(2)
        if h:
            n = int(h, 16)
            if n > 0x10FFFF or 0xD800 <= n <= 0xDFFF:
                raise Reject("code point")
            return chr(n)
        return _ECH[m.group(3)]
    return _ESC.sub(f, s)


def _iri(s):
    v = _unesc(s)
    if not _ABS.match(v):
        raise Reject("relative IRI")
    return ("I", v)


def strict_read(doc: str, nquads: bool):
    """list of quads (terms as JSON-style tuples, bnode labels as in the text) or raises Reject"""
    out = []
    for line in re.split("[\r\n]", doc):
        m = (_NQ_LINE if nquads else _NT_LINE).fullmatch(line)
        if m is None:
            raise Reject(line[:80])
        g = m.groups()
        if g[0] is None and g[1] is None:
            continue
        s = _iri(g[0]) if g[0] is not None else ("B", g[1])
        p = _iri(g[2])
        if g[3] is not None:
            o = _iri(g[3])
        elif g[4] is not None:
            o = ("B", g[4])
        else:
            lex = _unesc(g[5])
            o = ("L", lex, _iri(g[6])[1] if g[6] is not None else None, g[7])
        gn = None
        if nquads:
            if g[8] is not None:
                gn = _iri(g[8])
            elif g[9] is not None:
                gn = ("B", g[9])
        out.append((s, p, o, gn))
    return out


# ------------------------------------------------------------------ terms


def term(t):
    if t is None:
        return DEFAULT
    if t[0] == "I":
        return URIRef(t[1])
    if t[0] == "B":
        return BNode(t[1])
    _, lex, dt, lang = t
    if lang is not None:
        return Literal(lex, lang=lang)
    if dt is not None:
        return Literal(lex, datatype=URIRef(dt))
    return Literal(lex)


def quads_rdflib(quads):
    return {(term(s), term(p), term(o), term(g)) for s, p, o, g in quads}


def ds_quads(ds):
    out = set()
    for s, p, o, c in ds.quads((None, None, None, None)):
        cid = c.identifier if isinstance(c, Graph) else c
        out.add((s, p, o, DEFAULT if cid is None or cid == ds.default_context.identifier else cid))
    return out


def g_quads(g):
    return {(s, p, o, DEFAULT) for s, p, o in g}


def enc_term(t):
    """the driver's term syntax (Drive.lean showTerm)"""
    c = lambda s: ",".join(str(ord(x)) for x in s)  # noqa: E731
    if isinstance(t, URIRef):
        return "I" + c(t)
    if isinstance(t, BNode):
        return "B" + c(t)
    if t.language is not None:
        return "G" + c(str(t)) + "|" + c(t.language)
    if t.datatype is not None:
        return "T" + c(str(t)) + "|" + c(str(t.datatype))
    return "P" + c(str(t))


def enc_quads(qs, nquads):
    rows = []
    for s, p, o, g in qs:
        r = enc_term(s) + " " + enc_term(p) + " " + enc_term(o)
        if nquads:
            r += " " + ("-" if g == DEFAULT else enc_term(g))
        rows.append(r)
    return "ok" + "".join(" ; " + r for r in sorted(set(rows)))


def enc_jquads(quads, nquads):
    """the same, from the case's own quads (lexical forms exactly as the document spells them —
    rdflib's literal normalisation is C09's subject, the strict reader does none)"""
    c = lambda s: ",".join(str(ord(x)) for x in s)  # noqa: E731

    def t(x):
        if x[0] == "I":
            return "I" + c(x[1])
        if x[0] == "B":
            return "B" + c(x[1])
        if x[3] is not None:
            return "G" + c(x[1]) + "|" + c(x[3])
        if x[2] is not None:
            return "T" + c(x[1]) + "|" + c(x[2])
        return "P" + c(x[1])
    rows = []
    for s, p, o, g in quads:
        r = t(s) + " " + t(p) + " " + t(o)
        if nquads:
            r += " " + ("-" if g is None else t(g))
        rows.append(r)
    return "ok" + "".join(" ; " + r for r in sorted(set(rows)))


def canon_model_answer(line):
    if not line.startswith("ok"):
        return line
    rows = [r for r in line[2:].split(" ; ") if r.strip()]
    return "ok" + "".join(" ; " + r for r in sorted(set(rows)))


def cps(s):
    return " ".join(str(ord(c)) for c in s)


# ------------------------------------------------------------------ generator

NS = ["http://example.org/base/", "http://example.org/base/sub/", "http://example.org/other/", "http://example.org/",
      "http://other.example/ns#", "http://example.org/base/doc#", "urn:x:", "http://example.org/base/doc?q=",
      "http://xn--e1afmkfd.example/путь/"]
LOCALS = ["a", "b", "s1", "p", "q", "Thing", "a.b", "a-b", "x~y", "1abc", "a:b", "%41", "é", "a.", "_u", "a/b", "",
          "x,y", "it's", "a(b)", "e=mc", "q?x", "50%", "a..b", "-d", ".h", "ü·x", "\u4e2d\u6587", "\U0001F600", "a#b"]
FIXED_IRIS = ["http://example.org/base/doc", "http://example.org/base/", "http://example.org/", "http://example.org",
              "http://example.org/base/doc?x=1", "http://example.org/base/doc#", "http://example.org/base/sub/deep/x",
              "http://example.org/base/doc?x=1#f", "mailto:a@example.org", "http://example.org/base/sub/file.ttl",
              "http://example.org/other/x?y#z", "http://example.org/b\u00a0c", "http://example.org/?a=1&b=2"]
PREDS = ["http://example.org/base/p", "http://example.org/p", "http://other.example/ns#q", RDF + "type",
         "http://example.org/base/sub/r", "http://www.w3.org/2000/01/rdf-schema#label", RDF + "value"]
NASTY = ["", "x", "hello world", '"', "'", "\\", '""', "'''", '"""', "a\"b", "it's", "\n", "\r", "\r\n", "\t", "a\\nb",
         "\\u0041", "line1\nline2", " lead", "trail ", "é", "\u4e2d", "\U0001F600", "\U0010FFFF", "\x7f", "\x08\x0c",
         "\x01", "\x00", "\ufeffx", "\ufffe", "\u2028", "\x85", "<tag>&amp;", "]]>", "a'b\"c", "\\\\", "\\\"", "end\"",
         "end'", "''", "#c", "@en", "^^", "{}", "%41", "a\u0301", "\ud7ff\ue000"]
LANGS = ["en", "en-US", "EN-us", "de-1996", "x-a", "fr-Latn-CA", "zh-cmn-Hans-CN"]
NUMS = [(XSD + "integer", ["0", "5", "-5", "+5", "007", "-0", "123456789012345678901234567890", " 5", "5.", "abc", ""]),
        (XSD + "decimal", ["1.5", ".5", "-0.0", "+.5", "1.50", "00.10", "0.000000001", "5", "5.", "1e3"]),
        (XSD + "double", ["1e0", "1.5E-3", ".5e3", "1.E5", "+1.0e+2", "-0e0", "1.5", "INF", "NaN", "1e400"]),
        (XSD + "boolean", ["true", "false", "1", "0", "TRUE"])]
DTS = [XSD + "string", XSD + "date", "http://example.org/dt", XSD + "anyURI", XSD + "token", "http://example.org/dt?a=1&b=2"]
CLASSES = ["http://example.org/base/Thing", "http://other.example/ns#Class", "http://www.w3.org/2000/01/rdf-schema#Resource",
           "http://example.org/base/sub/T-1"]


def gen_iri(rng):
    r = rng.random()
    if r < 0.12:
        return rng.choice(FIXED_IRIS)
    return rng.choice(NS[: rng.choice([4, 9])]) + rng.choice(LOCALS[: rng.choice([8, len(LOCALS)])])


def gen_literal(rng):
    r = rng.random()
    if r < 0.3:
        dt, lexs = rng.choice(NUMS)
        return ["L", rng.choice(lexs), dt, None]
    s = rng.choice(NASTY)
    if rng.random() < 0.35:
        s = s + rng.choice(NASTY)
    if rng.random() < 0.1:
        s = "".join(rng.choice(NASTY) for _ in range(rng.randint(2, 5)))
    r = rng.random()
    if r < 0.2:
        return ["L", s, None, rng.choice(LANGS)]
    if r < 0.35:
        return ["L", s, rng.choice(DTS), None]
    return ["L", s, None, None]


def gen_quads(rng, dataset, size):
    bn = [["B", "n%d" % i] for i in range(rng.randint(0, 4))]
    graphs = [None]
    if dataset:
        graphs += [["I", gen_iri(rng)] for _ in range(rng.randint(1, 2))]
        if bn and rng.random() < 0.3:
            graphs.append(rng.choice(bn))
        elif rng.random() < 0.15:
            graphs.append(["B", "gg"])
    subjects = [["I", gen_iri(rng)] for _ in range(rng.randint(1, 3))] + bn
    quads = []

    def obj():
        r = rng.random()
        if r < 0.5:
            return gen_literal(rng)
        if r < 0.75 or not bn:
            return ["I", gen_iri(rng)]
        return rng.choice(bn)

    for _ in range(size):
        quads.append([rng.choice(subjects), ["I", rng.choice(PREDS)], obj(), rng.choice(graphs)])
    if rng.random() < 0.3:      # a class: typed nodes, @type
        quads.append([rng.choice(subjects), ["I", RDF + "type"], ["I", rng.choice(CLASSES)], rng.choice(graphs)])
    if rng.random() < 0.2:      # container membership properties: rdf:li
        s, g = rng.choice(subjects), rng.choice(graphs)
        for k in range(1, rng.randint(1, 3) + 1):
            quads.append([s, ["I", RDF + "_%d" % k], obj(), g])
    # collections
    for li in range(rng.choice([0, 0, 1, 1, 2])):
        g = rng.choice(graphs)
        n = rng.randint(0, 3)
        cells = [["B", "l%d_%d" % (li, k)] for k in range(n)]
        head = cells[0] if cells else ["I", RDF + "nil"]
        for k, c in enumerate(cells):
            quads.append([c, ["I", RDF + "first"], obj(), g])
            quads.append([c, ["I", RDF + "rest"], cells[k + 1] if k + 1 < n else ["I", RDF + "nil"], g])
        if rng.random() < 0.75 or not cells:
            quads.append([rng.choice(subjects), ["I", rng.choice(PREDS)], head, g])
        else:
            quads.append([head, ["I", rng.choice(PREDS)], obj(), g])
    out = []
    for q in quads:
        if q not in out:
            out.append(q)
    return out


FMTS = ["turtle", "turtle", "turtle", "trig", "trig", "nt", "nquads", "xml", "json-ld"]


def gen_case(rng, tier, i):
    if i < 2:
        return {"kind": "w3c", "suite": ["ntriples", "nquads"][i]}
    r = rng.random()
    if r < 0.2:
        return {"kind": "out", "quads": gen_quads(rng, rng.random() < 0.6, rng.randint(0, 7))}
    fmt = rng.choice(FMTS)
    dataset = fmt in ("trig", "nquads") or (fmt == "json-ld" and rng.random() < 0.4)
    quads = gen_quads(rng, dataset, rng.randint(0, 7))
    return {"kind": "spell", "fmt": fmt, "quads": quads, "off": [],
            "streams": [rng.randrange(1 << 30) for _ in range(rng.randint(3, 8))]}


# ------------------------------------------------------------------ rendering


def render(fmt, quads, seed, off):
    ch = sp.Ch(seed, off)
    if fmt == "nt":
        doc = sp.write_nlines(quads, ch, False)
    elif fmt == "nquads":
        doc = sp.write_nlines(quads, ch, True)
    elif fmt == "turtle":
        doc = sp.write_turtle(quads, ch, False, BASE)
    elif fmt == "trig":
        doc = sp.write_turtle(quads, ch, True, BASE)
    elif fmt == "xml":
        doc = sp.write_rdfxml(quads, ch, BASE)
    elif fmt == "json-ld":
        doc = sp.write_jsonld(quads, ch, BASE)
    else:
        raise ValueError(fmt)
    return doc, ch


def expressible(fmt, quads):
    """can the syntax express the graph at all? (the writer is only asked for graphs it can spell)"""
    if fmt in ("xml",):
        return sp.rdfxml_expressible(quads)
    if fmt == "json-ld":
        return sp.jsonld_expressible(quads)
    return True


# ------------------------------------------------------------------ implementation side

CARRIERS = ["str", "bytes", "file", "path", "bytesio"]
_TMP = None


def _tmpdir():
    global _TMP
    if _TMP is None or not os.path.isdir(_TMP):
        _TMP = tempfile.mkdtemp(prefix="c05-")
        import atexit
        atexit.register(shutil.rmtree, _TMP, True)
    return _TMP


def parse_with(fmt, doc, carrier, dataset):
    """returns the set of quads rdflib read (default graph = DEFAULT), or raises"""
    g = Dataset() if dataset else Graph()
    kw = {"format": fmt, "publicID": BASE}
    if carrier == "str":
        g.parse(data=doc, **kw)
    elif carrier == "bytes":
        g.parse(data=doc.encode("utf-8"), **kw)
    elif carrier == "bytesio":
        g.parse(source=io.BytesIO(doc.encode("utf-8")), **kw)
    else:
        ext = {"nt": ".nt", "nquads": ".nq", "turtle": ".ttl", "trig": ".trig", "xml": ".rdf", "json-ld": ".jsonld"}[fmt]
        path = os.path.join(_tmpdir(), "d%d%s" % (os.getpid(), ext))
        with open(path, "wb") as f:
            f.write(doc.encode("utf-8"))
        try:
            if carrier == "file":
                with open(path, "rb") as f:
                    g.parse(file=f, **kw)
            else:
                g.parse(source=path, **kw)
        finally:
            os.unlink(path)
    return ds_quads(g) if dataset else g_quads(g)


def _exc(e):
    n = type(e).__name__
    return n if n in ("ParserError", "BadSyntax", "ValueError", "KeyError", "IndexError", "AssertionError",
                      "UnicodeDecodeError", "TypeError", "AttributeError", "SAXParseException", "Exception") else "Other"


def check_doc(fmt, doc, quads, viol, stats, label):
    """parse `doc` through every carrier; each result must be ≅ quads.  Returns the quads read via str (or None)."""
    dataset = fmt in ("trig", "nquads") or any(q[3] is not None for q in quads)
    want = quads_rdflib(quads)
    first = None
    outcomes = []
    for c in CARRIERS:
        try:
            got = parse_with(fmt, doc, c, dataset)
            ok = isoutil.iso(got, want)
            outcomes.append("ok" if ok else "wrong")
            if c == "str":
                first = got
            if not ok and len(viol) < 4:
                extra = sorted(map(_show_q, got - want))[:3]
                missing = sorted(map(_show_q, want - got))[:3]
                viol.append(f"{fmt}-wrong-graph: [{label}] via {c}: read {len(got)} quads, expected {len(want)}; "
                            f"unexpected {extra} missing {missing} :: {doc[:300]!r}")
        except isoutil_budget as e:  # pragma: no cover
            raise e
        except Exception as e:
            outcomes.append("error:" + _exc(e))
            if len(viol) < 4:
                viol.append(f"{fmt}-parse-error: [{label}] via {c}: {_exc(e)}: {str(e)[:160]!r} :: {doc[:300]!r}")
    if len(set(outcomes)) > 1:
        viol.append(f"carrier: [{label}] the same {fmt} document gives different results per carrier: "
                    f"{dict(zip(CARRIERS, outcomes))}")
    stats["docs"] = stats.get("docs", 0) + 1
    stats["parses"] = stats.get("parses", 0) + len(CARRIERS)
    return first


isoutil_budget = RuntimeError


def _show_q(q):
    return " ".join(x.n3() if x is not DEFAULT else "-" for x in q)


def build(quads, dataset):
    if dataset:
        ds = Dataset()
        for s, p, o, g in quads:
            ctx = ds.default_context if g is None else ds.graph(term(g))
            ctx.add((term(s), term(p), term(o)))
        return ds
    g = Graph()
    for s, p, o, _g in quads:
        g.add((term(s), term(p), term(o)))
    return g


XML_FORMATS = ["xml", "pretty-xml"]


def run_out(case):
    quads = case["quads"]
    viol, obs, stats = [], [], {"out_cases": 1}
    triples = [q for q in quads if q[3] is None]
    g = build(triples, False)
    ds = build(quads, True)
    # ---- N-Triples
    nt = g.serialize(format="nt")
    obs.append(enc_quads(g_quads(g), False))
    try:
        back = strict_read(nt, False)
        if quads_rdflib(back) != g_quads(g):
            viol.append(f"nt-meaning: rdflib's N-Triples output means a different graph under the W3C grammar :: {nt[:300]!r}")
    except Reject as e:
        viol.append(f"nt-invalid: rdflib's N-Triples output is not legal N-Triples (at {str(e)!r}) :: {nt[:300]!r}")
    # ---- N-Quads
    nq = ds.serialize(format="nquads")
    obs.append(enc_quads(ds_quads(ds), True))
    try:
        back = strict_read(nq, True)
        if quads_rdflib(back) != ds_quads(ds):
            viol.append(f"nq-meaning: rdflib's N-Quads output means a different dataset under the W3C grammar :: {nq[:300]!r}")
    except Reject as e:
        viol.append(f"nq-invalid: rdflib's N-Quads output is not legal N-Quads (at {str(e)!r}) :: {nq[:300]!r}")
    # ---- XML / JSON well-formedness
    for fmt, src in [("xml", g), ("pretty-xml", g), ("trix", ds), ("json-ld", g), ("json-ld", ds)]:
        try:
            text = src.serialize(format=fmt)
        except Exception as e:
            stats["serialize_refused_" + fmt] = stats.get("serialize_refused_" + fmt, 0) + 1
            continue
        stats["outputs_" + fmt] = stats.get("outputs_" + fmt, 0) + 1
        try:
            if fmt == "json-ld":
                json.loads(text)
            else:
                xml.dom.minidom.parseString(text.encode("utf-8"))
        except Exception as e:
            tag = "json-illformed" if fmt == "json-ld" else "xml-illformed"
            viol.append(f"{tag}: {fmt} output is not well-formed ({type(e).__name__}: {str(e)[:80]}) :: {text[:200]!r}")
    return {"obs": obs, "viol": viol, "nontrivial": bool(quads), "key": "out:" + json.dumps(quads, sort_keys=True),
            "stats": {**stats, "quads": len(quads)}}


def codec_obs(log):
    """expected answers of the driver for the writer's codec calls (see model_lines)"""
    out = []
    for e in log[:60]:
        if e[0] == "str":
            out.append("rt=ok " + cps(e[5]))
        elif e[0] == "pnl":
            out.append(("rt=ok " + cps(e[3])).rstrip() if e[3] else "rt=ok ")
        elif e[0] == "rel":
            out.append("rt=ok " + cps(e[4]) if e[4] else "rt=ok ")
        elif e[0] == "res":
            out.append(cps(e[3]))
    return out


def codec_lines(log):
    ks = lambda k: ",".join(map(str, k)) if k else "-"  # noqa: E731
    out = []
    for e in log[:60]:
        if e[0] == "str":
            out.append(f"str {ord(e[1])} {1 if e[2] else 0} {ks(e[3])} | {cps(e[4])}")
        elif e[0] == "pnl":
            out.append(f"pnl {ks(e[1])} | {cps(e[2])}")
        elif e[0] == "rel":
            out.append(f"rel {e[1]} | {cps(e[2])} | {cps(e[3])}")
        elif e[0] == "res":
            out.append(f"res | {cps(e[1])} | {cps(e[2])}")
    return out


def run_spell(case):
    fmt, quads, off = case["fmt"], case["quads"], case.get("off", [])
    viol, obs, stats = [], [], {"spell_" + fmt: 1}
    if not expressible(fmt, quads):
        return {"obs": [], "viol": [], "nontrivial": False, "key": "inexpressible", "stats": {"inexpressible_" + fmt: 1}}
    for seed in case["streams"]:
        doc, ch = render(fmt, quads, seed, off)
        for k, v in ch.used.items():
            stats["f_" + k] = stats.get("f_" + k, 0) + v
        got = check_doc(fmt, doc, quads, viol, stats, f"stream {seed}")
        if fmt in ("nt", "nquads"):
            want = quads_rdflib(quads)
            if got is not None and isoutil.iso(got, want):
                obs.append(enc_jquads(_doc_labels(quads, seed, off, fmt), fmt == "nquads"))
            else:
                obs.append("rdflib: " + ("error" if got is None else enc_quads(got, fmt == "nquads")))
        else:
            obs += codec_obs(ch.log)
    return {"obs": obs, "viol": viol, "nontrivial": bool(quads),
            "key": "spell:" + fmt + json.dumps(quads, sort_keys=True) + str(case["streams"]),
            "stats": {**stats, "quads": len(quads), "streams": len(case["streams"])}}


def _doc_labels(quads, seed, off, fmt):
    """the expected graph with the blank-node labels the writer used in the document"""
    ch = sp.Ch(seed, off)
    labels = sp._label_map(quads, ch, sp.NT_LABELS, "fancy_labels")
    ren = lambda t: None if t is None else (["B", labels[t[1]]] if t[0] == "B" else t)  # noqa: E731
    return [[ren(s), ren(p), ren(o), ren(g)] for s, p, o, g in quads]


def run_doc(case):
    viol, stats = [], {"doc_cases": 1}
    check_doc(case["fmt"], case["doc"], case["quads"], viol, stats, "doc")
    obs = []
    if case["fmt"] in ("nt", "nquads"):
        obs = [enc_jquads(case["quads"], case["fmt"] == "nquads")]
    return {"obs": obs, "viol": viol, "nontrivial": True, "key": "doc:" + case["doc"], "stats": stats}


def w3c_tests(suite):
    d = os.path.join(core.REPO, "test", "data", "suites", "w3c", suite)
    man = open(os.path.join(d, "manifest.ttl"), encoding="utf-8").read()
    tests = []
    for m in re.finditer(r"rdf:type\s+rdft:Test(NTriples|NQuads)(Positive|Negative)Syntax\s*;(.*?)mf:action\s+<([^>]+)>", man, re.S):
        tests.append((m.group(4), m.group(2) == "Positive"))
    return d, sorted(set(tests))


def run_w3c(case):
    suite = case["suite"]
    nq = suite == "nquads"
    d, tests = w3c_tests(suite)
    viol, obs, stats = [], [], {"w3c_" + suite + "_positive": 0, "w3c_" + suite + "_negative": 0}
    for name, positive in tests:
        doc = open(os.path.join(d, name), encoding="utf-8", newline="").read()
        stats["w3c_" + suite + ("_positive" if positive else "_negative")] += 1
        obs.append("accept" if positive else "reject")
        try:
            ref = strict_read(doc, nq)
            verdict = True
        except Reject:
            ref, verdict = None, False
        if verdict != positive:
            viol.append(f"oracle: the Python strict reader {'rejects' if positive else 'accepts'} W3C test {suite}/{name}")
        if positive and ref is not None:
            try:
                got = parse_with("nquads" if nq else "nt", doc, "str", nq)
                if not isoutil.iso(got, quads_rdflib(ref)):
                    viol.append(f"w3c-wrong-graph: rdflib reads W3C positive test {suite}/{name} as a different graph")
            except Exception as e:
                viol.append(f"w3c-parse-error: rdflib does not parse W3C positive test {suite}/{name}: {_exc(e)} :: {doc[:200]!r}")
    return {"obs": obs, "viol": viol, "nontrivial": True, "key": "w3c:" + suite, "stats": stats}


def run_impl(case):
    k = case["kind"]
    if k == "spell":
        return run_spell(case)
    if k == "out":
        return run_out(case)
    if k == "doc":
        return run_doc(case)
    if k == "w3c":
        return run_w3c(case)
    raise ValueError(k)


# ------------------------------------------------------------------ model side


def model_lines(case):
    k = case["kind"]
    if k == "out":
        quads = case["quads"]
        g = build([q for q in quads if q[3] is None], False)
        ds = build(quads, True)
        return ["ntdoc " + cps(g.serialize(format="nt")), "nqdoc " + cps(ds.serialize(format="nquads"))]
    if k == "doc":
        if case["fmt"] in ("nt", "nquads"):
            return [("nqdoc " if case["fmt"] == "nquads" else "ntdoc ") + cps(case["doc"])]
        return []
    if k == "w3c":
        d, tests = w3c_tests(case["suite"])
        cmd = "nqdoc " if case["suite"] == "nquads" else "ntdoc "
        return [cmd + cps(open(os.path.join(d, n), encoding="utf-8", newline="").read()) for n, _ in tests]
    fmt, quads, off = case["fmt"], case["quads"], case.get("off", [])
    if not expressible(fmt, quads):
        return []
    lines = []
    for seed in case["streams"]:
        doc, ch = render(fmt, quads, seed, off)
        if fmt in ("nt", "nquads"):
            lines.append(("nqdoc " if fmt == "nquads" else "ntdoc ") + cps(doc))
        else:
            lines += codec_lines(ch.log)
    return lines


def select_model_obs(case, out):
    k = case["kind"]
    if k == "w3c":
        return ["reject" if o == "reject" else ("accept" if o.startswith("ok") else o) for o in out]
    if k in ("out", "doc") or (k == "spell" and case["fmt"] in ("nt", "nquads")):
        return [canon_model_answer(o) for o in out]
    return [o.rstrip() if o.endswith(" ") and len(o) > 6 else o for o in out]


# ------------------------------------------------------------------ shrinking, findings

ALL_FEATURES = ["rel_iri", "dot_segments", "iri_uchar", "pname", "pnlocal_esc", "a_keyword", "shorthand", "dquote", "long_string",
                "str_escapes", "collection", "nest_bnode", "anon_subject", "object_lists", "semi_repeat", "semi_trailing",
                "split_subject", "split_graph", "default_braces", "graph_keyword", "kw_case", "no_last_dot", "odd_split",
                "declare_prefix", "sparql_prefix", "sparql_base", "base_directive", "tight", "tight_dot", "odd_ws",
                "comments", "crlf", "cr_eol", "no_final_eol", "leading_comment", "fancy_labels", "min_ws",
                "comment_lines", "empty_lines", "trailing_comment"]


def shrink(case):
    k = case["kind"]
    if k not in ("spell", "out"):
        return
    quads = case["quads"]
    if k == "spell" and len(case["streams"]) > 1:
        for s in case["streams"]:
            yield {**case, "streams": [s]}
    for i in range(len(quads)):
        yield {**case, "quads": quads[:i] + quads[i + 1:]}
    if k == "spell":
        for f in ALL_FEATURES + getattr(sp, "XML_FEATURES", []) + getattr(sp, "JSONLD_FEATURES", []):
            if f not in case.get("off", []):
                yield {**case, "off": sorted(case.get("off", []) + [f])}
    # simplify terms
    for i, q in enumerate(quads):
        for j, t in enumerate(q):
            if t is None:
                continue
            for t2 in _simpler(t, j):
                yield {**case, "quads": quads[:i] + [q[:j] + [t2] + q[j + 1:]] + quads[i + 1:]}


def _simpler(t, pos):
    if t[0] == "L":
        _, lex, dt, lang = t
        if dt is not None or lang is not None:
            yield ["L", lex, None, None]
        if len(lex) > 1:
            yield ["L", lex[: len(lex) // 2], dt, lang]
            yield ["L", lex[len(lex) // 2:], dt, lang]
            for i in range(min(len(lex), 6)):
                yield ["L", lex[:i] + lex[i + 1:], dt, lang]
        elif lex not in ("", "x"):
            yield ["L", "x", dt, lang]
    elif t[0] == "I":
        simple = "http://example.org/p" if pos == 1 else "http://example.org/s"
        if t[1] != simple and t[1] not in (RDF + "first", RDF + "rest", RDF + "nil"):
            yield ["I", simple]
    elif t[0] == "B" and pos in (0, 2):
        yield ["I", "http://example.org/s"]


def _feat(case):
    return [f for f in ALL_FEATURES if f not in case.get("off", [])]





def _not_xml(quads):
    return [q for q in quads if q[2][0] == "L" and sp._NOT_XML_CHAR.search(q[2][1])]


def _m_xml_control_chars(case, result):
    """out case whose only complaint is ill-formed XML, caused by literal characters outside the XML 1.0 Char
    production: replacing exactly those characters makes every output well-formed"""
    if case.get("kind") != "out" or not result["viol"]:
        return False
    if any(v.split(":")[0] != "xml-illformed" for v in result["viol"]) or not _not_xml(case["quads"]):
        return False
    clean = [[s, p, (["L", sp._NOT_XML_CHAR.sub("x", o[1]), o[2], o[3]] if o[0] == "L" else o), g]
             for s, p, o, g in case["quads"]]
    return not run_out({"kind": "out", "quads": clean})["viol"]


def _m_doc(case, result):
    return case.get("kind") == "doc"


MATCHERS = {"xml_control_chars": _m_xml_control_chars, "witness_document": _m_doc, "witness_output": lambda c, r: c.get("kind") == "out"}

_BRACKETS = re.compile(r"[()%][^/#:]*$")


def _name_iris(quads):
    """IRIs that the RDF/XML serializers turn into element names: predicates and IRI objects of rdf:type"""
    return [q for q in quads if _BRACKETS.search(q[1][1]) or (q[1][1] == RDF + "type" and q[2][0] == "I" and _BRACKETS.search(q[2][1]))]


def _m_xml_name_brackets(case, result):
    """out case whose only complaint is ill-formed XML, caused by '(' ')' '%' in the local part of an element-name
    IRI: replacing exactly those characters makes every output well-formed"""
    if case.get("kind") != "out" or not result["viol"]:
        return False
    if any(v.split(":")[0] != "xml-illformed" for v in result["viol"]) or not _name_iris(case["quads"]):
        return False
    fix = lambda i: re.sub(r"[()%]", "_", i)  # noqa: E731
    clean = [[s, ["I", fix(p[1])], (["I", fix(o[1])] if p[1] == RDF + "type" and o[0] == "I" else o), g]
             for s, p, o, g in case["quads"]]
    return not run_out({"kind": "out", "quads": clean})["viol"]


MATCHERS["xml_name_brackets"] = _m_xml_name_brackets
