"""C05 — parsers read every legal spelling of a graph; N-Triples/N-Quads output is valid.  DESIGN §6 C05.

Case kinds
  {"kind":"spell","fmt":F,"quads":[…],"streams":[seed…],"off":[feature…]}
        F ∈ nt nquads turtle trig xml json-ld.  The independent writer (harness/c05_spell.py) renders the
        graph once per choice stream; rdflib parses every rendering handed over as data=str, data=bytes,
        file=<binary file object>, source=<path>, source=BytesIO; every result must be ≅ the graph.
  {"kind":"doc","fmt":F,"doc":text,"quads":[…]}     one explicit document (witnesses of findings)
  {"kind":"out","quads":[…]}   rdflib's own nt / nquads output is read by a strict reader of the W3C grammar
        (Python oracle here, the verified Lean reader through the driver) and must mean the same graph;
        xml / pretty-xml / trix / json-ld output must be well-formed (xml.dom.minidom, json).
  {"kind":"w3c","suite":"ntriples"|"nquads"}   the W3C syntax tests shipped with rdflib through both strict
        readers (sanity check of the reference) and the positive ones through rdflib.

  {"kind":"ntline","nq":bool,"lines":[…],"docs":[…]}   round g: single lines (legal, lenient, malformed) and small
        documents (line-end kinds, unterminated / white-space last lines) through rdflib's N-Triples / N-Quads parser
        and through the Lean MODEL OF THAT PARSER (RV/C05/NtParser.lean): same triple / quad, same exception kind.
        The same comparison is made for every line and document of the spell nt/nquads streams, for rdflib's own
        output lines (out) and for every W3C test file, positive and negative (w3c).

Observations compared with the Lean driver (lean/RV/C05/Drive.lean):
  spell nt/nquads : what the strict Lean reader makes of the rendered document  vs  the graph rdflib read
  spell turtle/trig: every string token / PN_LOCAL / relative reference the writer produced, recomputed by the
                     Lean codec (and read back there)
  out            : what the Lean reader makes of rdflib's N-Triples / N-Quads bytes  vs  the graph serialised
  w3c            : accept / reject per test file
"""
from __future__ import annotations

import io
import json
import os
import re
import shutil
import tempfile
import warnings
import xml.dom.minidom

import core  # noqa: F401  (puts the repository under test first on sys.path)
import c05_spell as sp
import c05_ntp as ntp
import isoutil
from rdflib import BNode, Dataset, Graph, Literal, URIRef

warnings.filterwarnings("ignore")
import logging  # noqa: E402

logging.getLogger("rdflib").setLevel(logging.CRITICAL)

ID = "C05"
LEAN_TARGETS = ["RV.C05.Props", "RV.C05.Audit"]
AUDIT = "RV/C05/Audit.lean"
DRIVER = "drv_c05"
CASES = {"quick": 700, "thorough": 14000, "search": 3000}
RULE = ("random graphs/datasets (IRIs in several namespaces incl. query/fragment/odd local names, literals over a "
        "nasty character pool, language tags, datatypes, shorthand-able and not shorthand-able numerics, blank nodes, "
        "collections, blank-node graph names) rendered by the independent writer under 3-8 choice streams per case "
        "in N-Triples, N-Quads, Turtle, TriG, RDF/XML, JSON-LD and parsed through 5 carriers plus 0-3 further ways of calling parse() per case (operand kinds, format aliases, targets, re-use, keywords: see design.d/C05.md surface audit); rdflib's own "
        "nt/nquads/xml/pretty-xml/trix/json-ld output checked by strict readers; round g: ntline cases (7 %: 24-40 single N-Triples / N-Quads lines "
        "composed from pools of legal, lenient and malformed tokens, 4 small documents with every line-end kind) and every line / document of the "
        "nt/nquads streams, of rdflib's own output and of the W3C suites go through rdflib's parser and the Lean model of that parser; non-trivial = at least one document "
        "was parsed (or one output produced) for a non-empty graph; distinct = distinct (kind, fmt, graph, streams)")
ASSUMPTIONS = [
    "terms are compared as rdflib constructs them from (lexical form, datatype, language) with its default literal "
    "normalisation (C09's subject); xsd:string-typed and plain literals are kept apart as rdflib does",
    "lone surrogates are outside the quantifier (not encodable as UTF-8; Lean Char is a Unicode scalar value)",
    "the document base is given explicitly (publicID) so that all carriers resolve relative IRIs alike",
]
TRUSTED = [
    "harness/c05_ntp.py: the hand transcription of rdflib's N-Triples regular expressions into the Lean matchers of RV/C05/NtParser.lean is "
    "trusted only as far as the per-line comparison on the ntline stream reaches (every class of token the pools produce)",
    "harness/c05_spell.py document-level writers (Turtle/TriG/RDF-XML/JSON-LD/N-Triples/N-Quads): trusted to emit "
    "legal text meaning the given graph; their string, PN_LOCAL and relative-IRI tokens are recomputed and read back "
    "by the verified Lean codecs on every run; N-Triples/N-Quads documents are additionally read by the Lean reader",
    "harness/c05.py Python transcription of the N-Triples/N-Quads grammar (oracle for viol; cross-checked against the "
    "Lean reader on every document and on the W3C suites)",
    "xml.dom.minidom / json of the standard library as well-formedness oracles",
]

BASE = "http://example.org/base/doc"
XSD = sp.XSD
RDF = sp.RDF
DEFAULT = URIRef("urn:x-c05:the-default-graph")  # sentinel, distinct from every IRI a document can name

# ------------------------------------------------------------------ tables regenerated from the source


def TABLES():
    """lean/RV/C05/Tables.lean: the escape table rdflib's N-Triples/Turtle escape decoder uses
    (rdflib.compat._string_escape_map, a data table); Props.lean re-proves on every run that it is the
    grammar's ECHAR table.  (Code such as `_quote_encode` is not scraped: a behaviour-preserving rewrite must not
    alarm; its behaviour is tied by the `out` cases.)"""
    from rdflib import compat
    m = compat._string_escape_map
    rows = ", ".join("(Char.ofNat %d, Char.ofNat %d)" % (ord(k), ord(v)) for k, v in sorted(m.items()))
    return ("-- GENERATED by harness/c05.py TABLES() from rdflib/compat.py; do not edit\n"
            "namespace RV.C05.Tables\n\n"
            "/-- rdflib.compat._string_escape_map: character after the backslash ↦ meaning -/\n"
            "def stringEscapeMap : List (Char × Char) := [%s]\n\n"
            "end RV.C05.Tables\n") % rows


# ------------------------------------------------------------------ strict N-Triples / N-Quads reader (Python oracle)

_HEX = "[0-9A-Fa-f]"
_UCHAR = r"(?:\\u%s{4}|\\U%s{8})" % (_HEX, _HEX)
_IRIREF = r'<((?:[^\x00-\x20<>"{}|^`\\]|%s)*)>' % _UCHAR
_ECHAR = r"\\[tbnrf\"'\\]"
_STRING = r'"((?:[^\x22\x5C\x0A\x0D]|%s|%s)*)"' % (_ECHAR, _UCHAR)
_PNB = ("A-Za-z\u00C0-\u00D6\u00D8-\u00F6\u00F8-\u02FF\u0370-\u037D\u037F-\u1FFF\u200C-\u200D\u2070-\u218F"
        "\u2C00-\u2FEF\u3001-\uD7FF\uF900-\uFDCF\uFDF0-\uFFFD\U00010000-\U000EFFFF")
_PNU = _PNB + "_:"
_PNC = _PNU + "\\-0-9\u00B7\u0300-\u036F\u203F-\u2040"
_BNODE = r"_:([%s0-9](?:[%s.]*[%s])?)" % (_PNU, _PNC, _PNC)
_LANG = r"@([a-zA-Z]+(?:-[a-zA-Z0-9]+)*)"
_WS = "[ \t]*"
_SUBJ = r"(?:%s|%s)" % (_IRIREF, _BNODE)
_OBJ = r"(?:%s|%s|%s(?:\^\^%s|%s)?)" % (_IRIREF, _BNODE, _STRING, _IRIREF, _LANG)
_NT_LINE = re.compile(_WS + r"(?:" + _SUBJ + _WS + _IRIREF + _WS + _OBJ + _WS + r"\." + _WS + r"(?:#.*)?|#.*)?")
_NQ_LINE = re.compile(_WS + r"(?:" + _SUBJ + _WS + _IRIREF + _WS + _OBJ + _WS + r"(?:" + _SUBJ + ")?" + _WS + r"\." +
                      _WS + r"(?:#.*)?|#.*)?")
_ESC = re.compile(r"\\(?:u(%s{4})|U(%s{8})|(.))" % (_HEX, _HEX), re.S)
_ECH = {"t": "\t", "b": "\b", "n": "\n", "r": "\r", "f": "\f", '"': '"', "'": "'", "\\": "\\"}
_ABS = re.compile(r"^[A-Za-z][A-Za-z0-9+.\-]*:")


class Reject(Exception):
    pass


def _unesc(s):
    def f(m):
        h = m.group(1) or m.group(2)
        if h:
            n = int(h, 16)
            if n > 0x10FFFF or 0xD800 <= n <= 0xDFFF:
                raise Reject("code point")
            return chr(n)
        return _ECH[m.group(3)]
    return _ESC.sub(f, s)


def _iri(s):
    v = _unesc(s)
    if not _ABS.match(v):
        raise Reject("relative IRI")
    return ("I", v)


def strict_read(doc: str, nquads: bool):
    """list of quads (terms as JSON-style tuples, bnode labels as in the text) or raises Reject"""
    out = []
    for line in re.split("[\r\n]", doc):
        m = (_NQ_LINE if nquads else _NT_LINE).fullmatch(line)
        if m is None:
            raise Reject(line[:80])
        g = m.groups()
        if g[0] is None and g[1] is None:
            continue
        s = _iri(g[0]) if g[0] is not None else ("B", g[1])
        p = _iri(g[2])
        if g[3] is not None:
            o = _iri(g[3])
        elif g[4] is not None:
            o = ("B", g[4])
        else:
            lex = _unesc(g[5])
            o = ("L", lex, _iri(g[6])[1] if g[6] is not None else None, g[7])
        gn = None
        if nquads:
            if g[8] is not None:
                gn = _iri(g[8])
            elif g[9] is not None:
                gn = ("B", g[9])
        out.append((s, p, o, gn))
    return out


# ------------------------------------------------------------------ terms


def term(t):
    if t is None:
        return DEFAULT
    if t[0] == "I":
        return URIRef(t[1])
    if t[0] == "B":
        return BNode(t[1])
    _, lex, dt, lang = t
    if lang is not None:
        return Literal(lex, lang=lang)
    if dt is not None:
        return Literal(lex, datatype=URIRef(dt))
    return Literal(lex)


def quads_rdflib(quads):
    return {(term(s), term(p), term(o), term(g)) for s, p, o, g in quads}


def ds_quads(ds):
    out = set()
    for s, p, o, c in ds.quads((None, None, None, None)):
        cid = c.identifier if isinstance(c, Graph) else c
        out.add((s, p, o, DEFAULT if cid is None or cid == ds.default_context.identifier else cid))
    return out


def g_quads(g):
    return {(s, p, o, DEFAULT) for s, p, o in g}


def enc_term(t):
    """the driver's term syntax (Drive.lean showTerm)"""
    c = lambda s: ",".join(str(ord(x)) for x in s)  # noqa: E731
    if isinstance(t, URIRef):
        return "I" + c(t)
    if isinstance(t, BNode):
        return "B" + c(t)
    if t.language is not None:
        return "G" + c(str(t)) + "|" + c(t.language)
    if t.datatype is not None:
        return "T" + c(str(t)) + "|" + c(str(t.datatype))
    return "P" + c(str(t))


def enc_quads(qs, nquads):
    rows = []
    for s, p, o, g in qs:
        r = enc_term(s) + " " + enc_term(p) + " " + enc_term(o)
        if nquads:
            r += " " + ("-" if g == DEFAULT else enc_term(g))
        rows.append(r)
    return "ok" + "".join(" ; " + r for r in sorted(set(rows)))


def enc_jquads(quads, nquads):
    """the same, from the case's own quads (lexical forms exactly as the document spells them —
    rdflib's literal normalisation is C09's subject, the strict reader does none)"""
    c = lambda s: ",".join(str(ord(x)) for x in s)  # noqa: E731

    def t(x):
        if x[0] == "I":
            return "I" + c(x[1])
        if x[0] == "B":
            return "B" + c(x[1])
        if x[3] is not None:
            return "G" + c(x[1]) + "|" + c(x[3])
        if x[2] is not None:
            return "T" + c(x[1]) + "|" + c(x[2])
        return "P" + c(x[1])
    rows = []
    for s, p, o, g in quads:
        r = t(s) + " " + t(p) + " " + t(o)
        if nquads:
            r += " " + ("-" if g is None else t(g))
        rows.append(r)
    return "ok" + "".join(" ; " + r for r in sorted(set(rows)))


def canon_model_answer(line):
    if not line.startswith("ok"):
        return line
    rows = [r for r in line[2:].split(" ; ") if r.strip()]
    return "ok" + "".join(" ; " + r for r in sorted(set(rows)))


def cps(s):
    return " ".join(str(ord(c)) for c in s)


# ------------------------------------------------------------------ generator

NS = ["http://example.org/base/", "http://example.org/base/sub/", "http://example.org/other/", "http://example.org/",
      "http://other.example/ns#", "http://example.org/base/doc#", "urn:x:", "http://example.org/base/doc?q=",
      "http://xn--e1afmkfd.example/путь/"]
LOCALS = ["a", "b", "s1", "p", "q", "Thing", "a.b", "a-b", "x~y", "1abc", "a:b", "%41", "é", "a.", "_u", "a/b", "",
          "x,y", "it's", "a(b)", "e=mc", "q?x", "50%", "a..b", "-d", ".h", "ü·x", "\u4e2d\u6587", "\U0001F600", "a#b"]
FIXED_IRIS = ["http://example.org/base/doc", "http://example.org/base/", "http://example.org/", "http://example.org",
              "http://example.org/base/doc?x=1", "http://example.org/base/doc#", "http://example.org/base/sub/deep/x",
              "http://example.org/base/doc?x=1#f", "mailto:a@example.org", "http://example.org/base/sub/file.ttl",
              "http://example.org/other/x?y#z", "http://example.org/base/redirect?to=http://other.example/x",
              "http://example.org/base/doc?next=https://x.example/a//b", "http://example.org/base/doc#see-ftp://host/x",
              "http://example.org/login?return=http://example.org/base/", "http://example.org/base/sub/a:b/c:d",
              "http://example.org/base/go?to=http://other.example/ns/t", "http://example.org/base/x?u=//h/p&v=a:b", "http://example.org/b\u00a0c", "http://example.org/?a=1&b=2"]
# RFC 3986 3.1: scheme = ALPHA *( ALPHA / DIGIT / "+" / "-" / "." ) — used in every term position and as datatype
SCHEME_IRIS = ["svn+ssh://example.org/repo/a", "view-source:http://example.org/", "z39.50s://example.org/db?q=1",
               "x-types.v2:int", "coap+tcp://example.org/s", "h2c://example.org/x", "a1.b-c+d:opaque/part#f",
               "iris.beep://example.org/r", "Z-9:x", "ms-settings:privacy"]
SCHEME_PREDS = ["x-types.v2:prop", "svn+ssh://example.org/repo/p", "z39.50s://example.org/db#q", "a1.b-c+d:pred"]
# predicates / classes whose LOCAL name is an RDF/XML syntax term, in foreign namespaces (legal property attributes,
# property elements and typed node names: only the rdf: terms themselves are excluded by the RDF/XML grammar)
COLLIDE_PREDS = ["http://purl.org/dc/elements/1.1/type", "http://example.org/ns/about", "http://example.org/ns/ID",
                 "http://example.org/ns/resource", "http://example.org/ns/parseType", "http://example.org/ns/nodeID",
                 "http://example.org/ns/datatype", "http://example.org/ns/li", "http://example.org/ns/Description",
                 "http://example.org/base/about", "http://other.example/ns#type", "http://example.org/ns/RDF",
                 "http://example.org/ns/bagID", "http://example.org/ns/aboutEach"]
# bases handed over as publicID: IRIs, to be used exactly as given (non-ASCII path / query / fragment, upper-case and
# IDN hosts, percent-escapes, port)
SPECIAL_BASES = ["http://EXAMPLE.org/Base/Doc", "http://example.org/b\u00e4se/d\u00f6c?q=\u00fc#frag-\u00e9",
                 "http://xn--e1afmkfd.example/\u043f\u0443\u0442\u044c/\u0434\u043e\u043a",
                 "http://\u043f\u0440\u0438\u043c\u0435\u0440.example/base/doc", "http://example.org/b%20ase/d%C3%B6c",
                 "http://Example.ORG:8080/base/doc", "https://example.org/\u4e2d\u6587/\U0001F600.ttl",
                 "http://example.org/base/doc?next=http://other.example/a//b"]
PREDS = ["http://example.org/base/p", "http://example.org/p", "http://other.example/ns#q", RDF + "type",
         "http://example.org/base/sub/r", "http://www.w3.org/2000/01/rdf-schema#label", RDF + "value"]
NASTY = ["", "x", "hello world", '"', "'", "\\", '""', "'''", '"""', "a\"b", "it's", "\n", "\r", "\r\n", "\t", "a\\nb",
         "\\u0041", "line1\nline2", " lead", "trail ", "é", "\u4e2d", "\U0001F600", "\U0010FFFF", "\x7f", "\x08\x0c",
         "\x01", "\x00", "\ufeffx", "\ufffe", "\u2028", "\x85", "<tag>&amp;", "]]>", "a'b\"c", "\\\\", "\\\"", "end\"",
         "end'", "''", "#c", "@en", "^^", "{}", "%41", "a\u0301", "\ud7ff\ue000"]
LANGS = ["en", "en-US", "EN-us", "de-1996", "x-a", "fr-Latn-CA", "zh-cmn-Hans-CN"]
NUMS = [(XSD + "integer", ["0", "5", "-5", "+5", "007", "-0", "123456789012345678901234567890", " 5", "5.", "abc", ""]),
        (XSD + "decimal", ["1.5", ".5", "-0.0", "+.5", "1.50", "00.10", "0.000000001", "5", "5.", "1e3"]),
        (XSD + "double", ["1e0", "1.5E-3", ".5e3", "1.E5", "+1.0e+2", "-0e0", "1.5", "INF", "NaN", "1e400"]),
        (XSD + "boolean", ["true", "false", "1", "0", "TRUE"])]
NUM_FAMILIES = [(XSD + "decimal", ["1.0", "1.00", "1.000", "+1.0", "01.0", "1.0000"]),
                (XSD + "decimal", ["0.0", "-0.0", ".0", "0.00", "+0.0", "00.0"]),
                (XSD + "decimal", ["2.5", "2.50", "+2.5", "02.5", "2.500"]),
                (XSD + "decimal", [".5", "0.5", "0.50", "+.5", "-.5", "-0.50"]),
                (XSD + "integer", ["1", "+1", "01", "001"]),
                (XSD + "integer", ["0", "-0", "+0", "00"]),
                (XSD + "integer", ["-7", "-07", "-007"]),
                (XSD + "double", ["1e0", "1E0", "1.0e0", "+1e0", "10e-1", "1.0E0", "1e+0", ".1e1"]),
                (XSD + "double", ["0e0", "-0e0", "0.0e0", "0E1", "-0.0E0"])]
DTS = [XSD + "string", XSD + "date", "http://example.org/dt", XSD + "anyURI", XSD + "token", "http://example.org/dt?a=1&b=2",
       "x-types.v2:int", "svn+ssh://example.org/types#t", "z39.50s://example.org/dt"]
TWIN_DIRS = ["http://example.org/other/", "http://example.org/base/sub/", "http://example.org/", "http://other.example/a/b/",
             "http://example.org/base/sub/deep/"]
CLASSES = ["http://example.org/base/Thing", "http://other.example/ns#Class", "http://www.w3.org/2000/01/rdf-schema#Resource",
           "http://example.org/base/sub/T-1", "http://example.org/ns/Description", "http://example.org/ns/li"]


def gen_pred(rng):
    return rng.choice(SCHEME_PREDS) if rng.random() < 0.06 else rng.choice(PREDS)


def gen_iri(rng):
    r = rng.random()
    if r < 0.08:
        return rng.choice(SCHEME_IRIS)
    if r < 0.18:
        return rng.choice(FIXED_IRIS)
    iri = rng.choice(NS[: rng.choice([4, 9])]) + rng.choice(LOCALS[: rng.choice([8, len(LOCALS)])])
    # RFC 3987: a fragment cannot contain '#' (IRIREF of the Turtle grammar would allow it, the IRI would not be legal)
    return iri if iri.count("#") <= 1 else iri.replace("#", "%23", iri.count("#") - 1)


def gen_literal(rng):
    r = rng.random()
    if r < 0.3:
        dt, lexs = rng.choice(NUMS)
        return ["L", rng.choice(lexs), dt, None]
    s = rng.choice(NASTY)
    if rng.random() < 0.35:
        s = s + rng.choice(NASTY)
    if rng.random() < 0.1:
        s = "".join(rng.choice(NASTY) for _ in range(rng.randint(2, 5)))
    r = rng.random()
    if r < 0.2:
        return ["L", s, None, rng.choice(LANGS)]
    if r < 0.35:
        return ["L", s, rng.choice(DTS), None]
    return ["L", s, None, None]


def gen_quads(rng, dataset, size):
    bn = [["B", "n%d" % i] for i in range(rng.randint(0, 4))]
    graphs = [None]
    if dataset:
        graphs += [["I", gen_iri(rng)] for _ in range(rng.randint(1, 2))]
        if bn and rng.random() < 0.3:
            graphs.append(rng.choice(bn))
        elif rng.random() < 0.15:
            graphs.append(["B", "gg"])
    subjects = [["I", gen_iri(rng)] for _ in range(rng.randint(1, 3))] + bn
    quads = []

    def obj():
        r = rng.random()
        if r < 0.5:
            return gen_literal(rng)
        if r < 0.75 or not bn:
            return ["I", gen_iri(rng)]
        return rng.choice(bn)

    for _ in range(size):
        quads.append([rng.choice(subjects), ["I", gen_pred(rng)], obj(), rng.choice(graphs)])
    if rng.random() < 0.4:      # twins: the same relative path under two directories (one spelling, two bases)
        hier = [q for q in quads for t in (q[0], q[2]) if t[0] == "I" and re.match(r"^https?://[^/?#]+/[^?#]*[^/?#]$", t[1])]
        for q in hier[: rng.randint(1, 2)]:
            t = q[0] if q[0][0] == "I" and re.match(r"^https?://[^/?#]+/[^?#]*[^/?#]$", q[0][1]) else q[2]
            tail = t[1].rsplit("/", rng.choice([1, 1, 2]))[1:]
            if "" in tail or any(x in (".", "..") for x in tail):
                continue
            twin = ["I", rng.choice(TWIN_DIRS) + "/".join(tail)]
            if twin != t:
                if rng.random() < 0.6:
                    quads.append([twin, ["I", gen_pred(rng)], obj(), rng.choice(graphs)])
                else:
                    quads.append([rng.choice(subjects), ["I", gen_pred(rng)], twin, rng.choice(graphs)])
    if rng.random() < 0.25:     # plain literals under predicates named like RDF/XML syntax terms
        for _ in range(rng.randint(1, 3)):
            quads.append([rng.choice(subjects), ["I", rng.choice(COLLIDE_PREDS)],
                          ["L", rng.choice(["Text", "x", "Resource", "Literal", "b0", "http://example.org/v"]), None, None],
                          rng.choice(graphs)])
    if rng.random() < 0.3:      # a class: typed nodes, @type
        quads.append([rng.choice(subjects), ["I", RDF + "type"], ["I", rng.choice(CLASSES)], rng.choice(graphs)])
    if rng.random() < 0.2:      # container membership properties: rdf:li
        s, g = rng.choice(subjects), rng.choice(graphs)
        for k in range(1, rng.randint(1, 3) + 1):
            quads.append([s, ["I", RDF + "_%d" % k], obj(), g])
    if rng.random() < 0.25:     # one number, several spellings, in one document (1.0 / 1.00 / +1.0 …: distinct literals or not, as rdflib's terms say)
        dt, fam = rng.choice(NUM_FAMILIES)
        s, p, g = rng.choice(subjects), ["I", gen_pred(rng)], rng.choice(graphs)
        for lex in rng.sample(fam, rng.randint(2, min(4, len(fam)))):
            quads.append([s if rng.random() < 0.7 else rng.choice(subjects), p if rng.random() < 0.8 else ["I", gen_pred(rng)],
                          ["L", lex, dt, None], g if rng.random() < 0.7 else rng.choice(graphs)])
        if rng.random() < 0.3:  # the same value in the other numeric types
            for dt2, lex in rng.sample([(XSD + "integer", "1"), (XSD + "decimal", "1.0"), (XSD + "double", "1e0"), (XSD + "double", "1.0E0"),
                                        (XSD + "integer", "0"), (XSD + "decimal", "0.0"), (XSD + "double", "0e0")], 3):
                quads.append([s, p, ["L", lex, dt2, None], g])
    if rng.random() < 0.3:      # a typed node with node objects nested in it that use the same predicates (scoped contexts, nested elements)
        g, s = rng.choice(graphs), rng.choice(subjects)
        p1, p2, pk = ["I", gen_pred(rng)], ["I", gen_pred(rng)], ["I", gen_pred(rng)]
        b1, b2 = ["B", "s0"], ["B", "s1"]
        quads.append([s, ["I", RDF + "type"], ["I", rng.choice(CLASSES)], g])
        quads += [[s, p1, gen_literal(rng), g], [s, pk, b1, g], [b1, p1, gen_literal(rng), g], [b1, p2, obj(), g]]
        if rng.random() < 0.6:
            quads += [[b1, pk, b2, g], [b2, p1, gen_literal(rng), g]]
            if rng.random() < 0.4:
                quads.append([b2, p2, obj(), g])
        if rng.random() < 0.4:
            quads.append([b1, ["I", RDF + "type"], ["I", rng.choice(CLASSES)], g])
    if rng.random() < 0.15:     # the empty list as object (and, rarely, rdf:nil as subject)
        quads.append([rng.choice(subjects), ["I", gen_pred(rng)], ["I", RDF + "nil"], rng.choice(graphs)])
    # collections
    for li in range(rng.choice([0, 0, 1, 1, 2])):
        g = rng.choice(graphs)
        n = rng.randint(0, 3)
        cells = [["B", "l%d_%d" % (li, k)] for k in range(n)]
        head = cells[0] if cells else ["I", RDF + "nil"]
        for k, c in enumerate(cells):
            quads.append([c, ["I", RDF + "first"], obj(), g])
            quads.append([c, ["I", RDF + "rest"], cells[k + 1] if k + 1 < n else ["I", RDF + "nil"], g])
        if rng.random() < 0.75 or not cells:
            quads.append([rng.choice(subjects), ["I", gen_pred(rng)], head, g])
        else:
            quads.append([head, ["I", gen_pred(rng)], obj(), g])
    out = []
    for q in quads:
        if q not in out:
            out.append(q)
    return out


FMTS = ["turtle", "turtle", "turtle", "trig", "trig", "nt", "nquads", "xml", "json-ld"]


U8_BOUNDS = [0, 0x7F, 0x80, 0x7FF, 0x800, 0xD7FF, 0xE000, 0xFEFF, 0xFFFD, 0xFFFF, 0x10000, 0x10FFFF, 0x0A, 0x0D, 0x3C]
U8_MALFORMED = [[0xC0, 0x80], [0xC1, 0xBF], [0xE0, 0x80, 0x80], [0xE0, 0x9F, 0xBF], [0xED, 0xA0, 0x80], [0xED, 0xBF, 0xBF],
                [0xF0, 0x80, 0x80, 0x80], [0xF0, 0x8F, 0xBF, 0xBF], [0xF4, 0x90, 0x80, 0x80], [0xF5, 0x80, 0x80, 0x80],
                [0xE2, 0x82], [0xF0, 0x9F, 0x98], [0x80], [0xBF, 0x41], [0xC2], [0xC2, 0x41], [0xE2, 0x28, 0xA1],
                [0xFF], [0xFE, 0xFF], [0xEF, 0xBB, 0xBF], [0xEF, 0xBB, 0xBF, 0x3C], [0x41, 0xF8, 0x88, 0x80, 0x80, 0x80]]


def gen_cp(rng):
    r = rng.random()
    if r < 0.3:
        return rng.choice(U8_BOUNDS)
    hi = rng.choice([0x7F, 0x7FF, 0xFFFF, 0x10FFFF])
    c = rng.randint(0, hi)
    return c if not 0xD800 <= c <= 0xDFFF else 0xE000


def gen_utf8_case(rng, fixed=False):
    cps = [[rng.choice(U8_BOUNDS)] for _ in range(4)] if not fixed else [[c] for c in U8_BOUNDS] + [U8_BOUNDS]
    cps += [[gen_cp(rng) for _ in range(rng.randint(0, 12))] for _ in range(6)]
    bs = list(U8_MALFORMED) if fixed else [rng.choice(U8_MALFORMED) for _ in range(3)]
    for _ in range(8):
        good = list("".join(chr(gen_cp(rng)) for _ in range(rng.randint(1, 6))).encode("utf-8"))
        r = rng.random()
        if r < 0.3 and good:
            del good[rng.randrange(len(good))]                      # truncated / missing byte
        elif r < 0.55 and good:
            k = rng.randrange(len(good))
            good[k] = good[k] ^ rng.choice([0x80, 0x40, 0x20, 0x10, 0xFF])  # flipped bits
        elif r < 0.7:
            good.insert(rng.randrange(len(good) + 1), rng.choice([0x80, 0xBF, 0xC0, 0xE0, 0xF0, 0xF8, 0xFF, 0xED]))
        elif r < 0.8:
            good = [rng.randrange(256) for _ in range(rng.randint(1, 6))]
        bs.append(good)
    docs = []
    for _ in range(3):
        d = [gen_cp(rng) for _ in range(rng.randint(0, 10))]
        if rng.random() < 0.5:
            d = [0xFEFF] + d
        if rng.random() < 0.5:
            d += rng.choice([[0x0D], [0x0D, 0x0A], [0x0A], [0x61, 0x0D, 0x62]])
        docs.append(d)
    return {"kind": "utf8", "cps": cps, "bytes": bs, "docs": docs}


def gen_case(rng, tier, i):
    if i < 2:
        return {"kind": "w3c", "suite": ["ntriples", "nquads"][i]}
    if i == 2:
        return gen_utf8_case(rng, fixed=True)
    if rng.random() < 0.04:
        return gen_utf8_case(rng)
    r = rng.random()
    if r > 0.93 or i == 3:
        return ntp.gen_case(rng, tier)
    if r < 0.2:
        return {"kind": "out", "quads": gen_quads(rng, rng.random() < 0.6, rng.randint(0, 7)),
                "oways": rng.sample(OWAYS, rng.choice([0, 1, 2]) if tier == "quick" else rng.choice([3, 5]))}
    fmt = rng.choice(FMTS)
    dataset = fmt in ("trig", "nquads") or (fmt == "json-ld" and rng.random() < 0.4)
    quads = gen_quads(rng, dataset, rng.randint(0, 7))
    case = {"kind": "spell", "fmt": fmt, "quads": quads, "off": [],
            "streams": [rng.randrange(1 << 30) for _ in range(rng.randint(3, 8))]}
    nways = (rng.choice([0, 1, 2, 3]) if tier == "quick" else rng.choice([2, 4, 6]))
    case["ways"] = rng.sample(WAYS, nways)
    if fmt not in ("nt", "nquads") and rng.random() < 0.3:
        # the document's base (publicID) is a less tidy IRI; the graph's IRIs near the usual base move next to it
        base = rng.choice(SPECIAL_BASES)
        case["base"] = base
        case["quads"] = rebase_quads(quads, base)
    return case


def rebase_quads(quads, base):
    nf = base.split("#")[0].split("?")[0]
    d = nf[: nf.rfind("/") + 1]

    def m(i):
        if i.startswith("http://example.org/base/doc"):
            return nf + i[len("http://example.org/base/doc"):]
        if i.startswith("http://example.org/base/"):
            return d + i[len("http://example.org/base/"):]
        return i

    def t(x):
        if x is None:
            return None
        if x[0] == "I":
            return ["I", m(x[1])]
        if x[0] == "L" and x[2] is not None and x[2].startswith("http://example.org/base/"):
            return ["L", x[1], m(x[2]), x[3]]
        return x
    out = []
    for q in quads:
        q2 = [t(x) for x in q]
        if q2 not in out:
            out.append(q2)
    return out


# ------------------------------------------------------------------ rendering


def render(fmt, quads, seed, off, base=None):
    base = base or BASE
    ch = sp.Ch(seed, off)
    if fmt == "nt":
        doc = sp.write_nlines(quads, ch, False)
    elif fmt == "nquads":
        doc = sp.write_nlines(quads, ch, True)
    elif fmt == "turtle":
        doc = sp.write_turtle(quads, ch, False, base)
    elif fmt == "trig":
        doc = sp.write_turtle(quads, ch, True, base)
    elif fmt == "xml":
        doc = sp.write_rdfxml(quads, ch, base)
    elif fmt == "json-ld":
        doc = sp.write_jsonld(quads, ch, base)
    else:
        raise ValueError(fmt)
    return doc, ch


def expressible(fmt, quads):
    """can the syntax express the graph at all? (the writer is only asked for graphs it can spell)"""
    if fmt in ("xml",):
        return sp.rdfxml_expressible(quads)
    if fmt == "json-ld":
        return sp.jsonld_expressible(quads)
    return True


# ------------------------------------------------------------------ implementation side

CARRIERS = ["str", "bytes", "file", "path", "bytesio"]
_TMP = None


def _tmpdir():
    global _TMP
    if _TMP is None or not os.path.isdir(_TMP):
        _TMP = tempfile.mkdtemp(prefix="c05-")
        import atexit
        atexit.register(shutil.rmtree, _TMP, True)
    return _TMP


def parse_with(fmt, doc, carrier, dataset, base=None):
    """returns the set of quads rdflib read (default graph = DEFAULT), or raises"""
    g = Dataset() if dataset else Graph()
    kw = {"format": fmt, "publicID": base or BASE}
    if carrier == "str":
        g.parse(data=doc, **kw)
    elif carrier == "bytes":
        g.parse(data=doc.encode("utf-8"), **kw)
    elif carrier == "bytesio":
        g.parse(source=io.BytesIO(doc.encode("utf-8")), **kw)
    else:
        ext = {"nt": ".nt", "nquads": ".nq", "turtle": ".ttl", "trig": ".trig", "xml": ".rdf", "json-ld": ".jsonld"}[fmt]
        path = os.path.join(_tmpdir(), "d%d%s" % (os.getpid(), ext))
        with open(path, "wb") as f:
            f.write(doc.encode("utf-8"))
        try:
            if carrier == "file":
                with open(path, "rb") as f:
                    g.parse(file=f, **kw)
            else:
                g.parse(source=path, **kw)
        finally:
            os.unlink(path)
    return ds_quads(g) if dataset else g_quads(g)


def _exc(e):
    n = type(e).__name__
    return n if n in ("ParserError", "BadSyntax", "ValueError", "KeyError", "IndexError", "AssertionError",
                      "UnicodeDecodeError", "TypeError", "AttributeError", "SAXParseException", "Exception") else "Other"


def check_doc(fmt, doc, quads, viol, stats, label, base=None):
    """parse `doc` through every carrier; each result must be ≅ quads.  Returns the quads read via str (or None)."""
    dataset = fmt in ("trig", "nquads") or any(q[3] is not None for q in quads)
    want = quads_rdflib(quads)
    first = None
    outcomes = []
    for c in CARRIERS:
        try:
            got = parse_with(fmt, doc, c, dataset, base)
            ok = isoutil.iso(got, want)
            outcomes.append("ok" if ok else "wrong")
            if c == "str":
                first = got
            if not ok and len(viol) < 4:
                extra = sorted(map(_show_q, got - want))[:3]
                missing = sorted(map(_show_q, want - got))[:3]
                viol.append(f"{fmt}-wrong-graph: [{label}] via {c}: read {len(got)} quads, expected {len(want)}; "
                            f"unexpected {extra} missing {missing} :: {doc[:300]!r}")
        except Exception as e:
            outcomes.append("error:" + _exc(e))
            if len(viol) < 4:
                viol.append(f"{fmt}-parse-error: [{label}] via {c}: {_exc(e)}: {str(e)[:160]!r} :: {doc[:300]!r}")
    if len(set(outcomes)) > 1:
        viol.append(f"carrier: [{label}] the same {fmt} document gives different results per carrier: "
                    f"{dict(zip(CARRIERS, outcomes))}")
    stats["docs"] = stats.get("docs", 0) + 1
    stats["parses"] = stats.get("parses", 0) + len(CARRIERS)
    return first


def _show_q(q):
    return " ".join(x.n3() if x is not DEFAULT else "-" for x in q)


def build(quads, dataset):
    if dataset:
        ds = Dataset()
        for s, p, o, g in quads:
            ctx = ds.default_context if g is None else ds.graph(term(g))
            ctx.add((term(s), term(p), term(o)))
        return ds
    g = Graph()
    for s, p, o, _g in quads:
        g.add((term(s), term(p), term(o)))
    return g


OWAYS = ["dest_path", "dest_pathlib", "dest_bytesio", "dest_file_url", "alias", "base_kw", "cg_source", "view_source",
         "dest_binary_file"]


def serialize_way(way, fmt, src, quads):
    """the text of the nt / nquads output obtained in one more way (None: does not apply)"""
    import pathlib
    from rdflib import ConjunctiveGraph
    path = os.path.join(_tmpdir(), "o%d%s" % (os.getpid(), EXT[fmt]))

    def read():
        try:
            return open(path, "rb").read().decode("utf-8")
        finally:
            os.unlink(path)
    if way == "dest_path":
        src.serialize(destination=path, format=fmt)
        return read()
    if way == "dest_pathlib":
        src.serialize(pathlib.Path(path), format=fmt)
        return read()
    if way == "dest_file_url":
        src.serialize(destination=pathlib.Path(path).as_uri(), format=fmt)
        return read()
    if way == "dest_binary_file":
        with open(path, "wb") as f:
            src.serialize(destination=f, format=fmt)
        return read()
    if way == "dest_bytesio":
        bio = io.BytesIO()
        src.serialize(destination=bio, format=fmt, encoding="utf-8")
        return bio.getvalue().decode("utf-8")
    if way == "alias":
        a = {"nt": ["ntriples", "nt11", "application/n-triples"], "nquads": ["application/n-quads"]}[fmt]
        return src.serialize(format=a[len(quads) % len(a)])
    if way == "base_kw":
        return src.serialize(format=fmt, base="http://example.org/base/")      # not supported by the format: a warning, same output
    if way == "cg_source":
        if fmt != "nquads":
            return None
        cg = ConjunctiveGraph()
        for s_, p_, o_, g_ in quads:
            (cg.default_context if g_ is None else cg.get_context(term(g_))).add((term(s_), term(p_), term(o_)))
        # a ConjunctiveGraph's default graph has a blank node name, which N-Quads writes as a graph label
        want = {(a, b, c, (cg.default_context.identifier if d == DEFAULT else d)) for a, b, c, d in ds_quads(cg)}
        return cg.serialize(format=fmt), want
    if way == "view_source":
        if fmt != "nt":
            return None
        ds = Dataset()
        v = ds.graph(URIRef("http://example.org/view"))
        for s_, p_, o_, g_ in quads:
            if g_ is None:
                v.add((term(s_), term(p_), term(o_)))
        return v.serialize(format=fmt)
    raise ValueError(way)


NT_ENCODINGS = ["utf-8", "ascii", "latin-1", "cp1252", "utf-16", "UTF-8", "iso-8859-15"]


def run_out(case):
    quads = case["quads"]
    viol, obs, stats = [], [], {"out_cases": 1}
    triples = [q for q in quads if q[3] is None]
    g = build(triples, False)
    ds = build(quads, True)
    # ---- N-Triples
    nt = g.serialize(format="nt")
    obs.append(enc_quads(g_quads(g), False))
    try:
        back = strict_read(nt, False)
        if quads_rdflib(back) != g_quads(g):
            viol.append(f"nt-meaning: rdflib's N-Triples output means a different graph under the W3C grammar :: {nt[:300]!r}")
    except Reject as e:
        viol.append(f"nt-invalid: rdflib's N-Triples output is not legal N-Triples (at {str(e)!r}) :: {nt[:300]!r}")
    # ---- N-Quads
    nq = ds.serialize(format="nquads")
    nq_text = nq
    obs.append(enc_quads(ds_quads(ds), True))
    try:
        back = strict_read(nq, True)
        if quads_rdflib(back) != ds_quads(ds):
            viol.append(f"nq-meaning: rdflib's N-Quads output means a different dataset under the W3C grammar :: {nq[:300]!r}")
    except Reject as e:
        viol.append(f"nq-invalid: rdflib's N-Quads output is not legal N-Quads (at {str(e)!r}) :: {nq[:300]!r}")
    # ---- the same with an encoding= keyword: N-Triples / N-Quads are UTF-8 by definition, so whatever is asked for,
    #      the bytes returned must be a valid UTF-8 document meaning the graph (or the call refuses)
    for fmt, src, want, nq in (("nt", g, g_quads(g), False), ("nquads", ds, ds_quads(ds), True)):
        for enc in NT_ENCODINGS:
            try:
                raw = src.serialize(format=fmt, encoding=enc)
            except Exception as e:
                stats["serialize_refused_%s_%s" % (fmt, enc)] = 1
                continue
            stats["outputs_%s_enc" % fmt] = stats.get("outputs_%s_enc" % fmt, 0) + 1
            tag = "nq" if nq else "nt"
            try:
                text = raw.decode("utf-8") if isinstance(raw, bytes) else raw
                if quads_rdflib(strict_read(text, nq)) != want:
                    viol.append(f"{tag}-meaning: serialize(format={fmt!r}, encoding={enc!r}) means a different graph :: {raw[:200]!r}")
            except UnicodeDecodeError:
                viol.append(f"{tag}-invalid: serialize(format={fmt!r}, encoding={enc!r}) is not UTF-8 (N-Triples/N-Quads are UTF-8 documents) :: {raw[:200]!r}")
            except Reject as e:
                viol.append(f"{tag}-invalid: serialize(format={fmt!r}, encoding={enc!r}) is not a legal document (at {str(e)!r}) :: {raw[:200]!r}")
    # ---- further ways of asking for the N-Triples / N-Quads output (surface audit): destination kinds, format
    #      aliases, base= keyword, other kinds of source object
    for way in case.get("oways", []):
        stats["oway_" + way] = stats.get("oway_" + way, 0) + 1
        for fmt, src, want, nq in (("nt", g, g_quads(g), False), ("nquads", ds, ds_quads(ds), True)):
            try:
                text = serialize_way(way, fmt, src, quads)
            except Exception as e:
                viol.append(f"{'nq' if nq else 'nt'}-invalid: [way {way}] serialize raised {_exc(e)}: {str(e)[:120]!r}")
                continue
            if text is None:
                continue
            if isinstance(text, tuple):
                text, want = text
            tag = "nq" if nq else "nt"
            try:
                if quads_rdflib(strict_read(text, nq)) != want:
                    viol.append(f"{tag}-meaning: [way {way}] the {fmt} output means a different graph :: {text[:200]!r}")
            except Reject as e:
                viol.append(f"{tag}-invalid: [way {way}] the {fmt} output is not a legal document (at {str(e)!r}) :: {text[:200]!r}")
    # ---- XML / JSON well-formedness
    for fmt, src in [("xml", g), ("pretty-xml", g), ("trix", ds), ("json-ld", g), ("json-ld", ds)]:
        try:
            text = src.serialize(format=fmt)
        except Exception as e:
            # "its XML and JSON outputs are well-formed" is about outputs that exist: a serializer that raises on a graph of
            # the quantifier's kind gives none (no rdflib serializer refuses any of these graphs on the clean tree)
            stats["serialize_refused_" + fmt] = stats.get("serialize_refused_" + fmt, 0) + 1
            tag = "json-no-output" if fmt == "json-ld" else "xml-no-output"
            viol.append(f"{tag}: serialize(format={fmt!r}) raises {_exc(e)}: {str(e)[:120]!r} instead of writing the graph")
            continue
        stats["outputs_" + fmt] = stats.get("outputs_" + fmt, 0) + 1
        try:
            if fmt == "json-ld":
                json.loads(text)
            else:
                xml.dom.minidom.parseString(text.encode("utf-8"))
        except Exception as e:
            tag = "json-illformed" if fmt == "json-ld" else "xml-illformed"
            viol.append(f"{tag}: {fmt} output is not well-formed ({type(e).__name__}: {str(e)[:80]}) :: {text[:200]!r}")
    # ---- round g: rdflib's own output lines through rdflib's parser, compared with the model of that parser
    o = ntp_obs(nt, False, whole=False, sort=True) + ntp_obs(nq_text, True, whole=False, sort=True)
    stats["ntp_lines"] = len(o)
    obs += o
    return {"obs": obs, "viol": viol, "nontrivial": bool(quads), "key": "out:" + json.dumps(quads, sort_keys=True),
            "stats": {**stats, "quads": len(quads)}}


def codec_obs(log):
    """expected answers of the driver for the writer's codec calls (see model_lines)"""
    out = []
    for e in log[:60]:
        if e[0] == "str":
            out.append("rt=ok " + cps(e[5]))
        elif e[0] == "pnl":
            out.append(("rt=ok " + cps(e[3])).rstrip() if e[3] else "rt=ok ")
        elif e[0] == "rel":
            out.append("rt=ok " + cps(e[4]) if e[4] else "rt=ok ")
        elif e[0] == "res":
            out.append(cps(e[3]))
    return out


def codec_lines(log):
    ks = lambda k: ",".join(map(str, k)) if k else "-"  # noqa: E731
    out = []
    for e in log[:60]:
        if e[0] == "str":
            out.append(f"str {ord(e[1])} {1 if e[2] else 0} {ks(e[3])} | {cps(e[4])}")
        elif e[0] == "pnl":
            out.append(f"pnl {ks(e[1])} | {cps(e[2])}")
        elif e[0] == "rel":
            out.append(f"rel {e[1]} | {cps(e[2])} | {cps(e[3])}")
        elif e[0] == "res":
            out.append(f"res | {cps(e[1])} | {cps(e[2])}")
    return out


# ------------------------------------------------------------------ further ways of handing the document over (surface audit)

EXT = {"nt": ".nt", "nquads": ".nq", "turtle": ".ttl", "trig": ".trig", "xml": ".rdf", "json-ld": ".jsonld"}
ALIASES = {"nt": ["ntriples", "nt11", "application/n-triples"], "nquads": ["application/n-quads"],
           "turtle": ["ttl", "text/turtle"], "trig": ["application/trig"], "xml": ["application/rdf+xml"],
           "json-ld": ["application/ld+json"]}
QUAD_FORMATS = ("nquads", "trig")
# spelling features that make a document depend on its base
REL_FEATURES = ["rel_iri", "dot_segments", "rebase", "x_id", "x_base", "x_nested_base", "j_base"]
WAYS = ["bytearray", "source_bytes", "pathlib", "location", "file_url", "text_file", "text_source", "binary_source",
        "stringio", "inputsource_str", "inputsource_bytes", "fmt_alias", "fmt_guess", "no_publicid_str", "no_publicid_path",
        "target_cg", "target_view", "reuse_graph", "parser_object", "kw"]


def _with_file(fmt, doc, fn):
    path = os.path.join(_tmpdir(), "w%d%s" % (os.getpid(), EXT[fmt]))
    with open(path, "wb") as f:
        f.write(doc.encode("utf-8"))
    try:
        return fn(path)
    finally:
        os.unlink(path)


def parse_way(way, fmt, doc, quads, base, render_again):
    """returns (got quads, expected quads) for one more way of calling parse(); None if the way does not apply"""
    import pathlib
    from rdflib import ConjunctiveGraph, plugin
    from rdflib.parser import Parser, StringInputSource, create_input_source
    dataset = fmt in QUAD_FORMATS or any(q[3] is not None for q in quads)
    want = quads_rdflib(quads)
    new = (lambda: Dataset()) if dataset else (lambda: Graph())
    out = (lambda g: ds_quads(g)) if dataset else (lambda g: g_quads(g))
    kw = {"format": fmt, "publicID": base}
    b = doc.encode("utf-8")
    g = new()
    if way == "bytearray":
        g.parse(data=bytearray(b), **kw)
    elif way == "source_bytes":
        g.parse(b, **kw)
    elif way == "pathlib":
        _with_file(fmt, doc, lambda p: g.parse(pathlib.Path(p), **kw))
    elif way == "location":
        _with_file(fmt, doc, lambda p: g.parse(location=p, **kw))
    elif way == "file_url":
        _with_file(fmt, doc, lambda p: g.parse(pathlib.Path(p).as_uri(), **kw))
    elif way == "text_file":
        def f1(p):
            with open(p, "r", encoding="utf-8", newline="") as f:     # newline="": the file object itself translates nothing
                g.parse(file=f, **kw)
        _with_file(fmt, doc, f1)
    elif way == "text_source":
        def f2(p):
            with open(p, "r", encoding="utf-8", newline="") as f:
                g.parse(f, **kw)
        _with_file(fmt, doc, f2)
    elif way == "binary_source":
        def f3(p):
            with open(p, "rb") as f:
                g.parse(f, **kw)
        _with_file(fmt, doc, f3)
    elif way == "stringio":
        g.parse(io.StringIO(doc), **kw)
    elif way == "inputsource_str":
        g.parse(create_input_source(data=doc), **kw)
    elif way == "inputsource_bytes":
        g.parse(StringInputSource(b), **kw)
    elif way == "fmt_alias":
        a = ALIASES[fmt]
        g.parse(data=doc, format=a[len(doc) % len(a)], publicID=base)
    elif way == "fmt_guess":
        _with_file(fmt, doc, lambda p: g.parse(p, publicID=base))     # format from the file name's extension
    elif way in ("no_publicid_str", "no_publicid_path"):
        doc2 = render_again(REL_FEATURES)       # a rendering without any relative reference: the base is irrelevant
        if way == "no_publicid_str":
            g.parse(data=doc2, format=fmt)
        else:
            _with_file(fmt, doc2, lambda p: g.parse(p, format=fmt))
    elif way == "target_cg":
        cg = ConjunctiveGraph()
        cg.parse(data=doc, **kw)
        if fmt in QUAD_FORMATS:
            return ds_quads(cg), want
        if dataset:
            return None
        return {(s_, p_, o_, DEFAULT) for s_, p_, o_ in cg.triples((None, None, None))}, want   # the union: where a triple syntax lands is not C05's
    elif way == "target_view":
        if dataset:
            return None
        ds = Dataset()
        name = URIRef("http://example.org/target-graph")
        ds.graph(name).parse(data=doc, **kw)
        got = {(s_, p_, o_, DEFAULT) for s_, p_, o_ in ds.graph(name)}
        if len(ds.default_context):
            got.add((name, name, name, name))    # something leaked into the default graph
        return got, want
    elif way == "reuse_graph":
        t0 = (URIRef("http://example.org/already"), URIRef("http://example.org/there"), Literal("t0"))
        if dataset:
            g.default_context.add(t0)
        else:
            g.add(t0)
        g.parse(data=doc, **kw)
        if not any(t[0] == "B" for q in quads for t in q if t is not None):
            g.parse(data=b, **kw)               # a ground document read twice adds nothing
        return out(g), want | {t0 + (DEFAULT,)}
    elif way == "parser_object":
        if dataset:
            return None      # what a quad parser expects as sink when called directly is Graph.parse's business, not public
        pr = plugin.get(fmt, Parser)()
        first = None
        for _ in range(2):                       # one parser object, two documents, two targets
            g = new()
            pr.parse(create_input_source(data=doc, publicID=base, format=fmt), g)
            if first is None:
                first = out(g)
        if not isoutil.iso(first, want):
            return first, want
    elif way == "kw":
        if fmt in ("turtle", "trig"):
            g.parse(data=b, encoding="utf-8", **kw)
        elif fmt in ("nt", "nquads"):
            g.parse(data=doc, bnode_context={}, **kw)
        elif fmt == "xml":
            g.parse(data=doc, preserve_bnode_ids=False, **kw)
        else:
            k = len(doc) % 4
            if k == 0:
                g.parse(data=doc, format=fmt, base=base)                # the base as a parser keyword
            elif k == 1:
                g.parse(data=doc, version=1.1, generalized_rdf=True, **kw)
            elif k == 2 and isinstance(json.loads(doc), dict):            # (the signature admits a dict only)
                g.parse(data=json.loads(doc), **kw)                       # already-loaded JSON (PythonInputSource)
            elif k == 2:
                g.parse(data=doc, version=1.1, **kw)
            else:
                d = json.loads(doc)
                if isinstance(d, dict) and "@context" in d:
                    ctx = d.pop("@context")
                    g.parse(data=json.dumps(d), context=ctx, **kw)        # the context handed over by keyword
                else:
                    g.parse(data=doc, context=None, **kw)
    else:
        raise ValueError(way)
    return out(g), want


def check_ways(case, fmt, doc, quads, viol, stats, base, seed):
    off = case.get("off", [])
    base = base or BASE
    for way in case.get("ways", []):
        stats["way_" + way] = stats.get("way_" + way, 0) + 1
        try:
            r = parse_way(way, fmt, doc, quads, base, lambda extra: render(fmt, quads, seed, sorted(set(off) | set(extra)), base)[0])
            if r is None:
                stats["way_na_" + way] = stats.get("way_na_" + way, 0) + 1
                continue
            got, want = r
            if not isoutil.iso(got, want) and len(viol) < 4:
                viol.append(f"{fmt}-wrong-graph: [way {way}] read {len(got)} quads, expected {len(want)}; unexpected "
                            f"{sorted(map(_show_q, got - want))[:3]} missing {sorted(map(_show_q, want - got))[:3]} :: {doc[:300]!r}")
        except Exception as e:
            if len(viol) < 4:
                viol.append(f"{fmt}-parse-error: [way {way}] {_exc(e)}: {str(e)[:160]!r} :: {doc[:300]!r}")


BOM_FORMATS = ("nt", "nquads", "turtle", "trig")


def bom_variant(fmt, doc, quads, viol, stats, base):
    """the same document with a byte order mark in front (U+FEFF for str, EF BB BF for the byte routes): whatever
    rdflib makes of it, it must make the same of it on every route"""
    dataset = fmt in ("trig", "nquads") or any(q[3] is not None for q in quads)
    want = quads_rdflib(quads)
    out = []
    for c in CARRIERS:
        try:
            got = parse_with(fmt, "\ufeff" + doc, c, dataset, base)
            out.append("ok" if isoutil.iso(got, want) else "wrong")
        except Exception as e:
            out.append("error")
    stats["bom_docs"] = stats.get("bom_docs", 0) + 1
    stats["parses"] = stats.get("parses", 0) + len(CARRIERS)
    if len(set(out)) > 1:
        viol.append(f"carrier-bom: the same {fmt} document with a leading byte order mark gives different results per "
                    f"carrier: {dict(zip(CARRIERS, out))} :: {doc[:120]!r}")
        return "bom: mixed"
    if "wrong" in out:
        viol.append(f"carrier-bom: a leading byte order mark changes the graph read from the {fmt} document :: {doc[:120]!r}")
    return "bom: " + {"ok": "skipped", "error": "reject", "wrong": "wrong"}[out[0]]


def run_spell(case):
    fmt, quads, off = case["fmt"], case["quads"], case.get("off", [])
    viol, obs, stats = [], [], {"spell_" + fmt: 1}
    if not expressible(fmt, quads):
        return {"obs": [], "viol": [], "nontrivial": False, "key": "inexpressible", "stats": {"inexpressible_" + fmt: 1}}
    base = case.get("base")
    if base:
        stats["special_base"] = 1
    for seed in case["streams"]:
        doc, ch = render(fmt, quads, seed, off, base)
        for k, v in ch.used.items():
            stats["f_" + k] = stats.get("f_" + k, 0) + v
        got = check_doc(fmt, doc, quads, viol, stats, f"stream {seed}", base)
        if fmt in ("nt", "nquads"):
            want = quads_rdflib(quads)
            if got is not None and isoutil.iso(got, want):
                obs.append(enc_jquads(_doc_labels(quads, seed, off, fmt), fmt == "nquads"))
            else:
                obs.append("rdflib: " + ("error" if got is None else enc_quads(got, fmt == "nquads")))
        else:
            obs += codec_obs(ch.log)
        if seed == case["streams"][0]:
            check_ways(case, fmt, doc, quads, viol, stats, base, seed)
        if fmt in BOM_FORMATS and seed == case["streams"][0]:
            obs.append(bom_variant(fmt, doc, quads, viol, stats, base))
    if fmt in ("nt", "nquads"):     # round g: the model of rdflib's parser on every document and every line of it
        for seed in case["streams"]:
            doc, _ch = render(fmt, quads, seed, off, base)
            o = ntp_obs(doc, fmt == "nquads")
            stats["ntp_lines"] = stats.get("ntp_lines", 0) + len(o)
            obs += o
    return {"obs": obs, "viol": viol, "nontrivial": bool(quads),
            "key": "spell:" + fmt + json.dumps(quads, sort_keys=True) + str(case["streams"]),
            "stats": {**stats, "quads": len(quads), "streams": len(case["streams"])}}


def _doc_labels(quads, seed, off, fmt):
    """the expected graph with the blank-node labels the writer used in the document"""
    ch = sp.Ch(seed, off)
    labels = sp._label_map(quads, ch, sp.NT_LABELS, "fancy_labels")
    ren = lambda t: None if t is None else (["B", labels[t[1]]] if t[0] == "B" else t)  # noqa: E731
    return [[ren(s), ren(p), ren(o), ren(g)] for s, p, o, g in quads]


def run_doc(case):
    viol, stats = [], {"doc_cases": 1}
    check_doc(case["fmt"], case["doc"], case["quads"], viol, stats, "doc", case.get("base"))
    obs = []
    if case["fmt"] in ("nt", "nquads"):
        obs = [enc_jquads(case["quads"], case["fmt"] == "nquads")]
    return {"obs": obs, "viol": viol, "nontrivial": True, "key": "doc:" + case["doc"], "stats": stats}


def w3c_tests(suite):
    d = os.path.join(core.REPO, "test", "data", "suites", "w3c", suite)
    man = open(os.path.join(d, "manifest.ttl"), encoding="utf-8").read()
    tests = []
    for m in re.finditer(r"(?:rdf:type|\sa)\s+rdft:Test(NTriples|NQuads)(Positive|Negative)Syntax\s*;(.*?)mf:action\s+<([^>]+)>", man, re.S):
        tests.append((m.group(4), m.group(2) == "Positive"))
    return d, sorted(set(tests))


def run_w3c(case):
    suite = case["suite"]
    nq = suite == "nquads"
    d, tests = w3c_tests(suite)
    viol, obs, stats = [], [], {"w3c_" + suite + "_positive": 0, "w3c_" + suite + "_negative": 0}
    for name, positive in tests:
        doc = open(os.path.join(d, name), encoding="utf-8", newline="").read()
        stats["w3c_" + suite + ("_positive" if positive else "_negative")] += 1
        obs.append("accept" if positive else "reject")
        try:
            ref = strict_read(doc, nq)
            verdict = True
        except Reject:
            ref, verdict = None, False
        if verdict != positive:
            viol.append(f"oracle: the Python strict reader {'rejects' if positive else 'accepts'} W3C test {suite}/{name}")
        if positive and ref is not None:
            try:
                got = parse_with("nquads" if nq else "nt", doc, "str", nq)
                if not isoutil.iso(got, quads_rdflib(ref)):
                    viol.append(f"w3c-wrong-graph: rdflib reads W3C positive test {suite}/{name} as a different graph")
            except Exception as e:
                viol.append(f"w3c-parse-error: rdflib does not parse W3C positive test {suite}/{name}: {_exc(e)} :: {doc[:200]!r}")
    # round g: every test file, positive and negative, through rdflib's parser  vs  the model of that parser
    for name, _positive in tests:
        doc = open(os.path.join(d, name), encoding="utf-8", newline="").read()
        o = ntp.real_doc(doc, nq)
        stats["w3c_ntp_" + o.split(" ")[0].split(":")[0]] = stats.get("w3c_ntp_" + o.split(" ")[0].split(":")[0], 0) + 1
        obs.append(o)
    return {"obs": obs, "viol": viol, "nontrivial": True, "key": "w3c:" + suite, "stats": stats}


def read_as_ntparser(route, cps):
    """the characters that reach W3CNTriplesParser / NQuadsParser for a document handed over on `route`:
    rdflib's own create_input_source, then the stream selection of NTParser.parse / NQuadsParser.parse"""
    import codecs
    from rdflib.parser import create_input_source
    text = "".join(map(chr, cps))
    path = None
    try:
        if route == "str":
            src = create_input_source(data=text, format="nt")
        elif route == "bytes":
            src = create_input_source(data=text.encode("utf-8"), format="nt")
        else:
            path = os.path.join(_tmpdir(), "u%d.nt" % os.getpid())
            with open(path, "wb") as f:
                f.write(text.encode("utf-8"))
            src = create_input_source(source=path, format="nt")
        f = src.getCharacterStream()
        if not f:
            f = codecs.getreader("utf-8")(src.getByteStream())
        got = f.read()
        src.close()
        return [ord(c) for c in got]
    finally:
        if path:
            os.unlink(path)


def run_utf8(case):
    obs, viol = [], []
    for cps in case["cps"]:
        obs.append(" ".join(str(b) for b in "".join(map(chr, cps)).encode("utf-8")))
    for bs in case["bytes"]:
        try:
            t = bytes(bs).decode("utf-8")
            obs.append(("ok " + " ".join(str(ord(c)) for c in t)).strip())
        except (UnicodeDecodeError, ValueError):
            obs.append("reject")
    for d in case["docs"]:
        for route in ("str", "bytes", "file"):
            try:
                got = read_as_ntparser(route, d)
                obs.append(("ok " + " ".join(map(str, got))).strip())
                if got != d:
                    viol.append(f"carrier-chars: via {route} the N-Triples reader is handed {got[:12]} for the document {d[:12]}")
            except UnicodeDecodeError:
                obs.append("reject")
                viol.append(f"carrier-chars: via {route} decoding fails for {d[:12]}")
    return {"obs": obs, "viol": viol, "nontrivial": True, "key": "utf8:" + json.dumps(case, sort_keys=True),
            "stats": {"utf8_cases": 1, "utf8_encodes": len(case["cps"]), "utf8_decodes": len(case["bytes"]),
                      "utf8_rejects": sum(1 for o in obs if o == "reject"), "utf8_route_reads": 3 * len(case["docs"])}}


NTP_MAX_LINES = 40


def ntp_split(doc, sort=False):
    ls = re.split("[\r\n]", doc)
    if sort:
        ls = sorted(set(ls))
    return ls[:NTP_MAX_LINES]


def ntp_obs(doc, nq, whole=True, sort=False):
    """what rdflib's N-Triples / N-Quads parser hands on for the document and for each of its lines"""
    return ([ntp.real_doc(doc, nq)] if whole else []) + [ntp.real_line(l, nq) for l in ntp_split(doc, sort)]


def ntp_lines(doc, nq, whole=True, sort=False):
    """the same questions to the Lean model of that parser"""
    c = "nq" if nq else "nt"
    return ([c + "pd " + cps(doc)] if whole else []) + [c + "pl " + cps(l) for l in ntp_split(doc, sort)]


def ntp_oracle(text, nq, got, viol, what):
    """the property's clause, decided without the model: what the W3C grammar accepts, rdflib reads as that"""
    try:
        ref = strict_read(text, nq)
    except Reject:
        return False
    rows = sorted(set(ntp.canon_model("ok " + r, nq, False)[3:] for r in enc_jquads(ref, nq)[2:].split(" ; ") if r.strip()))
    want = "ok" + "".join(" ; " + r for r in rows)
    if not got.startswith("ok"):
        viol.append(f"ntparser-reject: rdflib's {'N-Quads' if nq else 'N-Triples'} parser raises {got} on the legal {what} {text[:200]!r}")
    else:
        g = "ok" + "".join(" ; " + r for r in sorted(set(r.strip() for r in got[2:].split(" ; ") if r.strip() not in ("", "-"))))
        if g != want:
            viol.append(f"ntparser-wrong: rdflib's {'N-Quads' if nq else 'N-Triples'} parser reads the legal {what} {text[:200]!r} "
                        f"as {got[:200]} instead of {want[:200]}")
    return True


def run_ntline(case):
    nq = case["nq"]
    obs, viol = [], []
    stats = {"ntline_cases": 1, "ntline_lines": len(case["lines"]), "ntline_docs": len(case["docs"])}
    for l in case["lines"]:
        o = ntp.real_line(l, nq)
        obs.append(o)
        kind = "blank" if o == "ok -" else o.split(" ")[0].split(":")[0]
        stats["ntline_" + kind] = stats.get("ntline_" + kind, 0) + 1
        legal = ntp_oracle(l, nq, o, viol, "line")
        if legal:
            stats["ntline_legal"] = stats.get("ntline_legal", 0) + 1
        elif o.startswith("ok"):
            stats["ntline_lenient_accept"] = stats.get("ntline_lenient_accept", 0) + 1
    for d in case["docs"]:
        o = ntp.real_doc(d, nq)
        obs.append(o)
        stats["ntdoc_" + o.split(" ")[0].split(":")[0]] = stats.get("ntdoc_" + o.split(" ")[0].split(":")[0], 0) + 1
        if ntp_oracle(d, nq, o, viol, "document"):
            stats["ntdoc_legal"] = stats.get("ntdoc_legal", 0) + 1
    return {"obs": obs, "viol": viol, "nontrivial": any(o.startswith("ok ") for o in obs),
            "key": "ntline:" + json.dumps(case, sort_keys=True), "stats": stats}


def run_impl(case):
    k = case["kind"]
    if k == "ntline":
        return run_ntline(case)
    if k == "utf8":
        return run_utf8(case)
    if k == "spell":
        return run_spell(case)
    if k == "out":
        return run_out(case)
    if k == "doc":
        return run_doc(case)
    if k == "w3c":
        return run_w3c(case)
    raise ValueError(k)


# ------------------------------------------------------------------ model side


def model_lines(case):
    k = case["kind"]
    if k == "ntline":
        c = "nq" if case["nq"] else "nt"
        return [c + "pl " + cps(l) for l in case["lines"]] + [c + "pd " + cps(d) for d in case["docs"]]
    if k == "utf8":
        nums = lambda xs: " ".join(map(str, xs))  # noqa: E731
        return (["u8e " + nums(c) for c in case["cps"]] + ["u8d " + nums(b) for b in case["bytes"]] +
                [f"route {'nt' if n % 2 == 0 else 'nquads'} {r} " + nums(d) for n, d in enumerate(case["docs"])
                 for r in ("str", "bytes", "file")])
    if k == "out":
        quads = case["quads"]
        g = build([q for q in quads if q[3] is None], False)
        ds = build(quads, True)
        nt, nq = g.serialize(format="nt"), ds.serialize(format="nquads")
        return (["ntdoc " + cps(nt), "nqdoc " + cps(nq)] + ntp_lines(nt, False, whole=False, sort=True) +
                ntp_lines(nq, True, whole=False, sort=True))
    if k == "doc":
        if case["fmt"] in ("nt", "nquads"):
            return [("nqdoc " if case["fmt"] == "nquads" else "ntdoc ") + cps(case["doc"])]
        return []
    if k == "w3c":
        d, tests = w3c_tests(case["suite"])
        cmd = "nqdoc " if case["suite"] == "nquads" else "ntdoc "
        docs = [open(os.path.join(d, n), encoding="utf-8", newline="").read() for n, _ in tests]
        return [cmd + cps(x) for x in docs] + [cmd[:2] + "pd " + cps(x) for x in docs]
    fmt, quads, off = case["fmt"], case["quads"], case.get("off", [])
    if not expressible(fmt, quads):
        return []
    lines = []
    for seed in case["streams"]:
        doc, ch = render(fmt, quads, seed, off, case.get("base"))
        if fmt in ("nt", "nquads"):
            lines.append(("nqdoc " if fmt == "nquads" else "ntdoc ") + cps(doc))
        else:
            lines += codec_lines(ch.log)
        if fmt in BOM_FORMATS and seed == case["streams"][0]:
            if fmt in ("nt", "nquads"):     # the reader is handed the mark (Utf8.handed) and must reject it
                lines.append(("nqdoc " if fmt == "nquads" else "ntdoc ") + cps("\ufeff" + doc))
            else:                           # the mark is skipped on the byte route as on the others
                lines.append(f"route {fmt} bytes " + cps("\ufeff" + doc[:8]))
    if fmt in ("nt", "nquads"):
        for seed in case["streams"]:
            doc, _ch = render(fmt, quads, seed, off, case.get("base"))
            lines += ntp_lines(doc, fmt == "nquads")
    return lines


NTP_CMDS = ("ntpl", "nqpl", "ntpd", "nqpd")


def select_model_obs(case, out):
    """answers to the questions put to the model of rdflib's parser (always the last lines of a case) are pushed
    through the Literal constructor like the parser's own results; the other lines as before"""
    ins = model_lines(case)
    first = next((i for i, l in enumerate(ins) if l.split(" ", 1)[0] in NTP_CMDS), None)
    if first is None or len(ins) != len(out):
        return _select_model_obs(case, out)
    new = [ntp.canon_model(o, ins[i][:2] == "nq", ins[i][2:4] == "pd") for i, o in zip(range(first, len(out)), out[first:])]
    return (_select_model_obs(case, out[:first]) if first else []) + new


def _select_model_obs(case, out):
    k = case["kind"]
    if k == "utf8":
        return [o.strip() for o in out]
    if k == "w3c":
        return ["reject" if o == "reject" else ("accept" if o.startswith("ok") else o) for o in out]
    if k == "spell" and case["fmt"] in BOM_FORMATS and expressible(case["fmt"], case["quads"]) and out:
        # the line after the first stream's lines is the byte-order-mark variant
        doc, ch = render(case["fmt"], case["quads"], case["streams"][0], case.get("off", []), case.get("base"))
        n = 1 if case["fmt"] in ("nt", "nquads") else len(codec_lines(ch.log))
        a = out[n]
        if case["fmt"] in ("nt", "nquads"):
            b = "bom: reject" if a == "reject" else "bom: accepted-by-reader"
        else:
            b = "bom: skipped" if a.strip() == ("ok " + cps(doc[:8])).strip() else "bom: kept " + a
        out = out[:n] + [None] + out[n + 1:]
    else:
        n, b = None, None
    if k in ("out", "doc") or (k == "spell" and case["fmt"] in ("nt", "nquads")):
        res = [canon_model_answer(o) if o is not None else o for o in out]
    else:
        res = [(o.rstrip() if o.endswith(" ") and len(o) > 6 else o) if o is not None else o for o in out]
    if n is not None:
        res[n] = b
    return res


# ------------------------------------------------------------------ shrinking, findings

ALL_FEATURES = ["rel_iri", "dot_segments", "iri_uchar", "pname", "pnlocal_esc", "a_keyword", "shorthand", "dquote", "long_string",
                "str_escapes", "collection", "empty_collection", "nest_bnode", "anon_subject", "object_lists", "semi_repeat", "semi_trailing",
                "split_subject", "split_graph", "default_braces", "graph_keyword", "kw_case", "no_last_dot", "odd_split",
                "declare_prefix", "kw_prefix", "rebase", "sparql_prefix", "sparql_base", "base_directive", "tight", "tight_dot", "odd_ws",
                "comments", "crlf", "cr_eol", "no_final_eol", "leading_comment", "fancy_labels", "min_ws",
                "comment_lines", "empty_lines", "trailing_comment"]


def shrink(case):
    k = case["kind"]
    if k not in ("spell", "out"):
        return
    quads = case["quads"]
    if k == "spell" and len(case["streams"]) > 1:
        for s in case["streams"]:
            yield {**case, "streams": [s]}
    for key in ("ways", "oways"):
        for w in case.get(key, []):
            yield {**case, key: [x for x in case[key] if x != w]}
    for i in range(len(quads)):
        yield {**case, "quads": quads[:i] + quads[i + 1:]}
    if k == "spell":
        for f in ALL_FEATURES + getattr(sp, "XML_FEATURES", []) + getattr(sp, "JSONLD_FEATURES", []):
            if f not in case.get("off", []):
                yield {**case, "off": sorted(case.get("off", []) + [f])}
    # simplify terms
    for i, q in enumerate(quads):
        for j, t in enumerate(q):
            if t is None:
                continue
            for t2 in _simpler(t, j):
                yield {**case, "quads": quads[:i] + [q[:j] + [t2] + q[j + 1:]] + quads[i + 1:]}


def _simpler(t, pos):
    if t[0] == "L":
        _, lex, dt, lang = t
        if dt is not None or lang is not None:
            yield ["L", lex, None, None]
        if len(lex) > 1:
            yield ["L", lex[: len(lex) // 2], dt, lang]
            yield ["L", lex[len(lex) // 2:], dt, lang]
            for i in range(min(len(lex), 6)):
                yield ["L", lex[:i] + lex[i + 1:], dt, lang]
        elif lex not in ("", "x"):
            yield ["L", "x", dt, lang]
    elif t[0] == "I":
        simple = "http://example.org/p" if pos == 1 else "http://example.org/s"
        if t[1] != simple and t[1] not in (RDF + "first", RDF + "rest", RDF + "nil"):
            yield ["I", simple]
    elif t[0] == "B" and pos in (0, 2):
        yield ["I", "http://example.org/s"]





def _not_xml(quads):
    return [q for q in quads if q[2][0] == "L" and sp._NOT_XML_CHAR.search(q[2][1])]


def _m_xml_control_chars(case, result):
    """out case whose only complaint is ill-formed XML, caused by literal characters outside the XML 1.0 Char
    production: replacing exactly those characters makes every output well-formed"""
    if case.get("kind") != "out" or not result["viol"]:
        return False
    if any(v.split(":")[0] != "xml-illformed" for v in result["viol"]) or not _not_xml(case["quads"]):
        return False
    clean = [[s, p, (["L", sp._NOT_XML_CHAR.sub("x", o[1]), o[2], o[3]] if o[0] == "L" else o), g]
             for s, p, o, g in case["quads"]]
    return not run_out({"kind": "out", "quads": clean})["viol"]


def _m_doc(case, result):
    return case.get("kind") == "doc"


MATCHERS = {"xml_control_chars": _m_xml_control_chars, "witness_document": _m_doc, "witness_output": lambda c, r: c.get("kind") == "out"}

_BRACKETS = re.compile(r"[()%][^/#:]*$")


def _name_iris(quads):
    """IRIs that the RDF/XML serializers turn into element names: predicates and IRI objects of rdf:type"""
    return [q for q in quads if _BRACKETS.search(q[1][1]) or (q[1][1] == RDF + "type" and q[2][0] == "I" and _BRACKETS.search(q[2][1]))]


def _m_xml_name_brackets(case, result):
    """out case whose only complaint is ill-formed XML, caused by '(' ')' '%' in the local part of an element-name
    IRI: replacing exactly those characters makes every output well-formed"""
    if case.get("kind") != "out" or not result["viol"]:
        return False
    if any(v.split(":")[0] != "xml-illformed" for v in result["viol"]) or not _name_iris(case["quads"]):
        return False
    fix = lambda i: re.sub(r"[()%]", "_", i)  # noqa: E731
    clean = [[s, ["I", fix(p[1])], (["I", fix(o[1])] if p[1] == RDF + "type" and o[0] == "I" else o), g]
             for s, p, o, g in case["quads"]]
    return not run_out({"kind": "out", "quads": clean})["viol"]


MATCHERS["xml_name_brackets"] = _m_xml_name_brackets
