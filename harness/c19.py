"""C19 — an RDF Collection behaves like the Python list it represents.  DESIGN §6 C19.

Two case kinds.

  {"kind": "hist", "head": "b"|"u", "init": {"mode": "ctor"|"triples", "items": [ids]},
   "extra": [[s,p,o]…], "ops": [["append",x] | ["iadd",[x…],shape] | ["iaddself"] | ["ctor",[x…],shape] |
                                ["set",i,x] | ["del",i] | ["clear"]],
   "probe": [member ids]}
      A history of list operations on `Collection(g, head)`; the start list is built either by
      the constructor (`Collection(g, head, seq)`) or from hand-written rdf:first/rdf:rest triples.
      `shape` says how the operand of `+=` / the constructor is handed over: list, tuple, generator,
      iter(list), map object, dict keys view, another Collection (in a graph of its own); `iaddself` is
      `c += c`; `ctor` re-opens the collection in mid-history with `Collection(g, head, seq)` on a head
      that already carries a list (it must behave as `+= seq`).
      After the construction and after every operation a *snapshot* of all reads is taken:
      list(c), len(c), c[i] for i in [-(n+2), n+1], c.index(x) and `x in c` for every probe member,
      and the triple footprint (independent walker: well-formed chain, no orphaned cells,
      non-list triples untouched); then (round g) `list(g.items(head))` called directly and the text of
      `c.n3()`, which must be "( " + the members' own n3() joined by blanks + " )" and must read back as the
      list through rdflib's Turtle parser.
      Oracle (independent of Lean): a real Python list subjected to the same operations.

  {"kind": "two", …as "hist" with init mode "triples"…, "second": {"items": [ids], "share": k | null, "junk": [[s,p,o]…]}}
      (round g) The same history on a graph that ALSO holds a second collection (head 200, private cells 200…) which
      either ends in rdf:nil (disjoint) or is linked into the first collection's k-th cell (shared tail), plus stray
      list triples on other subjects.  The first collection must behave exactly like the list (footprint taken
      without the foreign subjects), every triple with a foreign subject must stay as it is, a disjoint second
      collection must keep its list; what a tail-sharing second collection reads afterwards is compared with the model.

  {"kind": "broken", "head": …, "triples": [[s,p,o]…], "reads": [["len"]|["iter"]|["get",i]|["index",x]|["contains",x]]}
      Cyclic / broken chains written directly; every read must return or raise (watchdog in core),
      and full traversals of a cyclic chain must raise.

Terms are small integers: 0 = rdf:first, 1 = rdf:rest, 2 = rdf:nil, 5/6 other predicates, 7 another
subject, 10…19 members (falsy literals and look-alikes included), 100… cells (100 = head).
Blank nodes minted by rdflib never cross the protocol (footprints are compared by shape).
"""
import re
import signal
import warnings

import core  # noqa: F401
from rdflib import RDF, BNode, ConjunctiveGraph, Dataset, Graph, Literal, URIRef
from rdflib.collection import Collection

warnings.filterwarnings("ignore", category=DeprecationWarning)

ID = "C19"
LEAN_TARGETS = ["RV.C19.Props", "RV.C19.Audit"]
AUDIT = "RV/C19/Audit.lean"
DRIVER = "drv_c19"
CASES = {"quick": 1400, "thorough": 40000, "search": 20000}
CASE_TIMEOUT_S = 4       # a case is a few ms of work; the watchdog only ever fires on a loop that never ends
RULE = ("(round g: after every op also list(g.items(head)), the text of c.n3() and its read-back by the Turtle parser; "
        "16 % of the cases run the history on a graph that also holds a second collection, disjoint or linked into a cell "
        "of the first (its triples stored before or after the first list's own; deletions at the shared cell), and stray list "
        "triples: own footprint, foreign triples untouched, second list; graph kinds now include the Dataset / "
        "ConjunctiveGraph object itself; += operands include another Collection object over the same head, over a tail "
        "of the list, over rdf:nil, over the other list of the graph) "
        "histories (1-12 ops) of append / += (operand as list, tuple, generator, iter(list), map, dict keys view, "
        "another Collection, the collection itself) / Collection(g, head, seq) re-opened on the list in mid-history / "
        "item assignment / item deletion / clear on Collection(g, head) from "
        "start lengths 0-5 built by the constructor or from hand-written triples, members from a falsy-aware vocabulary "
        "with duplicates, indices in [-(n+2), n+1], full read snapshot + footprint after every op; plus broken/cyclic "
        "chains with every read under the watchdog.  non-trivial = a history with at least one successful mutation of a "
        "non-empty list, or a broken chain on which some read raises; distinct = distinct (start, ops) / (triples, reads)")
ASSUMPTIONS = ["the head and all cells are truthy nodes (BNode/URIRef with non-empty id) and the head is not rdf:nil",
               "BNode() returns a node not occurring in the graph (fresh supply)",
               "the graph behaves as a set of triples (C01); Graph.value returns some matching object",
               "rdf:nil is not the subject of rdf:first/rdf:rest triples in histories (it is in the broken stream)"]
TRUSTED = ["harness/c19.py generators, canonicalisation and the independent chain walker",
           "lean/RV/C19/Drive.lean line protocol"]

FIRST, REST, NIL = 0, 1, 2
HEAD = 100
HEAD2, JUNK, FOREIGN = 200, 300, (200, 399)
MEMBERS = {
    10: URIRef("http://e/a"), 11: BNode("m1"), 12: Literal(0), 13: Literal(""), 14: Literal(False),
    15: Literal("x"), 16: Literal(1), 17: Literal("1"), 18: Literal("0"), 19: Literal("", lang="en"),
    # round h: members whose n3() needs escapes / has blanks, quotes, a fragment, a region subtag
    20: Literal('a "q" \\ b'), 21: Literal("tab\there\rcr ^^<x> @en"), 22: Literal("x y", lang="en-GB"),
    23: URIRef("http://e/a#frag?x=1&y=(1)"),
}
FALSY = [12, 13, 14]
OTHER = {5: URIRef("http://e/p"), 6: RDF.type, 7: URIRef("http://e/s")}


def _terms(head_kind):
    t = {FIRST: RDF.first, REST: RDF.rest, NIL: RDF.nil}
    t.update(MEMBERS)
    t.update(OTHER)
    for i in range(HEAD, HEAD + 64):
        t[i] = BNode(f"c{i}")
    for i in range(HEAD2, HEAD2 + 8):       # private cells of a second collection in the same graph
        t[i] = BNode(f"d{i}")
    t[HEAD2] = URIRef("http://e/list2") if head_kind == "u" else t[HEAD2]
    for i in range(JUNK, JUNK + 4):         # subjects of stray list triples
        t[i] = BNode(f"j{i}")
    if head_kind == "u":
        t[HEAD] = URIRef("http://e/list")
    return t


# sanity of the vocabulary: pairwise unequal, so that ids are faithful
_T = list(_terms("b").values())
assert len(set(_T)) == len(_T) and all(a != b for i, a in enumerate(_T) for b in _T[i + 1:])


GRAPH_KINDS = ["mem", "mem", "simple", "ds", "dsobj", "dsunion", "cg"]


def _graph(kind):
    """the graph the collection lives in: plain Graph over Memory, Graph over SimpleMemory, a named graph
    of a Dataset whose other graphs hold a decoy list under the same head (must stay untouched), or (round g2) the
    Dataset / ConjunctiveGraph OBJECT ITSELF (`Collection(ds, head)`, `ds.collection(head)`): its add() writes to the
    default context, its remove() removes from every context"""
    if kind == "simple":
        return Graph(store="SimpleMemory"), None
    if kind == "ds":
        ds = Dataset()
        g = ds.graph(URIRef("http://e/g"))
        for other in (ds.graph(URIRef("http://e/other")), ds.default_context):
            for hd in (BNode("c100"), URIRef("http://e/list")):
                other.add((hd, RDF.first, Literal("decoy")))
                other.add((hd, RDF.rest, RDF.nil))
        return g, ds
    if kind == "dsobj":
        return Dataset(), None
    if kind == "dsunion":
        return Dataset(default_union=True), None
    if kind == "cg":
        return ConjunctiveGraph(), None
    return Graph(), None


def _decoy_ok(ds):
    if ds is None:
        return True
    return all(len(c) == 4 for c in (ds.graph(URIRef("http://e/other")), ds.default_context))


def _stray_contexts(g):
    """for a Dataset / ConjunctiveGraph object: statements that ended up outside the default context"""
    if not isinstance(g, ConjunctiveGraph):
        return []
    dflt = g.default_context.identifier
    return [q for q in g.quads((None, None, None, None))
            if q[3] is not None and (q[3].identifier if isinstance(q[3], Graph) else q[3]) != dflt]


def _cell_at(g, head, k):
    """the k-th cell of the chain by plain triple lookups (rdf:nil after the last)"""
    cur = head
    for _ in range(k):
        cur = next(g.objects(cur, RDF.rest))
    return cur


SHAPES = ["list", "tuple", "gen", "iter", "map", "dictkeys", "coll"]
ONE_SHOT = ("gen", "iter", "map")


def _eff(xs, shape):
    """the items an operand of that shape really delivers (a dict drops duplicates)"""
    return list(dict.fromkeys(xs)) if shape == "dictkeys" else list(xs)


def _make(shape, terms):
    terms = list(terms)
    if shape == "tuple":
        return tuple(terms)
    if shape == "gen":
        return (t for t in terms)
    if shape == "iter":
        return iter(terms)
    if shape == "map":
        return map(lambda t: t, terms)
    if shape == "dictkeys":
        return dict.fromkeys(terms).keys()
    if shape == "coll":
        return Collection(Graph(), BNode(), terms)
    return terms


def _shape(op):
    return op[2] if len(op) > 2 else "list"


# ------------------------------------------------------------------ generators


def _member(rng, voc):
    return rng.choice(voc)


def _gen_hist(rng, tier):
    head = rng.choice(["b", "b", "u"])
    style = rng.random()
    if style < 0.35:
        voc = rng.sample(list(MEMBERS), 2)                      # many duplicates
        if rng.random() < 0.7:
            voc[0] = rng.choice(FALSY)
    elif style < 0.8:
        voc = rng.sample(list(MEMBERS), 4)
        voc[rng.randrange(4)] = rng.choice(FALSY)
    else:
        voc = list(MEMBERS) + [NIL, HEAD, HEAD + 1]             # members that are list nodes themselves
    n0 = rng.choice([0, 0, 1, 1, 2, 2, 3, 3, 4, 5])
    items = [_member(rng, voc) for _ in range(n0)]
    mode = rng.choice(["ctor", "triples"])
    shape0 = rng.choice(SHAPES)
    if mode == "ctor":
        items = _eff(items, shape0)
        n0 = len(items)
    extra = []
    for _ in range(rng.choice([0, 0, 1, 2, 3])):
        s = rng.choice([HEAD, 7, 7])
        o = rng.choice([HEAD, HEAD + 1, 7, NIL] + voc)
        tr = [s, rng.choice([5, 6]), o]
        if tr not in extra:
            extra.append(tr)
    ops, n = [], n0
    for _ in range(rng.randint(1, 12 if tier == "quick" else 16)):
        r = rng.random()
        if r < 0.2:
            ops.append(["append", _member(rng, voc)]); n += 1
        elif r < 0.36:
            if rng.random() < 0.12 and n <= 8:
                ops.append(["iaddself"]); n += n
            elif rng.random() < 0.1 and n <= 8:
                k = rng.choice([0, 0, 1, 1, 2, 3, n, n + 1])
                ops.append(["iaddview", k]); n += n - min(k, n)
            else:
                sh = rng.choice(SHAPES)
                xs = _eff([_member(rng, voc) for _ in range(rng.choice([0, 1, 1, 2, 3]))], sh)
                ops.append(["iadd", xs, sh]); n += len(xs)
        elif r < 0.43:
            sh = rng.choice(SHAPES)
            xs = _eff([_member(rng, voc) for _ in range(rng.choice([0, 1, 1, 2, 3]))], sh)
            ops.append(["ctor", xs, sh]); n += len(xs)
        elif r < 0.62:
            i = rng.randint(-(n + 2), n + 1) if rng.random() < 0.35 or n == 0 else rng.randrange(n)
            if i == n:          # known finding C19-K1 (c[len(c)] = x): only ever generated as a last op, below
                i = n + 1
            ops.append(["set", i, _member(rng, voc)])
        elif r < 0.96:
            if n and rng.random() < 0.7:
                i = rng.choice([0, n - 1, rng.randrange(n), -1, -n, rng.randrange(n) - n])
            else:
                i = rng.randint(-(n + 2), n + 1)
            ops.append(["del", i])
            if -n <= i < n:
                n -= 1
        else:
            ops.append(["clear"]); n = 0
    if rng.random() < 0.02:
        ops.append(["set", n, _member(rng, voc)])
    absent = [m for m in MEMBERS if m not in voc]
    probe = sorted(set(voc[:6] + ([rng.choice(absent)] if absent else [])))
    return {"kind": "hist", "head": head, "g": rng.choice(GRAPH_KINDS),
            "init": {"mode": mode, "items": items, "shape": shape0}, "extra": extra, "ops": ops, "probe": probe}


def _chain(cells, items, last=NIL):
    tr = []
    for k, (c, x) in enumerate(zip(cells, items)):
        tr.append([c, FIRST, x])
        tr.append([c, REST, cells[k + 1] if k + 1 < len(cells) else last])
    return tr


def _gen_broken(rng, tier):
    n = rng.randint(1, 5)
    cells = [HEAD + k for k in range(n)]
    voc = rng.sample(list(MEMBERS), 3)
    items = [_member(rng, voc) for _ in range(n)]
    shape = rng.choice(["cycle-head", "cycle-inner", "self-loop", "no-rest", "no-first", "two-rests", "two-firsts",
                        "nil-has-first", "rest-literal", "wf"])
    tr = _chain(cells, items)
    k = rng.randrange(n)
    if shape == "cycle-head":
        tr = _chain(cells, items, last=HEAD)
    elif shape == "cycle-inner":
        tr = _chain(cells, items, last=cells[rng.randrange(n)])
    elif shape == "self-loop":
        tr = [t for t in tr if not (t[0] == cells[k] and t[1] == REST)] + [[cells[k], REST, cells[k]]]
    elif shape == "no-rest":
        tr = [t for t in tr if not (t[0] == cells[k] and t[1] == REST)]
    elif shape == "no-first":
        tr = [t for t in tr if not (t[0] == cells[k] and t[1] == FIRST)]
    elif shape == "two-rests":
        tr.insert(rng.randrange(len(tr) + 1), [cells[k], REST, rng.choice(cells + [NIL, HEAD + 9])])
    elif shape == "two-firsts":
        tr.insert(rng.randrange(len(tr) + 1), [cells[k], FIRST, _member(rng, list(MEMBERS))])
    elif shape == "nil-has-first":
        tr.append([NIL, FIRST, _member(rng, voc)])
        if rng.random() < 0.5:
            tr.append([NIL, REST, rng.choice([NIL, HEAD, cells[-1]])])
    elif shape == "rest-literal":
        tr = [t for t in tr if not (t[0] == cells[k] and t[1] == REST)] + [[cells[k], REST, voc[0]]]
    dedup = []
    for t in tr:
        if t not in dedup:
            dedup.append(t)
    absent = [m for m in MEMBERS if m not in voc][0]
    reads = [["len"], ["iter"]] + [["get", i] for i in range(-(n + 2), n + 3)]
    reads += [["index", x] for x in voc + [absent]] + [["contains", x] for x in voc + [absent]]
    reads.append(["ext"])
    rng.shuffle(reads)
    gk = "mem" if shape in ("two-rests", "two-firsts") else rng.choice(GRAPH_KINDS)
    return {"kind": "broken", "head": rng.choice(["b", "u"]), "g": gk, "shape": shape, "triples": dedup,
            "reads": reads}


def _gen_two(rng, tier):
    case = _gen_hist(rng, tier)
    case["kind"] = "two"
    case["init"]["mode"] = "triples"
    ops = case["ops"]
    if ops and ops[-1][0] == "set":          # no C19-K1 here: a trailing set may be the one at index len
        ops.pop()
    if not ops:
        ops.append(["append", rng.choice(list(MEMBERS))])
    n1 = len(case["init"]["items"])
    voc = case["probe"] or list(MEMBERS)
    items2 = [rng.choice(voc) for _ in range(rng.choice([1, 1, 2, 3]))]
    share = (rng.randrange(1, n1) if n1 > 1 and rng.random() < 0.7 else rng.randrange(n1)) if n1 and rng.random() < 0.6 else None
    junk = []
    if rng.random() < 0.4:
        junk.append([JUNK, FIRST, rng.choice(voc)])
        r = rng.random()
        if r < 0.4:
            junk.append([JUNK, REST, JUNK + 1])                          # dangling
        elif r < 0.7 and n1:
            junk.append([JUNK, REST, HEAD + rng.randrange(n1)])          # points into the first collection
        if rng.random() < 0.3:
            junk.append([JUNK + 2, 5, HEAD])
    case["second"] = {"items": items2, "share": share, "junk": junk, "first": rng.random() < 0.5}
    if share is not None and rng.random() < 0.6:
        # a deletion AT the first shared cell (positive or negative index), while the list still has its start length
        ops.insert(0, ["del", share if rng.random() < 0.5 else share - n1])
    if share is None and rng.random() < 0.4:
        ops.insert(rng.randrange(len(ops) + 1), ["iaddother", list(items2)])
    l = list(case["init"]["items"])          # the inserted ops shift the lengths: keep C19-K1 (set at index len) out
    for op in ops:
        if op[0] == "set" and op[1] == len(l):
            op[1] = len(l) + 1
        l, _ = _apply(l, op)
    return case


def gen_case(rng, tier, i):
    r = rng.random()
    if r < 0.14:
        return _gen_broken(rng, tier)
    if r < 0.30:
        return _gen_two(rng, tier)
    return _gen_hist(rng, tier)


# ------------------------------------------------------------------ implementation side


def _exc(e):
    for cls, name in ((IndexError, "IndexError"), (KeyError, "KeyError"), (ValueError, "ValueError")):
        if isinstance(e, cls):
            return name
    return "Other"


def _call(f):
    try:
        return "ok", f()
    except Exception as e:  # noqa: BLE001  (CaseTimeout derives from Exception too: let it through)
        if isinstance(e, core.CaseTimeout):
            raise
        return _exc(e), None


def _footprint(g, head, T, rev, foreign=()):
    """Independent walker over plain triple lookups (no Graph.items / Graph.value / Collection)."""
    lt = [(s, p, o) for s, p, o in g.triples((None, None, None)) if p in (RDF.first, RDF.rest) and s not in foreign]
    by = {}
    for s, p, o in lt:
        by.setdefault(s, {RDF.first: [], RDF.rest: []})[p].append(o)
    status, cells, vals = "ok", [], []
    if head in by:
        cur = head
        while cur != RDF.nil:
            if cur in cells:
                status = "cyclic"; break
            fr = by.get(cur)
            if fr is None:
                status = "dangling-rest"; break
            if len(fr[RDF.first]) != 1:
                status = "cell-firsts=%d" % len(fr[RDF.first]); break
            if len(fr[RDF.rest]) != 1:
                status = "cell-rests=%d" % len(fr[RDF.rest]); break
            cells.append(cur); vals.append(fr[RDF.first][0])
            cur = fr[RDF.rest][0]
    orphans = [t for t in lt if t[0] not in cells]
    if status == "ok" and orphans:
        status = "orphans=%d" % len(orphans)
    extra = sorted((rev.get(s, 999), rev.get(p, 999), rev.get(o, 999))
                   for s, p, o in g.triples((None, None, None)) if p not in (RDF.first, RDF.rest) and s not in foreign)
    return status, len(lt), vals, extra


def _show(kind, v, rev):
    if kind != "ok":
        return kind
    if isinstance(v, bool):
        return "T" if v else "F"
    if isinstance(v, int):
        return str(v)
    if isinstance(v, list):
        return ",".join(str(rev.get(x, 999)) for x in v) if v else "-"
    return str(rev.get(v, 999))


def _snapshot(c, g, head, T, rev, l, probe, viol, where, extra0, foreign=()):
    n = len(l)
    parts = []
    k, v = _call(lambda: list(c))
    parts.append("L=" + _show(k, v, rev))
    if k != "ok" or [rev.get(x, 999) for x in v] != l:
        viol.append(f"iter: {where}: list(c) = {_show(k, v, rev)} but the list is {l}")
    k, v = _call(lambda: len(c))
    parts.append("N=" + _show(k, v, rev))
    if k != "ok" or v != n:
        viol.append(f"len: {where}: len(c) = {_show(k, v, rev)} but the list has {n}")
    gs = []
    for i in range(-(n + 2), n + 2):
        k, v = _call(lambda i=i: c[i])
        gs.append(_show(k, v, rev))
        want = str(l[i]) if -n <= i < n else "IndexError"
        if gs[-1] != want:
            falsy = (-n <= i < n) and l[i] in FALSY
            tag = "getitem-falsy" if falsy else ("getitem-neg" if i < 0 else "getitem")
            viol.append(f"{tag}: {where}: c[{i}] gives {gs[-1]} but the list {l} gives {want}")
    parts.append("G=" + ";".join(gs))
    ix, cs = [], []
    for x in probe:
        k, v = _call(lambda x=x: c.index(T[x]))
        ix.append(_show(k, v, rev))
        if x in l:
            if ix[-1] != str(l.index(x)):
                viol.append(f"index: {where}: c.index({x}) gives {ix[-1]} but the list {l} gives {l.index(x)}")
        elif k in ("ok", "IndexError"):
            viol.append(f"index: {where}: c.index({x}) gives {ix[-1]} but {x} is not in the list {l}")
        k, v = _call(lambda x=x: T[x] in c)
        cs.append(_show(k, v, rev))
        if cs[-1] != ("T" if x in l else "F"):
            viol.append(f"contains: {where}: ({x} in c) gives {cs[-1]} but the list is {l}")
    parts.append("I=" + ";".join(ix))
    parts.append("C=" + ";".join(cs))
    status, nlt, vals, extra = _footprint(g, head, T, rev, foreign)
    parts.append(f"F={status},{nlt}")
    parts.append("X=" + (";".join(".".join(map(str, t)) for t in extra) or "-"))
    if status != "ok":
        tag = "orphan" if status.startswith("orphans") else "wf"
        viol.append(f"{tag}: {where}: the rdf:first/rdf:rest footprint is not a well-formed chain ({status})")
    elif [rev.get(x, 999) for x in vals] != l or nlt != 2 * n:
        viol.append(f"wf: {where}: the chain in the graph holds {[rev.get(x, 999) for x in vals]} "
                    f"({nlt} list triples) but the list is {l}")
    if extra != extra0:
        viol.append(f"frame: {where}: triples that are not part of the list changed: {extra0} -> {extra}")
    return " ".join(parts)


_S, _P = URIRef("http://e/s"), URIRef("http://e/p")


def _second_triples(sec):
    n2 = len(sec["items"])
    last = NIL if sec["share"] is None else HEAD + sec["share"]
    return _chain([HEAD2 + k for k in range(n2)], sec["items"], last=last) + [list(t) for t in sec["junk"]]


def _second(g, T, rev, fset, sec, f0, viol, where, stats):
    """the other collection read through its own head, and every triple with a foreign subject"""
    c2 = Collection(g, T[HEAD2])
    k, v = _call(lambda: list(c2))
    k2, n = _call(lambda: len(c2))
    ft = sorted((rev.get(s, 999), rev.get(p, 999), rev.get(o, 999)) for s, p, o in g.triples((None, None, None)) if s in fset)
    if ft != f0:
        viol.append(f"frame2: {where}: triples of another collection / stray list triples changed: {f0} -> {ft}")
    if sec["share"] is None and (k != "ok" or [rev.get(x, 999) for x in v] != sec["items"]):
        viol.append(f"second: {where}: a disjoint second collection in the same graph now reads {_show(k, v, rev)}, "
                    f"it was {sec['items']}")
    if sec["share"] is not None and (k != "ok" or [rev.get(x, 999) for x in v][:len(sec["items"])] != sec["items"]):
        viol.append(f"second: {where}: the private prefix of the tail-sharing collection reads {_show(k, v, rev)}, "
                    f"it was {sec['items']}")
    g2 = []
    for i in (0, -1):
        ki, vi = _call(lambda i=i: c2[i])
        g2.append(_show(ki, vi, rev))
        if sec["share"] is None and g2[-1] != str(sec["items"][i]):
            viol.append(f"second: {where}: c2[{i}] of a disjoint second collection gives {g2[-1]}, it was {sec['items'][i]}")
    if sec["share"] is None and (k2 != "ok" or n != len(sec["items"])):
        viol.append(f"second: {where}: len of a disjoint second collection gives {_show(k2, n, rev)}")
    return (f"L2={_show(k, v, rev)} N2={_show(k2, n, rev)} G2={';'.join(g2)} F2="
            + (";".join(".".join(map(str, t)) for t in ft) or "-"))


def _read_n3_list(txt):
    """the reader: rdflib's Turtle parser on `<s> <p> ( … ) .`, then plain triple lookups along the parsed list"""
    pg = Graph()
    pg.parse(data=f"<http://e/s> <http://e/p> {txt} .", format="turtle")
    cur, vals = next(pg.objects(_S, _P)), []
    for _ in range(10000):
        if cur == RDF.nil:
            return vals
        vals.append(next(pg.objects(cur, RDF.first)))
        cur = next(pg.objects(cur, RDF.rest))
    raise ValueError("parsed list does not end")


def _same_terms(got, want):
    """equal up to a consistent renaming of blank nodes (the parser relabels them)"""
    if len(got) != len(want):
        return False
    m = {}
    for a, b in zip(got, want):
        if isinstance(b, BNode):
            if not isinstance(a, BNode) or m.setdefault(b, a) != a:
                return False
        elif a != b or type(a) is not type(b) or (isinstance(b, Literal) and (a.datatype, a.language) != (b.datatype, b.language)):
            return False
    return len(set(m.values())) == len(m)


def _ext(c, g, head, T, rev, l, viol, where, seen, stats):
    """round g: Graph.items called directly, and Collection.n3()"""
    k, v = _call(lambda: list(g.items(head)))
    it = _show(k, v, rev)
    if k != "ok" or [rev.get(x, 999) for x in v] != l:
        viol.append(f"gitems: {where}: list(g.items(head)) = {it} but the list is {l}")
    k, txt = _call(lambda: c.n3())
    if k != "ok":
        viol.append(f"n3-text: {where}: c.n3() raised {k}")
        return f"IT={it} RB=ok N3={k}"
    want = "( %s )" % " ".join(T[x].n3() for x in l)
    if txt != want:
        viol.append(f"n3-text: {where}: c.n3() = {txt!r} but the list {l} is written {want!r}")
    if txt not in seen:
        rk, vals = _call(lambda: _read_n3_list(txt))
        seen[txt] = rk == "ok" and _same_terms(vals, [T[x] for x in l])
        stats["n3_read_back"] = stats.get("n3_read_back", 0) + 1
        stats["n3_len_%s" % (len(l) if len(l) < 4 else "4+")] = 1
        if not seen[txt]:
            viol.append(f"n3-reader: {where}: {txt!r} read back by the Turtle parser gives "
                        f"{rk if rk != 'ok' else [x.n3() for x in vals]}, the list is {[T[x].n3() for x in l]}")
    return f"IT={it} RB=ok N3={txt}"


def _run_hist(case):
    T = _terms(case["head"])
    rev = {v: k for k, v in T.items()}
    g, ds = _graph(case.get("g", "mem"))
    head = T[HEAD]
    items = case["init"]["items"]
    for s, p, o in case["extra"]:
        g.add((T[s], T[p], T[o]))
    extra0 = sorted(tuple(t) for t in case["extra"])
    obs, viol = [], []
    sec = case.get("second")
    if sec and sec.get("first"):            # the other list's triples are in the store BEFORE this list's own
        for s_, p_, o_ in _second_triples(sec):
            g.add((T[s_], T[p_], T[o_]))
    if case["init"]["mode"] == "ctor":
        shape0 = case["init"].get("shape", "list")
        items = _eff(items, shape0)
        k, c = _call(lambda: Collection(g, head, _make(shape0, [T[x] for x in items])))
        obs.append(k)
        if k != "ok":
            viol.append(f"raise: constructor raised {k}")
            c = Collection(g, head)
    else:
        for s, p, o in _chain([HEAD + k for k in range(len(items))], items):
            g.add((T[s], T[p], T[o]))
        c = g.collection(head) if len(case["ops"]) % 2 else Collection(g, head)
        obs.append("ok")
    l = list(items)
    fset, f0 = (), []
    if sec:
        for s_, p_, o_ in _second_triples(sec):
            g.add((T[s_], T[p_], T[o_]))
        fset = {T[i] for i in range(FOREIGN[0], FOREIGN[1] + 1) if i in T}
        f0 = sorted(set(map(tuple, _second_triples(sec))))
    obs.append(_snapshot(c, g, head, T, rev, l, case["probe"], viol, "at start", extra0, fset))
    mutated, seen = False, {}
    stats = {"hist": 1, "start_len_%d" % len(items): 1, "mode_" + case["init"]["mode"]: 1,
             "graph_" + case.get("g", "mem"): 1}
    if case["init"]["mode"] == "ctor":
        stats["init_shape_" + case["init"].get("shape", "list")] = 1
    obs.append(_ext(c, g, head, T, rev, l, viol, "at start", seen, stats))
    if sec:
        stats.update({"two": 1, "two_shared" if sec["share"] is not None else "two_disjoint": 1,
                      "two_junk": int(bool(sec["junk"])), "two_foreign_first": int(bool(sec.get("first")))})
        obs.append(_second(g, T, rev, fset, sec, f0, viol, "at start", stats))
    for j, op in enumerate(case["ops"]):
        kind = op[0]
        n = len(l)
        want = "ok"
        if kind == "append":
            l.append(op[1])
            k, _ = _call(lambda: c.append(T[op[1]]))
        elif kind == "iadd":
            xs = _eff(op[1], _shape(op))
            l += xs
            stats["iadd_shape_" + _shape(op)] = stats.get("iadd_shape_" + _shape(op), 0) + 1

            def f():
                nonlocal c
                c += _make(_shape(op), [T[x] for x in xs])
            k, _ = _call(f)
        elif kind == "iaddself":
            l += l

            def f():
                nonlocal c
                c += c
            k, _ = _call(f)
        elif kind == "iaddview":
            # the operand is ANOTHER Collection object reading this very list lazily: over the same head (k = 0),
            # over its k-th cell (a tail of it), over rdf:nil (k = len)
            kk = min(op[1], n)
            xs = l[kk:]
            cell = _cell_at(g, head, kk)
            view = g.collection(cell) if op[1] % 2 else Collection(g, cell)
            l += xs
            stats["iaddview_" + ("head" if kk == 0 else "nil" if kk == n else "tail")] = 1

            def f():
                nonlocal c
                c += view
            k, _ = _call(f)
        elif kind == "iaddother":
            # the operand is the other (disjoint) collection living in the same graph
            l += op[1]

            def f():
                nonlocal c
                c += Collection(g, T[HEAD2])
            k, _ = _call(f)
        elif kind == "ctor":
            xs = _eff(op[1], _shape(op))
            l += xs
            stats["reopen_shape_" + _shape(op)] = stats.get("reopen_shape_" + _shape(op), 0) + 1
            stats["reopen_on_len_%s" % (n if n < 3 else "3+")] = stats.get("reopen_on_len_%s" % (n if n < 3 else "3+"), 0) + 1
            k, c2 = _call(lambda: Collection(g, head, _make(_shape(op), [T[x] for x in xs])))
            if k == "ok":
                c = c2
        elif kind == "set":
            if -n <= op[1] < n:
                l[op[1]] = op[2]
            else:
                want = "IndexError"
            k, _ = _call(lambda: c.__setitem__(op[1], T[op[2]]))
        elif kind == "del":
            if -n <= op[1] < n:
                del l[op[1]]
                pos = op[1] % n
                stats["del_" + ("only" if n == 1 else "first" if pos == 0 else "last" if pos == n - 1 else "middle")] = 1
            else:
                want = "IndexError"
            k, _ = _call(lambda: c.__delitem__(op[1]))
        elif kind == "clear":
            l.clear()
            k, _ = _call(lambda: c.clear())
        else:
            raise ValueError(kind)
        obs.append(k)
        stats["len_before_op_%s" % (n if n < 6 else "6+")] = stats.get("len_before_op_%s" % (n if n < 6 else "6+"), 0) + 1
        stats["op_" + kind] = stats.get("op_" + kind, 0) + 1
        stats["res_" + k] = stats.get("res_" + k, 0) + 1
        if kind in ("set", "del") and op[1] < 0:
            stats["neg_index_ops"] = stats.get("neg_index_ops", 0) + 1
        if k != want:
            tag = {"set": "setitem", "del": "delitem"}.get(kind, kind)
            if kind in ("set", "del") and op[1] < 0:
                tag += "-neg"
            viol.append(f"{tag}: op {j} {op} on the list of length {n}: the collection gives {k}, the list {want}")
        if k == "ok" and n > 0 and kind != "clear":
            mutated = True
        obs.append(_snapshot(c, g, head, T, rev, l, case["probe"], viol, f"after op {j} {op}", extra0, fset))
        obs.append(_ext(c, g, head, T, rev, l, viol, f"after op {j} {op}", seen, stats))
        if sec:
            obs.append(_second(g, T, rev, fset, sec, f0, viol, f"after op {j} {op}", stats))
    if not _decoy_ok(ds):
        viol.append("frame: the same head's list in another graph of the dataset was touched")
    stray = _stray_contexts(g)
    if stray:
        viol.append(f"context: {len(stray)} statement(s) written through the Dataset/ConjunctiveGraph object ended up "
                    f"outside its default context, e.g. {[rev.get(x, 999) for x in stray[0][:3]]}")
    if any(x in FALSY for x in items) or any(x in FALSY for op in case["ops"] for x in
                                             (op[1] if op[0] in ("iadd", "ctor") else op[1:])):
        stats["falsy_member"] = 1
    return {"obs": obs, "viol": viol, "nontrivial": mutated,
            "key": repr((case["head"], case["init"], case["ops"], case.get("second"))), "stats": stats}


def _run_broken(case):
    T = _terms(case["head"])
    rev = {v: k for k, v in T.items()}
    g, ds = _graph(case.get("g", "mem"))
    for s, p, o in case["triples"]:
        g.add((T[s], T[p], T[o]))
    c = Collection(g, T[HEAD])
    # the oracle: follow single rdf:rest links from the head; a repeated cell = cyclic
    rests = {}
    for s, p, o in case["triples"]:
        if p == REST:
            rests.setdefault(s, []).append(o)
    cyclic, seen, cur = False, [], HEAD
    while cur in rests and len(rests[cur]) == 1:
        if cur in seen:
            cyclic = True
            break
        seen.append(cur)
        cur = rests[cur][0]
    firsts = {x for s, p, x in case["triples"] if p == FIRST and s in seen}
    before = sorted(map(tuple, case["triples"]))
    obs, viol, raised = [], [], False
    for r in case["reads"]:
        if r[0] == "len":
            k, v = _call(lambda: len(c))
        elif r[0] == "iter":
            k, v = _call(lambda: list(c))
        elif r[0] == "get":
            k, v = _call(lambda: c[r[1]])
        elif r[0] == "index":
            k, v = _call(lambda: c.index(T[r[1]]))
        elif r[0] == "contains":
            k, v = _call(lambda: T[r[1]] in c)
        elif r[0] == "ext":
            k, v = _call(lambda: list(g.items(T[HEAD])))
            k2, txt = _call(lambda: c.n3())
            obs.append(f"IT={_show(k, v, rev)} RB=ok N3={txt if k2 == 'ok' else k2}")
            raised = raised or k != "ok" or k2 != "ok"
            if cyclic and (k == "ok" or k2 == "ok"):
                viol.append(f"cyclic-no-raise: g.items / c.n3() on a cyclic chain returned ({k}, {k2}) instead of raising")
            continue
        else:
            raise ValueError(r)
        obs.append(_show(k, v, rev))
        raised = raised or k != "ok"
        full = r[0] in ("len", "iter") or (r[0] in ("index", "contains") and r[1] not in firsts)
        if cyclic and full and k == "ok":
            viol.append(f"cyclic-no-raise: {r} on a cyclic chain returned {obs[-1]} instead of raising")
    after = sorted((rev.get(s, 999), rev.get(p, 999), rev.get(o, 999)) for s, p, o in g.triples((None, None, None)))
    if after != before or not _decoy_ok(ds):
        viol.append("read-mutates: reads changed the graph")
    return {"obs": obs, "viol": viol, "nontrivial": raised,
            "key": repr((case["triples"], case["reads"])),
            "stats": {"broken": 1, "shape_" + case.get("shape", "?"): 1, "broken_cyclic": int(cyclic)}}


def run_impl(case):
    # core's watchdog is a one-shot SIGALRM whose exception can be swallowed by the bare `except:` clauses of
    # rdflib's SimpleMemory.add (a loop that never ends then also grows without bound): keep it firing until the
    # exception gets out, and disarm it on the way out.
    rem, _ = signal.getitimer(signal.ITIMER_REAL)
    if rem > 0:
        signal.setitimer(signal.ITIMER_REAL, rem, 0.2)
    try:
        return _run_hist(case) if case["kind"] in ("hist", "two") else _run_broken(case)
    except core.CaseTimeout:
        signal.setitimer(signal.ITIMER_REAL, 0)
        raise


# ------------------------------------------------------------------ model side


def _cps(txt):
    return ",".join(str(ord(ch)) for ch in txt) or "-"


def _term_lines(case):
    """the members' rdflib terms, so that the model writes the REAL text of n3() (round h)"""
    T = _terms(case["head"])
    lines = []
    for k in list(MEMBERS) + [NIL, HEAD, HEAD + 1, HEAD2]:
        t = T[k]
        if isinstance(t, URIRef):
            lines.append(f"term {k} I {_cps(str(t))}")
        elif isinstance(t, BNode):
            lines.append(f"term {k} B {_cps(str(t))}")
        elif t.language:
            lines.append(f"term {k} G {_cps(str(t))} {_cps(t.language)}")
        elif t.datatype:
            lines.append(f"term {k} T {_cps(str(t))} {_cps(str(t.datatype))}")
        else:
            lines.append(f"term {k} P {_cps(str(t))}")
    return lines


def _snapline(n, probe):
    return f"snap {-(n + 2)} {n + 1} " + " ".join(map(str, probe))


def model_lines(case):
    lines = [f"reset {HEAD}"] + _term_lines(case)
    if case["kind"] == "broken":
        for t in case["triples"]:
            lines.append("t " + " ".join(map(str, t)))
        for r in case["reads"]:
            lines.append(" ".join(map(str, r)))
        return lines
    for t in case["extra"]:
        lines.append("t " + " ".join(map(str, t)))
    sec = case.get("second")
    ft = []
    for t in (_second_triples(sec) if sec else []):
        if t not in ft:
            ft.append(t)
    if sec and sec.get("first"):
        lines += [f"foreign {FOREIGN[0]} {FOREIGN[1]}"] + ["t " + " ".join(map(str, t)) for t in ft]
    items = case["init"]["items"]
    if case["init"]["mode"] == "ctor":
        items = _eff(items, case["init"].get("shape", "list"))
        lines.append(_ctor_line(items, case["init"].get("shape", "list")))
    else:
        for t in _chain([HEAD + k for k in range(len(items))], items):
            lines.append("t " + " ".join(map(str, t)))
        lines.append("nop")
    if sec and not sec.get("first"):
        lines[-1:-1] = [f"foreign {FOREIGN[0]} {FOREIGN[1]}"] + ["t " + " ".join(map(str, t)) for t in ft]
    l = list(items)
    lines.append(_snapline(len(l), case["probe"]))
    lines.append("ext")
    if sec:
        lines.append(f"second {HEAD2}")
    for op in case["ops"]:
        n = len(l)
        if op[0] == "append":
            l.append(op[1]); lines.append(f"append {op[1]}")
        elif op[0] == "iadd":
            xs = _eff(op[1], _shape(op))
            l += xs; lines.append("iadd " + " ".join(map(str, xs)))
        elif op[0] == "iaddself":
            lines.append("iadd " + " ".join(map(str, l))); l += l
        elif op[0] == "iaddview":       # snapshot semantics: what the view reads at that moment
            xs = l[min(op[1], n):]
            lines.append("iadd " + " ".join(map(str, xs))); l += xs
        elif op[0] == "iaddother":
            lines.append("iadd " + " ".join(map(str, op[1]))); l += op[1]
        elif op[0] == "ctor":
            xs = _eff(op[1], _shape(op))
            l += xs; lines.append(_ctor_line(xs, _shape(op)))
        elif op[0] == "set":
            if -n <= op[1] < n:
                l[op[1]] = op[2]
            lines.append(f"set {op[1]} {op[2]}")
        elif op[0] == "del":
            if -n <= op[1] < n:
                del l[op[1]]
            lines.append(f"del {op[1]}")
        elif op[0] == "clear":
            l.clear(); lines.append("clear")
        lines.append(_snapline(len(l), case["probe"]))
        lines.append("ext")
        if sec:
            lines.append(f"second {HEAD2}")
    return lines


def _ctor_line(xs, shape):
    """`Collection(g, head, seq)` runs `self += seq` iff `seq` is truthy: an exhausted one-shot iterator is"""
    return ("iadd" if shape in ONE_SHOT else "ctor") + "".join(f" {x}" for x in xs)


def _n3_terms(case, out):
    """the model writes member k as `<k>` in the text of n3(): put the member's own n3() there"""
    T = _terms(case["head"])
    sub = lambda m: T[int(m.group(1))].n3() if int(m.group(1)) in T else m.group(0)
    res = []
    for line in out:
        if line.startswith("IT=") and " N3=" in line:
            a, b = line.split(" N3=", 1)
            line = a + " N3=" + re.sub(r"<(\d+)>", sub, b)
        res.append(line)
    return res


def select_model_obs(case, out):
    if case["kind"] == "broken":
        return _n3_terms(case, out[1 + len(_term_lines(case)) + len(case["triples"]):])
    n0 = 1 + len(_term_lines(case)) + len(case["extra"]) + (0 if case["init"]["mode"] == "ctor" else 2 * len(case["init"]["items"]))
    if case.get("second"):
        n0 += 1 + len({tuple(t) for t in _second_triples(case["second"])})
    return _n3_terms(case, out[n0:])


# ------------------------------------------------------------------ shrinking / findings


def shrink(case):
    if case["kind"] == "broken":
        rs, ts = case["reads"], case["triples"]
        for i in range(len(rs)):
            yield {**case, "reads": rs[:i] + rs[i + 1:]}
        for i in range(len(ts)):
            yield {**case, "triples": ts[:i] + ts[i + 1:]}
        return
    ops, items = case["ops"], case["init"]["items"]
    sec = case.get("second")
    if sec:
        # (the start list is not shortened while a second collection hangs on one of its cells)
        for i in range(len(ops) - 1, -1, -1):
            yield {**case, "ops": ops[:i] + ops[i + 1:]}
        if sec["junk"]:
            yield {**case, "second": {**sec, "junk": sec["junk"][:-1]}}
        if sec.get("first"):
            yield {**case, "second": {**sec, "first": False}}
        if len(sec["items"]) > 1:
            yield {**case, "second": {**sec, "items": sec["items"][1:]}}
        if sec["share"] is None:
            for i in range(len(items)):
                yield {**case, "init": {**case["init"], "items": items[:i] + items[i + 1:]}}
        if case["extra"]:
            yield {**case, "extra": case["extra"][:-1]}
        if case.get("g", "mem") != "mem":
            yield {**case, "g": "mem"}
        return
    if len(ops) > 1:            # fold the first operation into the start list
        l, ok = _apply(list(items), ops[0])
        if ok and len(l) < 60:
            yield {**case, "init": {**case["init"], "items": l}, "ops": ops[1:]}
    for i in range(len(ops) - 1, -1, -1):
        yield {**case, "ops": ops[:i] + ops[i + 1:]}
    if len(ops) == 1 and ops[0][0] in ("set", "del") and ops[0][1] >= 1 and items:
        # shorter start list, same relative position of the index
        yield {**case, "init": {**case["init"], "items": items[1:]}, "ops": [[ops[0][0], ops[0][1] - 1] + ops[0][2:]]}
    for i in range(len(items)):
        yield {**case, "init": {**case["init"], "items": items[:i] + items[i + 1:]}}
    if case["extra"]:
        yield {**case, "extra": case["extra"][:-1]}
    for i in range(len(case["probe"])):
        yield {**case, "probe": case["probe"][:i] + case["probe"][i + 1:]}
    for i, op in enumerate(ops):
        if op[0] in ("iadd", "ctor") and op[1]:
            yield {**case, "ops": ops[:i] + [[op[0], op[1][:-1]] + op[2:]] + ops[i + 1:]}
    for i, op in enumerate(ops):                     # plainest operand shape, plainest operation
        if op[0] in ("iadd", "ctor") and _shape(op) != "list":
            yield {**case, "ops": ops[:i] + [[op[0], op[1]]] + ops[i + 1:]}
        if op[0] == "ctor":
            yield {**case, "ops": ops[:i] + [["iadd"] + op[1:]] + ops[i + 1:]}
    if case["init"].get("shape", "list") != "list":
        yield {**case, "init": {**case["init"], "shape": "list"}}
    lo = min(MEMBERS)
    for i, op in enumerate(ops):                     # canonical members
        if op[0] in ("append", "set") and op[-1] != lo:
            yield {**case, "ops": ops[:i] + [op[:-1] + [lo]] + ops[i + 1:]}
    for i, x in enumerate(items):
        if x != lo:
            yield {**case, "init": {**case["init"], "items": items[:i] + [lo] + items[i + 1:]}}
    if case["head"] == "u":
        yield {**case, "head": "b"}
    if case.get("g", "mem") != "mem":
        yield {**case, "g": "mem"}
    if case["init"]["mode"] == "triples":
        yield {**case, "init": {**case["init"], "mode": "ctor"}}


def _apply(l, op):
    """the list oracle: (list after op, op succeeded)"""
    n = len(l)
    if op[0] == "append":
        return l + [op[1]], True
    if op[0] in ("iadd", "ctor"):
        return l + _eff(op[1], _shape(op)), True
    if op[0] == "iaddself":
        return l + l, True
    if op[0] == "iaddview":
        return l + l[min(op[1], n):], True
    if op[0] == "iaddother":
        return l + list(op[1]), True
    if op[0] == "clear":
        return [], True
    if not -n <= op[1] < n:
        return l, False
    if op[0] == "set":
        l[op[1]] = op[2]
    else:
        del l[op[1]]
    return l, True


def _m_set_at_len(case, result):
    """C19-K1: the LAST operation of the history is `c[len(c)] = x` (index = the list's length at that moment),
    the collection accepts it where the list raises IndexError, and nothing is reported before that operation
    (what is reported after it are the consequences of the rdf:first written onto rdf:nil / the empty head)."""
    if case.get("kind") != "hist" or not case["ops"] or case.get("second"):
        return False
    l = list(case["init"]["items"])
    for op in case["ops"][:-1]:
        l, _ = _apply(l, op)
    j, op = len(case["ops"]) - 1, case["ops"][-1]
    v = result["viol"]
    return (op[0] == "set" and op[1] == len(l) and bool(v)
            and v[0].startswith("setitem:") and "the collection gives ok, the list IndexError" in v[0]
            and all(f"op {j} " in x for x in v))


MATCHERS = {"set_at_len": _m_set_at_len}
