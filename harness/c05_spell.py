"""C05 — independent randomised writers: one RDF graph / dataset, many legal spellings.

Nothing here imports rdflib.  A graph is a list of quads [s, p, o, g]; a term is
["I", iri] | ["B", label] | ["L", lex, datatype-or-None, lang-or-None]; g is None (default
graph) or an "I"/"B" term.

Every random decision comes from a `Ch` choice stream (seeded; features can be switched off
by name so that a failing document can be shrunk to the spelling feature that matters).

The string / PN_LOCAL / relative-IRI codecs are mirrors of the Lean definitions in
lean/RV/C05/Model.lean (stringToken, pnLocalEsc, relativize, resolve); each call is logged and
re-computed by the compiled Lean model on every run (harness/c05.py), which also checks that the
grammar's reader gives the value back (theorems string_token_roundtrip, pnlocal_roundtrip,
resolve_relativize).

The document-level writers are TRUSTED to emit text that is legal per the W3C grammars and means
the given graph (DESIGN §4.4); production numbers are quoted where a choice is not obvious.
"""
from __future__ import annotations

import json
import random
import re
from collections import Counter, defaultdict

XSD = "http://www.w3.org/2001/XMLSchema#"
RDF = "http://www.w3.org/1999/02/22-rdf-syntax-ns#"
RDF_TYPE, RDF_FIRST, RDF_REST, RDF_NIL = RDF + "type", RDF + "first", RDF + "rest", RDF + "nil"

# ------------------------------------------------------------------ choice stream


class Ch:
    def __init__(self, seed, off=()):
        self.r = random.Random(seed)
        self.off = set(off)
        self.used = Counter()
        self.log = []  # codec calls: (kind, args…, output)

    def pick(self, n):
        return self.r.randrange(n)

    def choice(self, xs):
        return xs[self.r.randrange(len(xs))]

    def flag(self, name, p=0.5):
        """a spelling feature; always consumes one random number so that switching a feature off
        does not re-shuffle the remaining choices more than necessary"""
        v = self.r.random() < p
        if name in self.off:
            return False
        if v:
            self.used[name] += 1
        return v

    def shuffle(self, xs):
        self.r.shuffle(xs)


# ------------------------------------------------------------------ character classes (mirror of Model.lean)


def in_r(lo, hi, c):
    return lo <= ord(c) <= hi


def is_digit(c):
    return in_r(48, 57, c)


def is_alpha(c):
    return in_r(65, 90, c) or in_r(97, 122, c)


def is_alnum(c):
    return is_alpha(c) or is_digit(c)


def is_hex(c):
    return is_digit(c) or in_r(65, 70, c) or in_r(97, 102, c)


_PNB = [(0xC0, 0xD6), (0xD8, 0xF6), (0xF8, 0x2FF), (0x370, 0x37D), (0x37F, 0x1FFF), (0x200C, 0x200D),
        (0x2070, 0x218F), (0x2C00, 0x2FEF), (0x3001, 0xD7FF), (0xF900, 0xFDCF), (0xFDF0, 0xFFFD),
        (0x10000, 0xEFFFF)]


def pn_chars_base(c):
    return is_alpha(c) or any(lo <= ord(c) <= hi for lo, hi in _PNB)


def pn_chars_u(c):  # N-Triples flavour: includes ':'
    return pn_chars_base(c) or c in "_:"


def pn_chars(c):
    return pn_chars_u(c) or c == "-" or is_digit(c) or ord(c) == 0xB7 or in_r(0x300, 0x36F, c) or in_r(0x203F, 0x2040, c)


def iri_char(c):
    return not (ord(c) <= 0x20 or c in '<>"{}|^`\\')


# ------------------------------------------------------------------ string tokens (mirror of stringToken)

ECHAR_OF = {"\t": "t", "\b": "b", "\n": "n", "\r": "r", "\f": "f", '"': '"', "'": "'", "\\": "\\"}


def hex_digit(upper, n):
    return chr(48 + n) if n < 10 else chr((55 if upper else 87) + n)


def hex4(upper, n):
    return "".join(hex_digit(upper, d) for d in (n // 4096 % 16, n // 256 % 16, n // 16 % 16, n % 16))


def hex8(upper, n):
    return hex4(upper, n // 65536) + hex4(upper, n % 65536)


def uchar(small, upper, c):
    n = ord(c)
    if small and n < 0x10000:
        return "\\u" + hex4(upper, n)
    return "\\U" + hex8(upper, n)


def raw_ok(q, long, run, more, c):
    if c == "\\":
        return False
    if c == q:
        return long and run < 2 and more
    if c in "\n\r":
        return long
    return True


def spell_char(q, long, run, more, k, c):
    upper = (k // 4) % 2 == 1
    m = k % 4
    if m == 0 and raw_ok(q, long, run, more, c):
        return c, (run + 1 if c == q else 0)
    if m <= 1:
        e = ECHAR_OF.get(c)
        if e is not None:
            return "\\" + e, 0
        if raw_ok(q, long, run, more, c):
            return c, (run + 1 if c == q else 0)
        return uchar(True, upper, c), 0
    return uchar(m == 2, upper, c), 0


def escape_with(q, long, ks, s):
    out, run = [], 0
    for i, c in enumerate(s):
        k = ks[i] if i < len(ks) else 0
        t, run = spell_char(q, long, run, i + 1 < len(s), k, c)
        out.append(t)
    return "".join(out)


def string_token(q, long, ks, s):
    d = q * 3 if long else q
    return d + escape_with(q, long, ks, s) + d


# ------------------------------------------------------------------ PN_LOCAL (mirror of pnLocalEsc)

PN_ESCAPABLE = set("_~.-!$&'()*+,;=/?#@%")


def pn_raw_ok(first, last, c):
    if first:
        return pn_chars_u(c) or is_digit(c)
    if last:
        return pn_chars(c)
    return pn_chars(c) or c == "."


def pn_raw_here(first, rest, c):
    if c == "%":
        return len(rest) >= 2 and is_hex(rest[0]) and is_hex(rest[1])
    return pn_raw_ok(first, len(rest) == 0, c)


def pn_expressible(s):
    return all(c in PN_ESCAPABLE or pn_raw_here(i == 0, s[i + 1:], c) for i, c in enumerate(s))


def pn_local_esc(ks, s):
    out = []
    for i, c in enumerate(s):
        k = ks[i] if i < len(ks) else 0
        raw = pn_raw_here(i == 0, s[i + 1:], c)
        out.append("\\" + c if c in PN_ESCAPABLE and (k % 2 == 1 or not raw) else c)
    return "".join(out)


# ------------------------------------------------------------------ RFC 3986 (mirror of parseRef / resolve / relativize)

_REF = re.compile(r"^(([^:/?#]+):)?(//([^/?#]*))?([^?#]*)(\?([^#]*))?(#(.*))?$", re.S)


def parse_ref(s):
    m = _REF.match(s)
    return {"scheme": m.group(2), "auth": m.group(4), "path": m.group(5).split("/"), "query": m.group(7),
            "frag": m.group(9)}


def show_ref(r):
    return ((r["scheme"] + ":") if r["scheme"] is not None else "") + \
        (("//" + r["auth"]) if r["auth"] is not None else "") + "/".join(r["path"]) + \
        (("?" + r["query"]) if r["query"] is not None else "") + (("#" + r["frag"]) if r["frag"] is not None else "")


def _rds(segs):
    stk = []
    for i, s in enumerate(segs):
        last = i == len(segs) - 1
        if s == ".":
            if last:
                stk.append("")
        elif s == "..":
            if stk:
                stk.pop()
            if last:
                stk.append("")
        else:
            stk.append(s)
    return stk


def remove_dots(p):
    if not p:
        return []
    if p[0] == "" and len(p) > 1:
        return [""] + _rds(p[1:])
    return _rds(p)


def resolve(base, r):
    if r["scheme"] is not None:
        return {**r, "path": remove_dots(r["path"])}
    if r["auth"] is not None:
        return {**r, "scheme": base["scheme"], "path": remove_dots(r["path"])}
    out = {"scheme": base["scheme"], "auth": base["auth"], "frag": r["frag"]}
    if r["path"] == [""]:
        out["path"] = base["path"]
        out["query"] = r["query"] if r["query"] is not None else base["query"]
    elif r["path"][0] == "":
        out["path"] = remove_dots(r["path"])
        out["query"] = r["query"]
    else:
        merged = ([""] + r["path"]) if (base["auth"] is not None and base["path"] == [""]) else base["path"][:-1] + r["path"]
        out["path"] = remove_dots(merged)
        out["query"] = r["query"]
    return out


def resolve_str(base, ref):
    return show_ref(resolve(parse_ref(base), parse_ref(ref)))


def _abs_path(p):
    return len(p) >= 2 and p[0] == ""


def relativize(base, t, k):
    same_scheme = t["scheme"] is not None and t["scheme"] == base["scheme"]
    same_auth = same_scheme and t["auth"] == base["auth"]
    if k == 0 or not same_scheme or t["auth"] is None:
        return dict(t)
    if k == 1 or not same_auth or not _abs_path(t["path"]) or not _abs_path(base["path"]):
        return {**t, "scheme": None}
    if k == 2:
        return {**t, "scheme": None, "auth": None}
    if k >= 4 and t["path"] == base["path"] and (t["query"] is not None or base["query"] is None):
        return {"scheme": None, "auth": None, "path": [""], "query": t["query"], "frag": t["frag"]}
    bdir, tdir = base["path"][:-1], t["path"][:-1]
    n = 0
    while n < len(bdir) and n < len(tdir) and bdir[n] == tdir[n]:
        n += 1
    rel = [".."] * (len(bdir) - n) + t["path"][n:]
    if not rel or rel[0] == "" or ":" in rel[0]:
        rel = ["."] + rel
    return {"scheme": None, "auth": None, "path": rel, "query": t["query"], "frag": t["frag"]}


def has_dot_segments(iri):
    return any(s in (".", "..") for s in parse_ref(iri)["path"])


# ------------------------------------------------------------------ shared helpers

def _dir_tail(iri, depth):
    m = re.match(r"^(https?://[^/?#]+/(?:[^?#]*/)?)((?:[^/?#]+/){%d}[^/?#]+)$" % (depth - 1), iri)
    return (m.group(1), m.group(2)) if m else None


_PLAIN_REL = re.compile(r"^[^:/?#.<>\\][^:?#<>\\]*$")    # a path-relative reference without scheme, query, fragment

NUM_INT = re.compile(r"^[+-]?[0-9]+$")                      # Turtle [19] INTEGER
NUM_DEC = re.compile(r"^[+-]?[0-9]*\.[0-9]+$")              # [20] DECIMAL
NUM_DBL = re.compile(r"^[+-]?(?:[0-9]+\.[0-9]*[eE][+-]?[0-9]+|\.[0-9]+[eE][+-]?[0-9]+|[0-9]+[eE][+-]?[0-9]+)$")  # [21]


def shorthand_ok(lex, dt):
    if dt == XSD + "integer":
        return bool(NUM_INT.match(lex))
    if dt == XSD + "decimal":
        return bool(NUM_DEC.match(lex))
    if dt == XSD + "double":
        return bool(NUM_DBL.match(lex))
    if dt == XSD + "boolean":
        return lex in ("true", "false")
    return False


COMMENTS = ["# c", "#", "# a \"quoted\" <iri> . ;", "#\ttab é \U0001F600", "# @prefix x: <y> ."]
NT_LABELS = ["b0", "b1", "0", "a.b", "a-b", "é1", "_u", "a:b", "x·y", "B2", "n3", "zz9"]
TTL_LABELS = [l for l in NT_LABELS if ":" not in l]


def _label_map(quads, ch, pool, feature):
    labs = []
    for q in quads:
        for t in q:
            if t is not None and t[0] == "B" and t[1] not in labs:
                labs.append(t[1])
    out, used = {}, set()
    fancy = ch.flag(feature, 0.5)
    for i, l in enumerate(labs):
        cand = ch.choice(pool) if fancy else "b%d" % i
        while cand in used:
            cand = cand + "x"
        used.add(cand)
        out[l] = cand
    return out


# ------------------------------------------------------------------ N-Triples / N-Quads


def write_nlines(quads, ch, nquads):
    """Legal N-Triples / N-Quads: UCHAR in IRIs, ECHAR/UCHAR/raw in strings, optional white space,
    comments, empty lines, three kinds of EOL ([7] EOL ::= [#xD#xA]+), optional final EOL."""
    labels = _label_map(quads, ch, NT_LABELS, "fancy_labels")
    eols = ["\n"]
    if ch.flag("crlf", 0.2):
        eols.append("\r\n")
    if ch.flag("cr_eol", 0.15):
        eols.append("\r")

    def ws(required=False):
        if not required and ch.flag("min_ws", 0.3):
            return ""
        return ch.choice([" ", " ", " ", "\t", "  ", " \t"]) if ch.flag("odd_ws", 0.4) else " "

    def iri(i):
        ks = None
        if ch.flag("iri_uchar", 0.25):
            ks = [ch.pick(8) if ch.pick(4) == 0 else 0 for _ in i]
        out = []
        for n, c in enumerate(i):
            k = ks[n] if ks else 0
            if k % 4 >= 2 or not iri_char(c):
                out.append(uchar(k % 4 == 2, (k // 4) % 2 == 1, c))
            else:
                out.append(c)
        return "<" + "".join(out) + ">"

    def term(t):
        if t[0] == "I":
            return iri(t[1])
        if t[0] == "B":
            return "_:" + labels[t[1]]
        lex, dt, lang = t[1], t[2], t[3]
        ks = [0] * len(lex)
        if ch.flag("str_escapes", 0.5):
            ks = [ch.pick(8) if ch.pick(3) == 0 else 0 for _ in lex]
        tok = string_token('"', False, ks, lex)
        ch.log.append(("str", '"', False, ks, lex, tok))
        if lang is not None:
            return tok + "@" + lang
        if dt is not None:
            return tok + "^^" + iri(dt)
        return tok

    lines = []
    order = list(quads)
    ch.shuffle(order)
    for q in order:
        s, p, o, g = q
        if g is not None and not nquads:
            raise ValueError("named graph in N-Triples")
        if ch.flag("comment_lines", 0.15):
            lines.append(ws() + ch.choice(COMMENTS))
        if ch.flag("empty_lines", 0.15):
            lines.append(ws() if ch.pick(2) else "")
        # a label directly followed by another label would read as one label ('_' and ':' are PN_CHARS here)
        line = ws() + term(s) + ws() + term(p) + ws() + term(o)
        if g is not None:
            line += ws(required=(o[0] == "B" and g[0] == "B")) + term(g)
        line += ws() + "." + ws()
        if ch.flag("trailing_comment", 0.2):
            line += ch.choice(COMMENTS)
        lines.append(line)
    doc = "".join(l + ch.choice(eols) for l in lines)
    if lines and ch.flag("no_final_eol", 0.2):
        doc = doc.rstrip("\r\n")
    return doc


# ------------------------------------------------------------------ Turtle / TriG

PREFIX_NAMES = ["ex", "", "ns1", "a", "x.y", "é", "p-1", "rdf", "xsd", "v_2", "A0", "a.b"]
# prefix names that spell (or start with) a keyword of the Turtle / TriG / SPARQL / N3 family: every one is a legal
# PN_PREFIX ([167s] PN_CHARS_BASE ((PN_CHARS | '.')* PN_CHARS)?), and `base:x`, `a:x`, `true:x` … are ordinary prefixed
# names in every position — in particular as the FIRST token of a statement, where a directive or keyword could stand
KW_PREFIX_NAMES = ["base", "prefix", "graph", "BASE", "PREFIX", "GRAPH", "Base", "Prefix", "Graph", "bAsE", "a", "true",
                   "false", "PREFIXx", "graphs", "based", "prefixes", "Graph1", "trueish", "falsehood", "aa", "A", "is",
                   "has", "of", "this", "bind", "keywords", "forAll", "forSome", "base.x", "prefix-1", "graph_2"]
BASES = ["http://example.org/base/doc", "http://example.org/base/sub/file.ttl", "http://example.org/other/",
         "http://example.org/base/doc?x=1", "http://other.example/a/b/c", "http://example.org/base/sub/deep/"]


class TurtleWriter:
    def __init__(self, quads, ch, trig, base):
        self.quads = [tuple(map(_freeze, q)) for q in quads]
        self.ch = ch
        self.trig = trig
        self.base = base          # current base IRI (string) — starts as the document's base
        self.prefixes = {}        # name -> namespace, as declared so far
        self.toks = []            # (text, kind)
        self.labels = _label_map(quads, ch, TTL_LABELS, "fancy_labels")
        self.eol = "\r\n" if ch.flag("crlf", 0.15) else ("\r" if ch.flag("cr_eol", 0.08) else "\n")
        self.used_rel = {}        # plain path-relative spelling (unescaped) -> the text written between < and >
        self.forced = {}          # IRI -> (text to write, unescaped reference): the same spelling under a new base
        self.rebase = ch.flag("rebase", 0.45)

    # ---------------- token stream with white space policy
    def emit(self, text, kind):
        self.toks.append((text, kind))

    def _sep(self, prev, nxt):
        (pt, pk), (nt, nk) = prev, nxt
        ch = self.ch
        if pk == "eol":
            return ""
        optional = False
        # Token kinds: iri <…> | pname | bnode _:x | strq (ends with a quote) | lang | int | num | bool | a | kw |
        # punct | item (a one-token collection member).  White space may be dropped only next to a token whose
        # delimiter cannot be absorbed by its neighbour: '<…>' and quoted strings are self-delimiting on both
        # sides, punctuation characters are not name characters.
        closed_l = pk in ("iri", "strq", "punct")            # prev ends in '>', a quote, or punctuation
        open_r = nk in ("iri", "punct") or (nk in ("strq", "lang") and nt[0] in "\"'") or \
            (nk in ("iri", "pname") and nt[0] in "\"'")       # typed literal: starts with a quote
        if nt == "." and nk == "punct":
            optional = pk in ("iri", "strq") or pt in ("]", ")", "[]", "[ ]", "[\t]")
            if not optional and pk in ("pname", "bnode", "int", "lang", "bool") and ch.flag("tight_dot", 0.2):
                return ""  # a newline always follows this '.'
        elif pk == "dot" or pk == "kw" and not (nk == "iri"):
            optional = False
        else:
            optional = closed_l or open_r
            if pk in ("strq",) and nt[0] in "\"'":
                optional = False      # "a""b" would start a long string
            if pk == "item" or nk == "item":
                optional = False
            if pk == "kw" and nk == "iri":
                optional = True       # @base<…>  BASE<…>
        if optional and ch.flag("tight", 0.3):
            return ""
        r = ch.pick(12)
        if r < 6 or "odd_ws" in ch.off:
            return " "
        ch.used["odd_ws"] += 1
        if r == 6:
            return "\t"
        if r == 7:
            return "  "
        if r == 8:
            return self.eol + "  "
        if r == 9:
            return self.eol
        if r == 10 and "comments" not in ch.off:
            ch.used["comments"] += 1
            return " " + ch.choice(COMMENTS) + self.eol
        return " "

    def text(self):
        out = []
        prev = None
        for tok in self.toks:
            if tok[1] == "eol":
                out.append(self.eol)
                prev = tok
                continue
            if prev is not None:
                out.append(self._sep(prev, tok))
            out.append(tok[0])
            prev = (tok[0], "dot") if tok[0] == "." and tok[1] == "punct" else tok
        return "".join(out)

    # ---------------- terms
    def iri_ref(self, i):
        """<…> : absolute or relative to the current base, optionally with UCHAR escapes"""
        ch = self.ch
        if i in self.forced:
            # the very spelling used earlier in the document, which meant another IRI under the previous base
            emitted, ref = self.forced[i]
            ch.log.append(("res", self.base, ref, i))
            ch.used["rebase_reuse"] += 1
            return "<" + emitted + ">"
        text = i
        if ch.flag("rel_iri", 0.5) and not has_dot_segments(i) and not has_dot_segments(self.base):
            k = ch.pick(5)
            if self.rebase and ch.pick(2):
                k = 3          # documents that change the base prefer path-relative references
            rel = show_ref(relativize(parse_ref(self.base), parse_ref(i), k))
            if resolve_str(self.base, rel) == i:   # the writer's own sanity check (also done in Lean)
                ch.log.append(("rel", k, self.base, i, rel))
                text = rel
                ch.used["rel_k%d" % k] += 1
                if ch.flag("dot_segments", 0.25):
                    text2 = self._add_dots(rel)
                    if text2 != rel and resolve_str(self.base, text2) == i:
                        ch.log.append(("res", self.base, text2, i))
                        text = text2
        out = []
        esc = ch.flag("iri_uchar", 0.15)
        for c in text:
            if not iri_char(c) or (esc and ch.pick(5) == 0):
                k = ch.pick(8)
                out.append(uchar(k % 2 == 0, k >= 4, c))
            else:
                out.append(c)
        if text != i and _PLAIN_REL.match(text) and not has_dot_segments(text):
            self.used_rel[text] = "".join(out)
        return "<" + "".join(out) + ">"

    def maybe_rebase(self, upcoming):
        """Between top-level statements / graph blocks: change the base (@base or BASE).  When possible the new base is
        chosen so that a relative reference already used in the document now denotes `t`, one of the IRIs written
        next — the same characters between < and > mean different IRIs before and after the directive."""
        ch = self.ch
        if not self.rebase:
            if ch.flag("base_directive", 0.04):
                self.directive_base(ch.choice(BASES))
            return
        if ch.pick(2) == 0:
            return
        cands = []
        for t in upcoming:
            for r in sorted(self.used_rel):
                pre = t[: len(t) - len(r)]
                if not t.endswith(r) or not pre.endswith("/") or has_dot_segments(t):
                    continue
                pr = parse_ref(pre)
                if pr["scheme"] is None or pr["auth"] is None or pr["query"] is not None or pr["frag"] is not None:
                    continue
                for last in ("doc", "", "b.ttl"):
                    b2 = pre + last
                    if b2 != self.base and resolve_str(b2, r) == t and resolve_str(self.base, r) != t \
                            and not has_dot_segments(b2):
                        cands.append((t, r, b2))
        if cands:
            t, r, b2 = ch.choice(cands)
            self.directive_base(b2)
            self.forced = {t: (self.used_rel[r], r)}
        elif ch.pick(3) == 0:
            self.directive_base(ch.choice(BASES))

    def _plan_twins(self, units):
        """Two IRIs with the same last path segment(s) in different directories, written in different units: the base is
        set to the first one's directory before the first unit and to the second one's directory before the second,
        and both are written with the very same relative reference."""
        ch = self.ch
        found = []
        for a in range(len(units)):
            for b in range(a + 1, len(units)):
                for u in set(units[a]):
                    for t in set(units[b]):
                        if u == t or has_dot_segments(u) or has_dot_segments(t):
                            continue
                        for depth in (1, 2):
                            mu, mt = _dir_tail(u, depth), _dir_tail(t, depth)
                            if mu and mt and mu[1] == mt[1] and mu[0] != mt[0] and _PLAIN_REL.match(mu[1]):
                                found.append((a, b, u, t, mu[0], mt[0], mu[1]))
        if not found or ch.pick(5) == 0:
            return {}
        a, b, u, t, du, dt, tail = ch.choice(found)
        text = "".join(uchar(True, ch.pick(2) == 0, c) if (not iri_char(c) or ch.pick(12) == 0) else c for c in tail)
        return {a: (u, du, tail, text), b: (t, dt, tail, text)}

    def _unit_start(self, ui, iris):
        ch = self.ch
        if ui in self.plan:
            iri, d, tail, text = self.plan[ui]
            b2 = d + ch.choice(["doc", "", "b.ttl", "x/.." if False else "index"])
            if resolve_str(b2, tail) == iri:
                self.directive_base(b2)
                self.forced = {iri: (text, tail)}
                self.used_rel[tail] = text
                ch.used["rebase_twin"] += 1
                return
        self.maybe_rebase(iris)

    def _group_iris(self, s, pos):
        """IRIs that the next statement writes directly (not inside nested nodes)"""
        out = [s[1]] if s[0] == "I" else []
        for p, o in pos:
            out.append(p[1])
            if o[0] == "I":
                out.append(o[1])
        return out

    def _add_dots(self, rel):
        """redundant dot segments (RFC 3986 5.2.4 removes them): ./x, x/./y, zz/../x, and '..' above the root"""
        ch = self.ch
        r = parse_ref(rel)
        if r["scheme"] is not None or r["auth"] is not None or r["path"] == [""]:
            return rel
        p = list(r["path"])
        start = 1 if p[0] == "" else 0          # absolute-path reference: keep the leading ""
        k = ch.pick(4)
        pos = start + ch.pick(len(p) - start)
        if k == 0:
            p.insert(pos, ".")
        elif k == 1:
            p[pos:pos] = ["zz", ".."]
        elif k == 2 and start == 0 and p[0] == "..":
            depth = len(parse_ref(self.base)["path"]) - 2
            if p.count("..") >= depth:          # already at the root: climbing further changes nothing
                p.insert(0, "..")
        else:
            p[pos:pos] = [".", "."]
        if p and start == 0 and ":" in p[0]:
            p.insert(0, ".")
        return show_ref({**r, "path": p})

    def iri_tok(self, i, verb=False):
        ch = self.ch
        if i in self.forced:
            return (self.iri_ref(i), "iri")
        if verb and i == RDF_TYPE and ch.flag("a_keyword", 0.7):
            return ("a", "a")
        if ch.flag("pname", 0.6) or (getattr(self, "kw_names", None) and "pname" not in ch.off and ch.pick(3)):
            cands = [(n, ns) for n, ns in self.prefixes.items() if i.startswith(ns) and pn_expressible(i[len(ns):])]
            if cands:
                n, ns = ch.choice(cands)
                kw = [c for c in cands if c[0] in getattr(self, "kw_names", ())]
                if kw and ch.pick(5):
                    n, ns = ch.choice(kw)
                    ch.used["kw_prefix_used"] += 1
                local = i[len(ns):]
                ks = [ch.pick(2) if ch.flag("pnlocal_esc", 0.3) else 0 for _ in local]
                e = pn_local_esc(ks, local)
                ch.log.append(("pnl", ks, local, e))
                if e != local:
                    ch.used["pnlocal_escaped"] += 1
                return (n + ":" + e, "pname")
        return (self.iri_ref(i), "iri")

    def iri(self, i, verb=False):
        self.emit(*self.iri_tok(i, verb))

    def literal(self, t):
        ch = self.ch
        _, lex, dt, lang = t
        if dt is not None and shorthand_ok(lex, dt) and ch.flag("shorthand", 0.7):
            kind = "bool" if dt == XSD + "boolean" else ("int" if dt == XSD + "integer" else "num")
            self.emit(lex, kind)
            return
        q = '"' if ch.flag("dquote", 0.5) else "'"
        long = ch.flag("long_string", 0.4)
        ks = [0] * len(lex)
        if ch.flag("str_escapes", 0.5):
            ks = [ch.pick(8) if ch.pick(3) == 0 else 0 for _ in lex]
        tok = string_token(q, long, ks, lex)
        ch.log.append(("str", q, long, ks, lex, tok))
        ch.used["form_%s%s" % ("L" if long else "S", "d" if q == '"' else "s")] += 1
        if lang is not None:
            self.emit(tok + "@" + lang, "lang")
        elif dt is not None:
            dtext, dkind = self.iri_tok(dt)      # no white space around '^^'
            self.emit(tok + "^^" + dtext, dkind)
        else:
            self.emit(tok, "strq")

    # ---------------- graph analysis for [] and ()
    def analyse(self):
        """Decide which blank nodes are written as [ … ] and which rdf:first/rest chains as ( … ).

        A blank node may be written anonymously only if the document needs no label for it:
        it occurs as object at most once, lives in one graph, is not a graph name, and the chain of
        enclosing anonymous nodes is not cyclic."""
        FIRST, REST, NIL = ("I", RDF_FIRST), ("I", RDF_REST), ("I", RDF_NIL)
        ch = self.ch
        occ_obj, graphs_of, gnames = Counter(), defaultdict(set), set()
        by_subj = defaultdict(list)
        for s, p, o, g in self.quads:
            by_subj[(s, g)].append((p, o))
            for t in (s, o):
                if t[0] == "B":
                    graphs_of[t].add(g)
            if o[0] == "B":
                occ_obj[o] += 1
            if g is not None and g[0] == "B":
                gnames.add(g)
        self.occ_obj, self.gnames, self.by_subj, self.graphs_of = occ_obj, gnames, by_subj, graphs_of
        parent = {}
        for s, p, o, g in self.quads:
            if o[0] == "B" and occ_obj[o] == 1:
                parent[o] = (s, g)

        def local(b):   # one graph, not a graph name
            return b not in gnames and len(graphs_of[b]) == 1

        # ---- candidate collections
        first_of, rest_of = {}, {}
        for (s, g), pos in by_subj.items():
            if s[0] == "B" and local(s):
                f = [o for p, o in pos if p == FIRST]
                r = [o for p, o in pos if p == REST]
                if len(f) == 1 and len(r) == 1:
                    first_of[s], rest_of[s] = f[0], r[0]
        cand = {}    # head -> (items, cells)
        taken = set()
        for h in sorted(first_of):
            g = next(iter(graphs_of[h]))
            extra_h = [po for po in by_subj[(h, g)] if po[0] not in (FIRST, REST)]
            if not ((occ_obj[h] == 1 and not extra_h) or (occ_obj[h] == 0 and extra_h)):
                continue
            items, cells, c, ok = [], [], h, True
            while ok:
                if c in cells or c in taken or c not in first_of:
                    ok = False
                    break
                if c != h:
                    if occ_obj[c] != 1 or len(by_subj[(c, g)]) != 2 or next(iter(graphs_of[c])) != g:
                        ok = False
                        break
                cells.append(c)
                items.append(first_of[c])
                nxt = rest_of[c]
                if nxt == NIL:
                    break
                if nxt[0] != "B":
                    ok = False
                    break
                c = nxt
            if not ok or any(it in cells for it in items):
                continue
            if occ_obj[h] == 1 and (parent[h][1] != g or parent[h][0] in cells):
                continue
            if ch.flag("collection", 0.8):
                cand[h] = (items, cells)
                taken.update(cells)
        # ---- nesting
        inner = {c for h, (_, cells) in cand.items() for c in cells[1:]}
        nest = set()
        for b in sorted(parent):
            ps, pg = parent[b]
            if b in inner or not local(b) or next(iter(graphs_of[b])) != pg:
                continue
            if b in cand or ch.flag("nest_bnode", 0.7):
                nest.add(b)

        def up(c):      # the node inside whose text c is written
            ps = parent[c][0]
            while ps in inner:
                ps = parent[ps][0]
            return ps

        for b in sorted(nest):
            seen, c = [], b
            while c in nest and c not in seen:
                seen.append(c)
                c = up(c)
            if c in seen:          # a cycle: label every node on it, write its lists explicitly
                for x in seen:
                    nest.discard(x)
        for h in list(cand):
            if occ_obj[h] == 1 and h not in nest:
                del cand[h]
        self.nest = nest
        self.lists = {h: items for h, (items, _) in cand.items()}
        self.cells = {c for h, (_, cells) in cand.items() for c in cells}

    # ---------------- node rendering
    def obj(self, o, g):
        if o[0] == "I" and o[1] == RDF_NIL and self.ch.flag("empty_collection", 0.6):
            # [15] collection ::= '(' object* ')' with no object: the empty list is rdf:nil
            self.emit("(", "punct")
            self.emit(")", "punct")
        elif o[0] == "I":
            self.iri(o[1])
        elif o[0] == "L":
            self.literal(o)
        elif o in self.lists and self.occ_obj[o] == 1 and o in self.nest:
            self.collection(o, g)
        elif o in self.nest:
            pos = self._po(o, g)
            if not pos:
                self.emit(self.ch.choice(["[]", "[ ]"]), "punct")
            else:
                self.emit("[", "punct")
                self.pred_obj_list(pos, g)
                self.emit("]", "punct")
        else:
            self.emit("_:" + self.labels[o[1]], "bnode")

    def collection(self, h, g):
        """[15] collection ::= '(' object* ')' — items are kept apart by white space"""
        self.emit("(", "punct")
        for it in self.lists[h]:
            n0 = len(self.toks)
            self.obj(it, g)
            if self.toks[n0][1] != "punct":
                self.toks[n0] = (self.toks[n0][0], "item")
        self.emit(")", "punct")

    def _po(self, s, g):
        pos = list(self.by_subj[(s, g)])
        if s in self.lists:
            pos = [po for po in pos if po[0] not in (("I", RDF_FIRST), ("I", RDF_REST))]
        return pos

    def pred_obj_list(self, pos, g):
        """[7] predicateObjectList ::= verb objectList (';' (verb objectList)?)*"""
        ch = self.ch
        pos = list(pos)
        ch.shuffle(pos)
        groups = []
        if ch.flag("object_lists", 0.7):
            d = defaultdict(list)
            for p, o in pos:
                d[p].append(o)
            groups = [(p, os) for p, os in d.items()]
        else:
            groups = [(p, [o]) for p, o in pos]
        for i, (p, os) in enumerate(groups):
            if i:
                self.emit(";", "punct")
                if ch.flag("semi_repeat", 0.1):
                    self.emit(";", "punct")
            self.iri(p[1], verb=True)
            for j, o in enumerate(os):
                if j:
                    self.emit(",", "punct")
                self.obj(o, g)
        if groups and ch.flag("semi_trailing", 0.1):
            self.emit(";", "punct")

    def subject_group(self, s, g, pos):
        ch = self.ch
        if s[0] == "I" and s[1] == RDF_NIL and pos and ch.flag("empty_collection", 0.6):
            self.emit("(", "punct")          # [10] subject ::= iri | BlankNode | collection — the empty one
            self.emit(")", "punct")
            self.pred_obj_list(pos, g)
        elif s[0] == "I":
            self.iri(s[1])
            self.pred_obj_list(pos, g)
        elif s in self.lists and self.occ_obj[s] == 0:
            self.collection(s, g)
            self.pred_obj_list(pos, g)
        else:
            anon_ok = (self.occ_obj[s] == 0 and s not in self.gnames and len(self.graphs_of[s]) == 1
                       and not self._split.get((s, g)))
            if anon_ok and ch.flag("anon_subject", 0.6):
                r = ch.pick(3)
                if r == 0 or not pos:
                    self.emit(ch.choice(["[]", "[ ]", "[\t]"]), "punct")   # [162s] ANON ::= '[' WS* ']'
                    self.pred_obj_list(pos, g)
                elif r == 1 or len(pos) < 2:
                    # [ p o ; … ] .   ([10] triples ::= … | blankNodePropertyList predicateObjectList?)
                    self.emit("[", "punct")
                    self.pred_obj_list(pos, g)
                    self.emit("]", "punct")
                else:
                    k = 1 + ch.pick(len(pos) - 1)
                    self.emit("[", "punct")
                    self.pred_obj_list(pos[:k], g)
                    self.emit("]", "punct")
                    self.pred_obj_list(pos[k:], g)
            else:
                self.emit("_:" + self.labels[s[1]], "bnode")
                self.pred_obj_list(pos, g)

    # ---------------- directives
    def declare_prefixes(self):
        ch = self.ch
        iris = []
        for q in self.quads:
            for t in q[:3] + ((q[3],) if q[3] is not None else ()):
                if t[0] == "I":
                    iris.append(t[1])
                elif t[0] == "L" and t[2] is not None:
                    iris.append(t[2])
        iris = sorted(set(iris))
        names = list(PREFIX_NAMES)
        ch.shuffle(names)
        nss = []
        for i in iris:
            cut = max(i.rfind("#"), i.rfind("/"), i.rfind(":")) + 1
            if ch.flag("odd_split", 0.15) and len(i) > 3:
                cut = 1 + ch.pick(len(i) - 1)
            ns = i[:cut]
            if ns and ns not in nss and ":" in ns:
                nss.append(ns)
        ch.shuffle(nss)
        self.kw_names = set()
        if ch.flag("kw_prefix", 0.35):
            # keyword-like prefix names, given first to the namespaces of subjects and graph labels (the tokens
            # that open a statement / a graph block); in half of the cases ':' is bound as well
            first = []
            for q in self.quads:
                for t in (q[0], q[3]):
                    if t is not None and t[0] == "I":
                        first.append(t[1])
            front = [ns for ns in nss if any(i.startswith(ns) and pn_expressible(i[len(ns):]) for i in first)]
            nss = front + [ns for ns in nss if ns not in front]
            kws = list(KW_PREFIX_NAMES)
            ch.shuffle(kws)
            kws = kws[: 1 + ch.pick(3)]
            self.kw_names = set(kws)
            names = [n for n in names if n != ""] + ([""] if ch.pick(2) else []) + kws   # pop() takes from the end
            decls = []
            for k, ns in enumerate(nss):
                if names and (k < len(kws) or ch.flag("declare_prefix", 0.7)):
                    decls.append((names.pop(), ns))
            return decls
        decls = []
        for ns in nss:
            if names and ch.flag("declare_prefix", 0.7):
                decls.append((names.pop(), ns))
        return decls

    def directive_prefix(self, name, ns):
        ch = self.ch
        if ch.flag("sparql_prefix", 0.4):
            self.emit(ch.choice(["PREFIX", "prefix", "Prefix", "pReFiX"]) if ch.flag("kw_case", 0.4) else "PREFIX", "kw")
            self.emit(name + ":", "pname")
            self.emit(self.iri_ref(ns), "iri")
            self.emit_nl()
        else:
            self.emit("@prefix", "kw")
            self.emit(name + ":", "pname")
            self.emit(self.iri_ref(ns), "iri")
            self.emit(".", "punct")
            self.emit_nl()
        self.prefixes[name] = ns

    def directive_base(self, new):
        ch = self.ch
        self.forced = {}
        if ch.flag("sparql_base", 0.5):
            self.emit(ch.choice(["BASE", "base", "Base", "bAsE"]) if ch.flag("kw_case", 0.4) else "BASE", "kw")
            self.emit(self.iri_ref(new), "iri")
            self.emit_nl()
        else:
            self.emit("@base", "kw")
            self.emit(self.iri_ref(new), "iri")
            self.emit(".", "punct")
            self.emit_nl()
        self.base = new

    def emit_nl(self):
        self.toks.append(("", "eol"))

    # ---------------- document
    def render(self):
        ch = self.ch
        self.analyse()
        decls = self.declare_prefixes()
        if ch.flag("base_directive", 0.35):
            self.directive_base(ch.choice(BASES))
        for name, ns in decls:
            self.directive_prefix(name, ns)
            if ch.flag("base_directive", 0.08):
                self.directive_base(ch.choice(BASES))
        # top-level subject groups per graph
        groups = defaultdict(list)   # g -> [(s, pos)]
        self._split = {}
        for (s, g), pos in self.by_subj.items():
            if s in self.nest or (s in self.cells and s not in self.lists):
                continue
            pos = self._po(s, g)
            if s in self.lists and self.occ_obj[s] == 1 and s in self.nest:
                continue
            if not pos and not (s in self.lists):
                continue
            if len(pos) >= 2 and (s[0] == "I" or True) and ch.flag("split_subject", 0.15) and \
                    not (s in self.lists and self.occ_obj[s] == 0):
                k = 1 + ch.pick(len(pos) - 1)
                self._split[(s, g)] = True
                groups[g].append((s, pos[:k]))
                groups[g].append((s, pos[k:]))
            else:
                groups[g].append((s, pos))
        blocks = []
        for g, gs in groups.items():
            ch.shuffle(gs)
            if self.trig and len(gs) >= 2 and ch.flag("split_graph", 0.3):
                k = 1 + ch.pick(len(gs) - 1)
                blocks.append((g, gs[:k]))
                blocks.append((g, gs[k:]))
            else:
                blocks.append((g, gs))
        ch.shuffle(blocks)
        plan_blocks = [(g, gs, not (g is None and not (self.trig and ch.flag("default_braces", 0.4)))) for g, gs in blocks]
        # units between which a base directive may stand: a top-level statement, or a whole graph block
        units = []
        for g, gs, braces in plan_blocks:
            if not braces:
                units += [self._group_iris(s_, pos_) for s_, pos_ in gs]
            else:
                u_ = [g[1]] if g is not None and g[0] == "I" else []
                for s_, pos_ in gs:
                    u_ += self._group_iris(s_, pos_)
                units.append(u_)
        self.plan = self._plan_twins(units) if self.rebase else {}
        ui = 0
        for g, gs, braces in plan_blocks:
            if not braces:
                for s, pos in gs:
                    self._unit_start(ui, units[ui])
                    ui += 1
                    self.subject_group(s, g, pos)
                    self.emit(".", "punct")
                    self.emit_nl()
                continue
            self._unit_start(ui, units[ui])
            ui += 1
            if g is not None:
                if ch.flag("graph_keyword", 0.5):
                    self.emit(ch.choice(["GRAPH", "graph", "Graph"]) if ch.flag("kw_case", 0.4) else "GRAPH", "kw")
                if g[0] == "I":
                    self.iri(g[1])
                else:
                    self.emit("_:" + self.labels[g[1]], "bnode")
            self.emit("{", "punct")
            for n, (s, pos) in enumerate(gs):
                self.subject_group(s, g, pos)
                # [3g] triplesBlock ::= triples ('.' triplesBlock?)?  — the last '.' is optional
                if n + 1 < len(gs) or not ch.flag("no_last_dot", 0.4):
                    self.emit(".", "punct")
                    self.emit_nl()
            self.emit("}", "punct")
            self.emit_nl()
        doc = self.text()
        if ch.flag("no_final_eol", 0.2):
            doc = doc.rstrip("\r\n")
        if ch.flag("leading_comment", 0.1):
            doc = ch.choice(COMMENTS) + self.eol + doc
        return doc


def _freeze(t):
    return None if t is None else tuple(t)


def write_turtle(quads, ch, trig, base):
    w = TurtleWriter(quads, ch, trig, base)
    return w.render()


# ------------------------------------------------------------------ RDF/XML

XML_FEATURES = ["x_empty_collection", "x_typed_node", "x_prop_attr", "x_parse_resource", "x_nested_node", "x_collection", "x_lang_inherit",
                "x_base", "x_id", "x_li", "x_charref", "x_cdata", "x_no_root", "x_default_ns", "x_indent", "x_split_node",
                "x_type_attr", "x_decl", "x_squote_attr", "x_nested_base"]
_NCNAME_TAIL = re.compile(r"[A-Za-z_][A-Za-z0-9_.\-]*$")
_NOT_XML_CHAR = re.compile("[\x00-\x08\x0b\x0c\x0e-\x1f\ufffe\uffff]")
_LI = re.compile("^" + re.escape(RDF) + r"_([1-9][0-9]*)$")


def xml_split(iri):
    """namespace + the longest ASCII NCName that ends the IRI (expat's name tables are older than XML 1.0 5th ed.),
    or None"""
    for i in range(1, len(iri)):
        if _NCNAME_TAIL.fullmatch(iri[i:]):
            # CPython's xml.sax.expatreader splits "namespace<sep>local" with str.split(): a namespace name that
            # contains Unicode white space (U+00A0 …) is mangled before rdflib sees it — outside rdflib, not spelled.
            return (iri[:i], iri[i:]) if not any(c.isspace() for c in iri[:i]) else None
    return None


def rdfxml_expressible(quads):
    for s, p, o, g in quads:
        if g is not None or xml_split(p[1]) is None:
            return False
        if p[1] in (RDF + "li", RDF + "Description", RDF + "RDF", RDF + "ID", RDF + "about", RDF + "parseType", RDF + "resource",
                    RDF + "nodeID", RDF + "datatype", RDF + "aboutEach", RDF + "aboutEachPrefix", RDF + "bagID"):
            return False
        if o[0] == "L" and _NOT_XML_CHAR.search(o[1]):
            return False
        for t in (s, o):
            if t[0] == "I" and _NOT_XML_CHAR.search(t[1]):
                return False
    return True


def xml_text(ch, s):
    """character data: & < > escaped (or numeric references), CR always as &#13;"""
    if s and ch.flag("x_cdata", 0.15) and "]]>" not in s and "\r" not in s:
        return "<![CDATA[" + s + "]]>"
    out = []
    refs = ch.flag("x_charref", 0.3)
    for c in s:
        if c == "&":
            out.append(ch.choice(["&amp;", "&#38;", "&#x26;"]) if refs else "&amp;")
        elif c == "<":
            out.append(ch.choice(["&lt;", "&#60;"]) if refs else "&lt;")
        elif c == ">":
            out.append(ch.choice(["&gt;", "&#x3E;", ">"]) if refs and "]]" not in s else "&gt;")
        elif c == "\r":
            out.append("&#13;" if not refs else ch.choice(["&#13;", "&#xD;", "&#xd;"]))
        elif refs and ch.pick(6) == 0:
            out.append(ch.choice(["&#%d;" % ord(c), "&#x%X;" % ord(c), "&#x%x;" % ord(c)]))
        else:
            out.append(c)
    return "".join(out)


def xml_attr(ch, s):
    """attribute value with its quotes: tab / LF / CR must be references (attribute-value normalisation)"""
    q = "'" if ch.flag("x_squote_attr", 0.2) else '"'
    out = []
    for c in s:
        if c == "&":
            out.append("&amp;")
        elif c == "<":
            out.append("&lt;")
        elif c == q:
            out.append("&quot;" if q == '"' else "&apos;")
        elif c in "\t\n\r":
            out.append("&#%d;" % ord(c))
        elif ch.pick(40) == 0 and "x_charref" not in ch.off:
            out.append("&#x%X;" % ord(c))
        else:
            out.append(c)
    return q + "".join(out) + q


class _El:
    def __init__(self, name, attrs=None, kids=None, text=None):
        self.name, self.attrs, self.kids, self.text = name, attrs or [], kids or [], text


def write_rdfxml(quads, ch, base):
    triples = [(tuple(s), tuple(p), tuple(o)) for s, p, o, g in quads]
    by_subj = defaultdict(list)
    occ_obj = Counter()
    for s, p, o in triples:
        by_subj[s].append((p, o))
        if o[0] == "B":
            occ_obj[o] += 1
    # ---- namespaces
    nsmap = {RDF: "rdf"}
    names = ["ex", "ns1", "a", "p2", "dc", "x-y", "_u", "q.r"]
    ch.shuffle(names)
    default_ns = None
    needed = []
    for s, p, o in triples:
        ns = xml_split(p[1])[0]
        if ns not in needed and ns != RDF:
            needed.append(ns)
    for ns in needed:
        if default_ns is None and ch.flag("x_default_ns", 0.3):
            default_ns = ns
        else:
            nsmap[ns] = names.pop()
    if ch.flag("x_default_ns", 0.1) and default_ns is None:
        default_ns = RDF
    labels = {}
    for s, p, o in triples:
        for t in (s, o):
            if t[0] == "B" and t not in labels:
                labels[t] = ch.choice(["b", "n", "_", "node-", "B."]) + str(len(labels))
    doc_base = base
    use_base = ch.flag("x_base", 0.4)
    if use_base:
        doc_base = ch.choice(BASES[:3] + [base])
    # a language in scope for the whole document: prefer one that some literal really has, so that the
    # literal may rely on inheritance (and every other literal must reset or override it)
    langs = sorted({o[3] for s, p, o in triples if o[0] == "L" and o[3] is not None})
    root_lang = (ch.choice(langs) if langs and ch.pick(4) else ch.choice(["en", "de-1996"])) \
        if ch.flag("x_lang_inherit", 0.4) else None
    used_ids = set()

    def qn(iri, attr=False):
        ns, local = xml_split(iri)
        if ns == default_ns and not attr:
            return local
        if ns not in nsmap:
            nsmap[ns] = names.pop() if names else "n%d" % len(nsmap)
        return nsmap[ns] + ":" + local

    scope = [doc_base]

    def ref(iri):
        if ch.flag("rel_iri", 0.4) and not has_dot_segments(iri):
            k = ch.pick(5)
            rel = show_ref(relativize(parse_ref(scope[-1]), parse_ref(iri), k))
            if resolve_str(scope[-1], rel) == iri and rel != "":
                ch.log.append(("rel", k, scope[-1], iri, rel))
                return rel
        return iri

    def lit_el(name, o, lang_scope):
        _, lex, dt, lang = o
        attrs = []
        if dt is not None:
            attrs.append(("rdf:datatype", dt))
        elif lang is not None:
            if lang != lang_scope or ch.pick(3) == 0:
                attrs.append(("xml:lang", lang))
        elif lang_scope is not None:
            attrs.append(("xml:lang", ""))
        return _El(name, attrs, text=lex)

    done = set()   # subjects written nested

    def node(s, lang_scope, stack):
        """node element for subject s with (some of) its properties"""
        pos = list(by_subj.get(s, []))
        ch.shuffle(pos)
        name, attrs = "rdf:Description", []
        pushed = False
        if ch.flag("x_nested_base", 0.3 if len(stack) <= 1 else 0.12):
            # xml:base on a node element, written relative to the base in scope (XML Base: it resolves against the
            # base of the parent element, not against the document URI); it also governs this element's own rdf:about
            sb = scope[-1].split("#")[0]
            r = ch.pick(7)
            cands = {0: ("", sb), 1: ("#frag", sb), 2: ("sub/", resolve_str(sb, "sub/")), 3: ("../", resolve_str(sb, "../")),
                     4: ("other/doc.rdf", resolve_str(sb, "other/doc.rdf")), 5: ("../x/y?q=1", resolve_str(sb, "../x/y?q=1"))}
            if r in cands:
                text, nb = cands[r]
            else:
                nb = ch.choice(BASES[:3])
                text = show_ref(relativize(parse_ref(sb), parse_ref(nb), ch.pick(4)))
                if resolve_str(sb, text) != nb:
                    text = nb
            if not has_dot_segments(nb):
                ch.log.append(("res", sb, text, nb)) if text not in ("", "#frag") else None
                attrs.append(("xml:base", text))
                scope.append(nb)
                pushed = True
        # typed node
        types = [(p, o) for p, o in pos if p[1] == RDF_TYPE and o[0] == "I" and xml_split(o[1]) and
                 o[1] not in (RDF + "Description", RDF + "RDF", RDF + "li") and not o[1].startswith(RDF)]
        if types and ch.flag("x_typed_node", 0.6):
            t = ch.choice(types)
            pos.remove(t)
            name = qn(t[1][1])
        if s[0] == "I":
            idm = None
            if s[1].startswith(scope[-1].split("#")[0] + "#"):
                frag = s[1][len(scope[-1].split("#")[0]) + 1:]
                if re.fullmatch(r"[A-Za-z_][A-Za-z0-9_.\-]*", frag) and frag not in used_ids:
                    idm = frag
            if idm and ch.flag("x_id", 0.6):
                used_ids.add(idm)
                attrs.append(("rdf:ID", idm))
            else:
                attrs.append(("rdf:about", ref(s[1])))
        elif s not in anon and (occ_obj[s] > 0 or ch.pick(2)):
            attrs.append(("rdf:nodeID", labels[s]))
        el = _El(name, attrs)
        # property attributes: plain literals whose language is the one in scope; at most one per predicate
        if ch.flag("x_prop_attr", 0.4):
            seen = set(a for a, _ in attrs)
            for p, o in list(pos):
                if o[0] == "L" and o[2] is None and o[3] == lang_scope and not _LI.match(p[1]):
                    a = qn(p[1], attr=True)
                    if a not in seen and ch.pick(2) == 0 and p[1] != RDF_TYPE:
                        seen.add(a)
                        el.attrs.append((a, o[1]))
                        pos.remove((p, o))
                elif p[1] == RDF_TYPE and o[0] == "I" and "rdf:type" not in seen and ch.flag("x_type_attr", 0.3):
                    seen.add("rdf:type")
                    el.attrs.append(("rdf:type", o[1]))
                    pos.remove((p, o))
        # rdf:li for rdf:_1 … rdf:_k
        li = {}
        for p, o in pos:
            m = _LI.match(p[1])
            if m:
                li.setdefault(int(m.group(1)), []).append((p, o))
        k = 0
        while k + 1 in li and len(li[k + 1]) == 1:
            k += 1
        if k and ch.flag("x_li", 0.7):
            ordered = [li[n][0] for n in range(1, k + 1)]
            rest = [po for po in pos if po not in ordered]
            pos = [("li", po) for po in ordered] + [(None, po) for po in rest]
        else:
            pos = [(None, po) for po in pos]
        for tag, (p, o) in pos:
            pname = "rdf:li" if tag == "li" else qn(p[1])
            if o[0] == "L":
                el.kids.append(lit_el(pname, o, lang_scope))
            elif o[0] == "I" and o[1] == RDF_NIL and tag != "li" and ch.flag("x_empty_collection", 0.6):
                # the empty list: a parseType="Collection" property element without member node elements
                e = _El(pname, [("rdf:parseType", "Collection")], [])
                if ch.pick(3) == 0:
                    e.text = ch.choice([" ", "\n", "\n    ", "\t"])
                el.kids.append(e)
            elif o[0] == "I":
                nestable = o not in stack and o in by_subj and o not in done and o not in top_only
                if nestable and ch.flag("x_nested_node", 0.3):
                    done.add(o)
                    el.kids.append(_El(pname, [], [node(o, lang_scope, stack | {o})]))
                else:
                    el.kids.append(_El(pname, [("rdf:resource", ref(o[1]))]))
            else:
                if o in anon and o not in done:
                    done.add(o)
                    if o in lists:
                        items = []
                        for it in lists[o]:
                            if it[0] == "I":
                                items.append(_El("rdf:Description", [("rdf:about", ref(it[1]))]))
                            else:
                                items.append(_El("rdf:Description", [("rdf:nodeID", labels[it])]))
                        el.kids.append(_El(pname, [("rdf:parseType", "Collection")], items))
                    elif ch.flag("x_parse_resource", 0.5):
                        inner = node(o, lang_scope, stack | {o})
                        if inner.name == "rdf:Description" and not inner.attrs:
                            el.kids.append(_El(pname, [("rdf:parseType", "Resource")], inner.kids))
                        else:
                            el.kids.append(_El(pname, [], [inner]))
                    else:
                        el.kids.append(_El(pname, [], [node(o, lang_scope, stack | {o})]))
                else:
                    el.kids.append(_El(pname, [("rdf:nodeID", labels[o])]))
        if pushed:
            scope.pop()
        return el

    # ---- which blank nodes are anonymous (nested once), which lists use parseType="Collection"
    anon, lists, cells = set(), {}, set()
    FIRST, REST, NIL = ("I", RDF_FIRST), ("I", RDF_REST), ("I", RDF_NIL)
    for h in sorted(by_subj):
        if h[0] != "B" or occ_obj[h] != 1 or h in cells:
            continue
        items, cs, c, ok = [], [], h, True
        while True:
            pos = by_subj.get(c, [])
            f = [o for p, o in pos if p == FIRST]
            r = [o for p, o in pos if p == REST]
            if c in cs or len(pos) != 2 or len(f) != 1 or len(r) != 1 or f[0][0] == "L" or (c != h and occ_obj[c] != 1):
                ok = False
                break
            cs.append(c)
            items.append(f[0])
            if r[0] == NIL:
                break
            if r[0][0] != "B":
                ok = False
                break
            c = r[0]
        if ok and not any(it in cs for it in items) and not any(c in cells for c in cs) and ch.flag("x_collection", 0.8):
            # the head must be the object of a non-list triple or of anything: fine either way
            lists[h] = items
            cells.update(cs)
    parent = {}
    for s, p, o in triples:
        if o[0] == "B" and occ_obj[o] == 1:
            parent[o] = s
    for b in sorted(parent):
        if b in cells and b not in lists:
            continue
        if b in lists or ch.flag("nest_bnode", 0.6):
            anon.add(b)

    def up(c):
        ps = parent[c]
        while ps in cells and ps not in lists:
            ps = parent[ps]
        return ps
    for b in sorted(anon):
        seen, c = [], b
        while c in anon and c not in seen:
            seen.append(c)
            c = up(c)
        if c in seen:
            for x in seen:
                anon.discard(x)
    for h in list(lists):
        if h not in anon:
            del lists[h]
    cells = set()
    for h, items in lists.items():
        c = h
        while c != NIL:
            cells.add(c)
            c = [o for p, o in by_subj[c] if p == REST][0]
    # list items that are blank nodes must keep a label (they are referenced from the collection)
    for h, items in lists.items():
        for it in items:
            anon.discard(it)
    top_only = set()
    tops = [s for s in by_subj if s not in anon and not (s in cells)]
    ch.shuffle(tops)
    # an IRI subject nested somewhere must not also be written at top level: decide nesting lazily via `done`
    elements = []
    split = {}
    for s in tops:
        if s in done:
            continue
        if s[0] == "I" and len(by_subj[s]) >= 2 and ch.flag("x_split_node", 0.15):
            pos = by_subj[s]
            k = 1 + ch.pick(len(pos) - 1)
            top_only.add(s)
            by_subj[s] = pos[:k]
            elements.append(node(s, root_lang, {s}))
            by_subj[s] = pos[k:]
            elements.append(node(s, root_lang, {s}))
            by_subj[s] = pos
            done.add(s)
            continue
        done.add(s)
        top_only.add(s)
        elements.append(node(s, root_lang, {s}))
    # ---- serialise
    indent = ch.flag("x_indent", 0.6)

    def ser(el, depth, in_mixed=False):
        pad = ("\n" + "  " * depth) if indent else ""
        out = [pad, "<", el.name]
        for a, v in el.attrs:
            out += [" " if not indent or ch.pick(4) else "\n" + "  " * (depth + 2), a, "=", xml_attr(ch, v)]
        if el.text is not None:
            if el.text == "" and ch.pick(2):
                out.append("/>")
            else:
                out += [">", xml_text(ch, el.text), "</", el.name, ">"]
        elif not el.kids:
            out.append("/>" if ch.pick(3) else "></" + el.name + ">")
        else:
            out.append(">")
            for k in el.kids:
                out.append(ser(k, depth + 1))
            out += [pad, "</", el.name, ">"]
        return "".join(out)

    decl = ""
    if ch.flag("x_decl", 0.6):
        decl = ch.choice(['<?xml version="1.0" encoding="utf-8"?>', "<?xml version='1.0'?>", '<?xml version="1.0" encoding="UTF-8" standalone="yes"?>']) + "\n"
    single = len(elements) == 1 and ch.flag("x_no_root", 0.3) and \
        not any(a in ("xml:base", "xml:lang") for a, _ in elements[0].attrs)    # (the root attributes go on that element)
    body = [ser(e, 0 if single else 1) for e in elements]
    rootattrs = []
    for ns, pfx in nsmap.items():
        rootattrs.append(("xmlns:" + pfx, ns))
    if default_ns is not None:
        rootattrs.append(("xmlns", default_ns))
    if use_base:
        rootattrs.append(("xml:base", doc_base))
    if root_lang is not None:
        rootattrs.append(("xml:lang", root_lang))
    ch.shuffle(rootattrs)
    ra = "".join(" " + a + "=" + xml_attr(ch, v) for a, v in rootattrs)
    if single:
        text = body[0].lstrip("\n")
        i = text.index("<") + 1
        j = i
        while text[j] not in " />\n":
            j += 1
        doc = decl + text[:j] + ra + text[j:]
    else:
        rdfname = "rdf:RDF" if default_ns != RDF else ch.choice(["rdf:RDF", "RDF"])
        doc = decl + "<" + rdfname + ra + ">" + "".join(body) + ("\n" if indent else "") + "</" + rdfname + ">"
    if ch.pick(3) == 0:
        doc += "\n"
    if ch.flag("comments", 0.2):
        i = len(decl)
        doc = doc[:i] + "<!-- a comment -- -> <x> -->\n".replace("-- ->", "- ->") + doc[i:]
    return doc


# ------------------------------------------------------------------ JSON-LD

JSONLD_FEATURES = ["j_nest", "j_empty_list", "j_type_scoped", "j_prop_scoped", "j_embedded_ctx", "j_propagate_false", "j_propagate_true", "j_prefix", "j_term", "j_vocab", "j_base", "j_language", "j_coerce_id", "j_coerce_dt", "j_container_list",
                   "j_list", "j_reverse", "j_native", "j_expanded", "j_graph_wrap", "j_type_kw", "j_ascii", "j_indent",
                   "j_arrays", "j_nested", "j_split_node", "j_ctx_array", "j_vocab_term"]
_GEN_DELIM_END = re.compile(r"[:/?#\[\]@]$")
_SIMPLE_LOCAL = re.compile(r"^[A-Za-z0-9_.\-~%é\u4e2d\u6587·]+$")


def jsonld_expressible(quads):
    for s, p, o, g in quads:
        if o[0] == "L" and o[2] == XSD + "string":
            return False      # "x" and "x"^^xsd:string are one literal in JSON-LD; rdflib keeps two terms
        if o[0] == "L" and o[2] == RDF + "langString":
            return False
    return True


def write_jsonld(quads, ch, base):
    quads = [tuple(_freeze(t) for t in q) for q in quads]
    expanded = ch.flag("j_expanded", 0.2)
    ctx = {}
    prefixes, terms, vocab, doc_base, dlang = {}, {}, None, base, None
    coerce = {}       # term -> ("@id" | datatype | ("@list",) | ("lang", tag))
    iris = set()
    for s, p, o, g in quads:
        for t in (s, p, o, g):
            if t is not None and t[0] == "I":
                iris.add(t[1])
    preds = sorted({q[1][1] for q in quads})
    if not expanded:
        names = ["ex", "ns1", "v", "dc", "schema", "p2", "x-y"]
        ch.shuffle(names)
        nss = []
        for i in sorted(iris):
            cut = max(i.rfind("#"), i.rfind("/"), i.rfind(":")) + 1
            ns = i[:cut]
            if ns not in nss and _GEN_DELIM_END.search(ns) and re.match(r"^[A-Za-z][A-Za-z0-9+.\-]*:", ns) and len(ns) > ns.index(":") + 1:
                nss.append(ns)
        ch.shuffle(nss)
        for ns in nss:
            if names and ch.flag("j_prefix", 0.6):
                prefixes[names.pop()] = ns
        if preds and ch.flag("j_vocab", 0.5):
            p0 = ch.choice(preds)
            vocab = p0[: max(p0.rfind("#"), p0.rfind("/")) + 1]
        if ch.flag("j_base", 0.3):
            doc_base = ch.choice(BASES[:3] + [base])
        if ch.flag("j_language", 0.3):
            langs = sorted({q[2][3] for q in quads if q[2][0] == "L" and q[2][3] is not None})
            dlang = ch.choice(langs) if langs and ch.pick(4) else ch.choice(["en", "de"])
        tnames = ["name", "knows", "t1", "label", "val", "items", "kind"]
        ch.shuffle(tnames)
        for p in preds:
            if tnames and p != RDF_TYPE and ch.flag("j_term", 0.4):
                local = p[len(vocab):] if vocab is not None and p.startswith(vocab) else None
                if local and _SIMPLE_LOCAL.match(local) and local not in prefixes and local not in terms \
                        and local not in tnames and ch.flag("j_vocab_term", 0.5):
                    terms[local] = p          # a term spelled like its own vocab-relative name
                else:
                    terms[tnames.pop()] = p

    def compact_iri(i):
        """a string that expands to i as an IRI *key or @type value* (vocab-relative allowed)"""
        opts = [i]
        for n, ns in prefixes.items():
            if i.startswith(ns) and not i[len(ns):].startswith("//"):
                opts.append(n + ":" + i[len(ns):])
        if vocab is not None and i.startswith(vocab):
            local = i[len(vocab):]
            if local and _SIMPLE_LOCAL.match(local) and local not in terms and local not in prefixes and not local.startswith("@"):
                opts.append(local)
        return ch.choice(opts) if not expanded else i

    def id_ref(t):
        """@id value (document-relative allowed)"""
        if t[0] == "B":
            return "_:" + labels[t]
        i = t[1]
        if expanded:
            return i
        opts = [i]
        for n, ns in prefixes.items():
            if i.startswith(ns) and not i[len(ns):].startswith("//"):
                opts.append(n + ":" + i[len(ns):])
        if ch.flag("rel_iri", 0.4) and not has_dot_segments(i):
            k = ch.pick(5)
            rel = show_ref(relativize(parse_ref(doc_base), parse_ref(i), k))
            # a relative reference must not look like a compact IRI, a keyword or a blank node
            if resolve_str(doc_base, rel) == i and ":" not in rel.split("/")[0].split("?")[0].split("#")[0] and not rel.startswith("@"):
                ch.log.append(("rel", k, doc_base, i, rel))
                return rel
        return ch.choice(opts)

    labels = {}
    for q in quads:
        for t in q:
            if t is not None and t[0] == "B" and t not in labels:
                labels[t] = ch.choice(["b", "n", "x-", "B."]) + str(len(labels))

    # ---- term coercions chosen per predicate, only if every use of the predicate fits
    by_pred = defaultdict(list)
    for s, p, o, g in quads:
        by_pred[p[1]].append(o)
    key_of = {}
    for t, p in terms.items():
        key_of[p] = t
        objs = by_pred[p]
        if all(o[0] == "I" for o in objs) and ch.flag("j_coerce_id", 0.6):
            coerce[t] = "@id"
        elif all(o[0] == "L" and o[2] is not None and o[2] == objs[0][2] for o in objs) and ch.flag("j_coerce_dt", 0.6):
            coerce[t] = objs[0][2]
        elif all(o[0] == "L" and o[2] is None and o[3] is not None and o[3] == objs[0][3] for o in objs) and ch.flag("j_language", 0.5):
            coerce[t] = ("lang", objs[0][3])

    # ---- lists
    FIRST, REST, NIL = ("I", RDF_FIRST), ("I", RDF_REST), ("I", RDF_NIL)
    by_sg = defaultdict(list)
    occ_obj, graphs_of, gnames = Counter(), defaultdict(set), set()
    for s, p, o, g in quads:
        by_sg[(s, g)].append((p, o))
        for t in (s, o):
            if t[0] == "B":
                graphs_of[t].add(g)
        if o[0] == "B":
            occ_obj[o] += 1
        if g is not None and g[0] == "B":
            gnames.add(g)
    lists, cells = {}, set()
    for (h, g) in sorted(by_sg, key=lambda x: (x[0], str(x[1]))):
        if h[0] != "B" or occ_obj[h] != 1 or h in cells or h in gnames or len(graphs_of[h]) != 1:
            continue
        items, cs, c, ok = [], [], h, True
        while True:
            pos = by_sg.get((c, g), [])
            f = [o for p, o in pos if p == FIRST]
            r = [o for p, o in pos if p == REST]
            if c in cs or c in cells or len(pos) != 2 or len(f) != 1 or len(r) != 1 or c in gnames or len(graphs_of[c]) != 1 \
                    or occ_obj[c] != 1:
                ok = False
                break
            cs.append(c)
            items.append(f[0])
            if r[0] == NIL:
                break
            if r[0][0] != "B":
                ok = False
                break
            c = r[0]
        if not ok or any(it in cs for it in items):
            continue
        # the head must be referenced from the same graph, and not through rdf:first/rdf:rest of a non-list node
        refs = [(s2, p2, g2) for s2, p2, o2, g2 in quads if o2 == h]
        if refs[0][2] != g or refs[0][0] in cs or refs[0][1] in (FIRST, REST):
            continue
        if ch.flag("j_list", 0.85):
            lists[h] = items
            cells.update(cs)

    def value(o, p, g, stack):
        """JSON value for object o of predicate p"""
        key = key_of.get(p[1])
        co = coerce.get(key) if key is not None and used_key.get(p[1]) == key else None
        if o[0] == "L":
            _, lex, dt, lang = o
            if co is not None and co == dt:
                return lex
            if isinstance(co, tuple) and co[0] == "lang" and lang == co[1]:
                return lex
            if dt is not None:
                if co is None and not expanded and ch.flag("j_native", 0.6):
                    if dt == XSD + "integer" and re.fullmatch(r"-?[1-9][0-9]{0,14}|0", lex):
                        return int(lex)
                    if dt == XSD + "boolean" and lex in ("true", "false"):
                        return lex == "true"
                return {"@value": lex, "@type": compact_iri(dt)}
            if lang is not None:
                if co is None and dlang == lang and ch.pick(2):
                    return lex
                return {"@value": lex, "@language": lang}
            if co is None and dlang is None and not expanded and ch.pick(3):
                return lex
            return {"@value": lex}
        if o == NIL and p[1] != "urn:none":
            if isinstance(co, tuple) and co[0] == "@list":
                ch.used["j_empty_list"] += 1
                return []                      # "@container": "@list" and an empty array: the empty list
            if ch.flag("j_empty_list", 0.6):
                return {"@list": []}           # rdf:nil
        if o in lists:
            arr = [value(it, ("I", "urn:none"), g, stack) for it in lists[o]]
            if isinstance(co, tuple) and co[0] == "@list":
                return arr
            return {"@list": arr}
        if co == "@id" and o[0] == "I":
            return id_ref(o)
        if o[0] == "B" and o in nest and o not in stack:
            return node(o, g, stack | {o})
        return {"@id": id_ref(o)}

    used_key = {}

    def key(p):
        if p[1] in key_of and (ch.pick(4) or coerce.get(key_of[p[1]]) is not None):
            used_key[p[1]] = key_of[p[1]]
            return key_of[p[1]]
        used_key[p[1]] = None
        return compact_iri(p[1])

    # blank nodes that may be embedded (object exactly once, same graph, not a graph name, acyclic)
    nest = set()
    parent = {}
    for s, p, o, g in quads:
        if o[0] == "B" and occ_obj[o] == 1:
            parent[o] = (s, g)
    for b, (ps, pg) in sorted(parent.items()):
        if b in cells or b in gnames or len(graphs_of[b]) != 1 or next(iter(graphs_of[b])) != pg:
            continue
        if ch.flag("j_nested", 0.6):
            nest.add(b)
    for b in sorted(nest):
        seen, c = [], b
        while c in nest and c not in seen:
            seen.append(c)
            c = parent[c][0]
            while c in cells:
                c = parent[c][0]
        if c in seen:
            for x in seen:
                nest.discard(x)
    # an embedded node inside a list item is fine; a list head is never embedded as a node

    # ---- scoped contexts (JSON-LD 1.1 section 4.1.8), decided before anything is rendered.
    #   type-scoped:     "Kls0": {"@id": class, "@context": {…}}  applies to the node object typed "Kls0" only
    #                    (with "@propagate": true also to what is nested in it)
    #   property-scoped: "term": {"@id": p, "@context": {…}}      applies to the node objects that are values of "term"
    #                    and to what is nested in them (with "@propagate": false to those values only)
    #   embedded:        a nested node object's own "@context"     the same, from that node object on
    # A scoped context defines fresh terms for predicates used where it applies, or re-defines a term of the document
    # context with another meaning (so that a reader that applies it too widely, or not at all, reads another graph).
    fresh_names = iter("sc%d" % n for n in range(1000))

    def scoped_map(ps, prefer=()):
        m = {}
        cands = sorted({p[1] for p in ps if p[1] != RDF_TYPE})
        ch.shuffle(cands)
        for p in cands[: 1 + ch.pick(2)]:
            shadow = sorted(t for t, q in terms.items() if q != p and t not in m)
            hot = [t for t in shadow if terms[t] in prefer]      # terms that node objects nested here use with their outer meaning
            if hot and ch.pick(4):
                m[ch.choice(hot)] = p
            elif shadow and ch.pick(2):
                m[ch.choice(shadow)] = p
            else:
                m[next(fresh_names)] = p
        return m

    type_scope, prop_scope = {}, {}
    if not expanded:
        for (s0, g0) in sorted(by_sg, key=lambda x: (x[0], str(x[1]))):
            cls = [o for p, o in by_sg[(s0, g0)] if p[1] == RDF_TYPE and o[0] == "I"]
            if len(cls) == 1 and cls[0][1] not in type_scope and len(by_sg[(s0, g0)]) > 1 and ch.flag("j_type_scoped", 0.75):
                below = {p[1] for _, o in by_sg[(s0, g0)] if o in nest for p, _ in by_sg.get((o, g0), [])} - {RDF_TYPE}
                if below and not any(q in below for q in terms.values()) and tnames and ch.pick(4):
                    q = ch.choice(sorted(below))           # make sure a nested node object has a term of the document context to use
                    if q not in key_of:
                        t = tnames.pop()
                        terms[t] = q
                        key_of[q] = t
                m = scoped_map([p for p, o in by_sg[(s0, g0)]], below)
                if m:
                    type_scope[cls[0][1]] = ("Kls%d" % len(type_scope), m, ch.flag("j_propagate_true", 0.25))
        for t in sorted(terms):
            inner = [o for o in by_pred[terms[t]] if o in nest]
            ips = [p for o in inner for p, _ in by_sg.get((o, next(iter(graphs_of[o]))), [])]
            if inner and ips and ch.flag("j_prop_scoped", 0.6):
                m = scoped_map(ips)
                m.pop(t, None)
                if m:
                    prop_scope[t] = (m, not ch.flag("j_propagate_false", 0.3))
    # the scope in force where a node object is written: (term overrides, what nested node objects revert to or None)
    scope_stack = [({}, None, False)]
    nest_alias = set()

    def node(s, g, stack, pos=None):
        pos = list(by_sg.get((s, g), [])) if pos is None else list(pos)
        ch.shuffle(pos)
        obj = {}
        entries = []
        outer, revert, under_type_scope = scope_stack[-1]
        nested_here = len(scope_stack) > 1
        if not (s[0] == "B" and s in nest and occ_obj[s] == 1 and ch.pick(2)):
            entries.append(("@id", id_ref(s)))
        types = [o for p, o in pos if p[1] == RDF_TYPE and o[0] == "I"]
        mine, child_base, own_nonprop_type, type_map = dict(outer), (dict(outer) if revert is None else dict(revert)), False, None
        # an embedded context on a nested node object
        plain_ps = [p for p, o in pos if p[1] != RDF_TYPE]
        emb_nonprop = False
        if nested_here and revert is None and plain_ps and not expanded and ch.flag("j_embedded_ctx", 0.85 if under_type_scope else 0.3):
            m = scoped_map(plain_ps)
            emb = dict(m)
            emb_nonprop = ch.flag("j_propagate_false", 0.3)
            if emb_nonprop:
                emb["@propagate"] = False
            else:
                child_base.update(m)
            mine.update(m)
            if under_type_scope:
                ch.used["j_embedded_under_type_scope"] += 1
                if any(t in terms and terms[t] in {q[1] for q in plain_ps} for t in under_type_scope):
                    ch.used["j_embedded_under_shadowing_type_scope"] += 1
            items_ = list(emb.items())
            ch.shuffle(items_)
            entries.append(("@context", dict(items_)))
        if len(types) == 1 and types[0][1] in type_scope and revert is None and not emb_nonprop and ch.pick(5):
            # the type written as the term that carries the type-scoped context
            name, m, prop = type_scope[types[0][1]]
            type_map = m
            pos = [(p, o) for p, o in pos if not (p[1] == RDF_TYPE and o[0] == "I")]
            entries.append(("@type", name if ch.pick(2) else [name]))
            mine.update(m)
            ch.used["j_type_scoped_used"] += 1
            if prop:
                child_base.update(m)
            else:
                own_nonprop_type = True
        elif types and ch.flag("j_type_kw", 0.8):
            pos = [(p, o) for p, o in pos if not (p[1] == RDF_TYPE and o[0] == "I")]
            tv = [compact_iri(o[1]) for o in types]
            entries.append(("@type", tv[0] if len(tv) == 1 and not expanded and ch.pick(2) else tv))
        groups = defaultdict(list)
        for p, o in pos:
            groups[p].append(o)
        for p, os_ in groups.items():
            has_inner = any(o[0] == "B" for o in os_)
            sk = sorted(t for t, q in mine.items() if q == p[1])
            if sk and p[1] != RDF_TYPE and ch.pick(5):
                k = ch.choice(sk)                      # a term of the scoped context in force
                used_key[p[1]] = None
                ch.used["j_scoped_key"] += 1
            else:
                k = key(p)
                if under_type_scope and key_of.get(p[1]) in under_type_scope and ch.pick(8):
                    # the enclosing node object's type-scoped context gives this term another meaning; here it has the outer one
                    k = key_of[p[1]]
                    used_key[p[1]] = k
                    ch.used["j_outer_term_under_type_scope"] += 1
                if k in mine and mine[k] != p[1]:      # re-defined in scope: not this predicate any more
                    k = p[1]
                    used_key[p[1]] = None
                elif k in prop_scope and k == key_of.get(p[1]) and has_inner and own_nonprop_type:
                    k = p[1]                           # (a property-scoped context under a non-propagated type-scoped one: kept apart)
                    used_key[p[1]] = None
                if k != key_of.get(p[1]) and k in terms:
                    k = p[1]                           # a vocab-relative name that happens to be a term of another predicate
                    used_key[p[1]] = None
            cb, rv = dict(child_base), None
            if k in prop_scope and k == key_of.get(p[1]) and used_key.get(p[1]) == k and k not in {t for t in mine if mine[t] != terms.get(t)}:
                m, prop = prop_scope[k]
                if has_inner:
                    ch.used["j_prop_scoped_used"] += 1
                if not prop:
                    rv = dict(child_base)
                cb.update(m)
            scope_stack.append((cb, rv, own_nonprop_type and type_map))
            # co-decide: a coercing term is used for every value of the predicate in this node
            vals = [value(o, p, g, stack) for o in os_]
            scope_stack.pop()
            if len(vals) == 1 and not expanded and not ch.flag("j_arrays", 0.3) and not isinstance(vals[0], list):
                entries.append((k, vals[0]))
            else:
                if any(isinstance(v, list) for v in vals):
                    if len(vals) == 1:
                        entries.append((k, vals[0]))
                        continue
                    vals = [v if not isinstance(v, list) else {"@list": v} for v in vals]
                entries.append((k, vals))
        ch.shuffle(entries)
        for k, v in entries:
            if k in obj:      # the same key twice (term and IRI chosen differently): merge
                a = obj[k] if isinstance(obj[k], list) else [obj[k]]
                b = v if isinstance(v, list) else [v]
                obj[k] = a + b
            else:
                obj[k] = v
        # "@nest" (JSON-LD 1.1 section 4.4): properties — and the @id — of the node object grouped in a map under @nest or an
        # alias of it; they belong to the node object as if written directly in it
        movable = [k for k in obj if k == "@id" or not k.startswith("@")]
        # (not under a non-propagated context: rdflib reverts it inside the @nest map, the specification does not — kept apart)
        if not expanded and len(movable) >= 1 and not own_nonprop_type and not emb_nonprop and revert is None \
                and ch.flag("j_nest", 0.2):
            ch.shuffle(movable)
            parts = 1 + (len(movable) > 2 and ch.pick(2))
            moved = movable[: 1 + ch.pick(len(movable))]
            maps = [{} for _ in range(parts)]
            for k in moved:
                maps[ch.pick(parts)][k] = obj.pop(k)
            maps = [m for m in maps if m]
            nkey = "@nest"
            if ch.pick(2):
                nkey = "nst"
                nest_alias.add(nkey)
            obj[nkey] = maps[0] if len(maps) == 1 and ch.pick(2) else maps
            if any("@id" in m for m in maps):
                ch.used["j_nest_id"] += 1
        return obj

    # container @list coercion: decided before rendering, only for predicates all of whose objects are list heads
    for t, p in terms.items():
        objs = by_pred[p]
        if t not in coerce and objs and all(o in lists or o == NIL for o in objs) and len(objs) == 1 \
                and "j_empty_list" not in (ch.off if objs[0] == NIL else ()) and ch.flag("j_container_list", 0.6):
            coerce[t] = ("@list",)

    graphs = defaultdict(list)
    for (s, g), pos in by_sg.items():
        if s in cells or (s in nest):
            continue
        graphs[g].append(s)
    # reverse properties: a triple s p o (o a node with its own top-level object in the same graph) written inside o
    top = []
    def graph_nodes(g):
        out = []
        subs = list(graphs.get(g, []))
        ch.shuffle(subs)
        for s in subs:
            pos = by_sg[(s, g)]
            if len(pos) >= 2 and ch.flag("j_split_node", 0.15) and not (s[0] == "B" and s in nest):
                k = 1 + ch.pick(len(pos) - 1)
                out.append(node(s, g, {s}, pos[:k]))
                out.append(node(s, g, {s}, pos[k:]))
            elif ch.flag("j_reverse", 0.2) and not expanded:
                cand = [(p, o) for p, o in pos if o[0] in "IB" and o not in lists and o not in nest and o not in cells
                        and p[1] != RDF_TYPE and coerce.get(key_of.get(p[1])) is None]
                if cand:
                    p, o = ch.choice(cand)
                    rest = list(pos)
                    rest.remove((p, o))
                    rev = {"@id": id_ref(o), "@reverse": {compact_iri(p[1]): ({"@id": id_ref(s)} if ch.pick(2) else [{"@id": id_ref(s)}])}}
                    out.append(rev)
                    if rest:
                        out.append(node(s, g, {s}, rest))
                    continue
                out.append(node(s, g, {s}))
            else:
                out.append(node(s, g, {s}))
        return out

    default_nodes = graph_nodes(None)
    named = []
    for g in [g for g in graphs if g is not None]:
        named.append({"@id": id_ref(g), "@graph": graph_nodes(g)})
    # graphs that only exist through nested / list nodes cannot be empty here: every quad has a top subject
    allnodes = default_nodes + named
    ch.shuffle(allnodes)
    # ---- context (after rendering: only now do we know which terms were used with which coercion)
    deps = {}     # context key -> keys of the same context it needs (a prefix, "@vocab")
    for n, ns in prefixes.items():
        ctx[n] = ns
    for t, p in terms.items():
        co = coerce.get(t)
        pid = p
        deps[t] = set()
        local = p[len(vocab):] if vocab is not None and p.startswith(vocab) else None
        r = ch.pick(4)
        # (a vocab-relative string that is itself a term or prefix of the context would expand through that term)
        if local and _SIMPLE_LOCAL.match(local) and (t == local or (r < 2 and local not in terms and local not in prefixes)) \
                and "j_vocab_term" not in ch.off:
            pid = local if t != local or ch.pick(2) else None      # vocab-relative @id, or none at all (term = local)
            deps[t].add("@vocab")
            ch.used["j_vocab_term"] += 1
        elif prefixes and r == 2:
            for n, ns in prefixes.items():
                if p.startswith(ns) and not p[len(ns):].startswith("//"):
                    pid = n + ":" + p[len(ns):]
                    deps[t].add(n)
                    break
        d = {} if pid is None else {"@id": pid}
        if co is None:
            ctx[t] = pid if (pid is not None and ch.pick(2)) else d
        elif co == "@id":
            ctx[t] = {**d, "@type": "@id"}
        elif isinstance(co, tuple) and co[0] == "@list":
            ctx[t] = {**d, "@container": "@list"}
        elif isinstance(co, tuple) and co[0] == "lang":
            ctx[t] = {**d, "@language": co[1]}
        else:
            ctx[t] = {**d, "@type": co}
    for t, (m, prop) in prop_scope.items():
        sc = dict(m)
        if not prop:
            sc["@propagate"] = False
        d = ctx[t] if isinstance(ctx[t], dict) else {"@id": ctx[t]}
        ctx[t] = {**d, "@context": sc}
    for cls, (name, m, prop) in type_scope.items():
        sc = dict(m)
        if prop:
            sc["@propagate"] = True
        ctx[name] = {"@id": cls, "@context": sc}
    for a in nest_alias:
        ctx[a] = "@nest"
    if vocab is not None:
        ctx["@vocab"] = vocab
    if doc_base != base:
        ctx["@base"] = doc_base
    if dlang is not None:
        ctx["@language"] = dlang
    # Member order inside one context object is irrelevant (JSON-LD 1.1 API 4.1.2: @base, @vocab, @language are taken
    # first, then every other key creates a term definition, looking up the keys it depends on in the same object).
    items = list(ctx.items())
    ch.shuffle(items)
    ctx = dict(items)
    # An array of contexts is processed in order: a definition may use what the same or an earlier object defines.
    ctx_parts = None
    if ctx and ch.flag("j_ctx_array", 0.35):
        nparts = 2 + ch.pick(2)
        part = {}
        for k in ctx:
            if k not in deps:
                part[k] = ch.pick(nparts)
        for k in ctx:
            if k in deps:
                lo = max([part[d] for d in deps[k] if d in part] + [0])
                part[k] = lo + ch.pick(nparts - lo)
        ctx_parts = [{k: v for k, v in ctx.items() if part[k] == n} for n in range(nparts)]
        if ch.pick(2):
            ctx_parts = [c for c in ctx_parts if c]
    if expanded:
        doc = allnodes if (len(allnodes) != 1 or ch.pick(2)) else allnodes[0]
    else:
        cval = ctx if not ctx_parts else ctx_parts
        if len(allnodes) == 1 and "@graph" not in allnodes[0] and not ch.flag("j_graph_wrap", 0.4):
            doc = dict(allnodes[0])
            if ctx or ch.pick(2):
                entries = list(doc.items()) + [("@context", cval)]
                ch.shuffle(entries)
                doc = dict(entries)
        else:
            doc = {"@context": cval, "@graph": allnodes} if ch.pick(4) else {"@graph": allnodes, "@context": cval}
            if not ctx and ch.pick(2):
                doc = allnodes
    kw = {"ensure_ascii": ch.flag("j_ascii", 0.4)}
    if ch.flag("j_indent", 0.5):
        kw["indent"] = ch.choice([1, 2, "\t"])
    else:
        kw["separators"] = ch.choice([(",", ":"), (", ", ": "), (" ,\n", " : ")])
    return json.dumps(doc, **kw)
