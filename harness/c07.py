"""C07 — RDF terms obey identity laws: equality, hashing, ordering, pickling, n3 text.  DESIGN §6 C07.

Case = {"terms": [T…], "p1": [perm], "p2": [perm]}   (3–7 terms; p1/p2 = two shuffles for sorted())
  T = {"k": "iri"|"genid"|"rgenid"|"bnode"|"var", "s": str}
    | {"k": "lit", "lex": str, "dt": str|None, "lang": str|None, "nn": bool}   (nn = built with normalize=False)

Observations compared with the Lean model (one driver line each, see lean/RV/C07/Drive.lean):
  * per ordered pair of the first three terms:  ==, !=, hash-equality when equal, <, > (where the model covers
    the comparison: every pair except two literals whose comparison reaches a typed Python value);
  * per term: the model READER applied to rdflib's n3() text (= what rdflib.util.from_n3 reads, normalisation off),
    rdflib's reader applied to the MODEL's n3 text, and `__reduce__`/rebuild.
The property's own laws are evaluated directly on the implementation (`viol`), independent of Lean.
"""
import copy
import logging
import os
import pickle
import re
import sys
import unicodedata
import warnings

import core  # noqa: F401
import rdflib
from rdflib import BNode, Graph, Literal, URIRef, Variable
from rdflib import term as T
from rdflib.store import NodePickler
from rdflib.term import Genid, RDFLibGenid
from rdflib.util import from_n3

warnings.filterwarnings("ignore")
logging.disable(logging.CRITICAL)

ID = "C07"
LEAN_TARGETS = ["RV.C07.Props", "RV.C07.Audit"]
AUDIT = "RV/C07/Audit.lean"
DRIVER = "drv_c07"
CASES = {"quick": 1200, "thorough": 30000, "search": 2048}
RULE = ("3-7 terms per case drawn from every kind (URIRef, Genid, RDFLibGenid, BNode, Variable, Literal over every "
        "datatype of XSDToPython with valid / invalid / non-normalised lexical forms, language tags differing in case, "
        "NaN/INF, naive and aware date-times, arbitrary Unicode incl. quotes, backslashes, CR/LF/TAB, controls, non-BMP), "
        "biased to look-alikes; all pairs and triples are checked; non-trivial = the case contains two differently "
        "spelled terms that compare equal, or a literal whose n3 text needs an escape; distinct = distinct term lists")
ASSUMPTIONS = [
    "Python str order = code point order; str.__hash__ is a function of the string (abstract strHash in Lean)",
    "language tags are the ASCII tags Literal.__new__ accepts (lower() modelled as ASCII lower-casing)",
    "typed Python values (int, Decimal, float, datetime, …) and lexical normalisation are parameters of the model "
    "(C09); literal ordering is compared with the model only where no typed value is reached",
    "lone surrogates are outside the quantifier (Lean Char = Unicode scalar value)",
]
TRUSTED = ["harness/c07.py generators, oracles and canonicalisation", "lean/RV/C07/Drive.lean line protocol",
           "TABLES(): _ORDERING ranks, _invalid_uri_chars, quote/escape characters, str.isspace table copied from the live modules"]

XSD = "http://www.w3.org/2001/XMLSchema#"
RDFNS = "http://www.w3.org/1999/02/22-rdf-syntax-ns#"
CLS = {"iri": URIRef, "genid": Genid, "rgenid": RDFLibGenid, "bnode": BNode, "var": Variable}
CLS_REV = {v: k for k, v in CLS.items()}
BASEKIND = {"iri": "iri", "genid": "iri", "rgenid": "iri", "bnode": "bnode", "var": "var", "lit": "lit"}
KIND_RANK = {"bnode": 0, "var": 1, "iri": 2, "lit": 3}   # the statement: blank node < variable < IRI < literal

# ------------------------------------------------------------------ lexical material

INT_LEX = ["0", "1", "-1", "01", "+1", " 1 ", "1_0", "abc", "", "255", "256", "-129", "128", "65536", "-0",
           "99999999999999999999", "4294967296", "١٢"]
LEX = {
    "integer": INT_LEX, "nonPositiveInteger": INT_LEX, "long": INT_LEX, "nonNegativeInteger": INT_LEX,
    "negativeInteger": INT_LEX, "int": INT_LEX, "unsignedLong": INT_LEX, "positiveInteger": INT_LEX,
    "short": INT_LEX, "unsignedInt": INT_LEX, "byte": INT_LEX, "unsignedShort": INT_LEX, "unsignedByte": INT_LEX,
    "decimal": ["1.0", "1.10", "01.5", ".5", "1.", "1", "1E2", "NaN", "Infinity", "-Infinity", "sNaN", "abc", "-0.0", "0.0"],
    "double": ["1.0", "1E0", "1e0", "0.1", "INF", "-INF", "inf", "-inf", "+INF", "NaN", "nan", "infinity", "abc",
               "1_0", "1", "-0.0", "0.0", "1e400", " 1.0"],
    "float": ["1.0", "1E0", "0.1", "INF", "-INF", "inf", "NaN", "nan", "Infinity", "abc", "1", "-0.0"],
    "boolean": ["true", "false", "1", "0", "TRUE", "True", "abc", " true"],
    "dateTime": ["2001-10-26T21:32:52", "2001-10-26T21:32:52Z", "2001-10-26T21:32:52+02:00", "2001-10-26T19:32:52Z",
                 "2001-10-26T21:32:52.12679", "2001-10-26 21:32:52", "abc", "-0001-01-01T00:00:00",
                 "10000-01-01T00:00:00", "2001-10-26T24:00:00", "2001-10-27T00:00:00", "2001-10-26T21:32:52-00:00"],
    "date": ["2001-10-26", "2001-10-26Z", "2001-10-26+02:00", "abc", "2001-1-1", "2001-10-27"],
    "time": ["21:32:52", "21:32:52Z", "21:32:52+02:00", "19:32:52Z", "24:00:00", "abc", "21:32:52.5"],
    "duration": ["P1Y", "P1M", "P30D", "PT24H", "P1D", "-P1D", "abc", "P1Y2M3DT4H5M6S", "PT0S", "P0D"],
    "dayTimeDuration": ["P1D", "PT24H", "PT1440M", "abc", "-P1D"],
    "yearMonthDuration": ["P1Y", "P12M", "abc", "-P1Y"],
    "hexBinary": ["0FB7", "0fb7", "xyz", "", "0F"],
    "base64Binary": ["AAEC", "AAE=", "!!!", "", "AA EC"],
    "string": ["", "a", "01", " a ", "a\tb"],
    "normalizedString": [" a  b ", "a\tb", "a b", "a\nb\r", ""],
    "token": [" a  b ", "a\tb", "a b", "\u2003a b\u2003", "", "a  b"],
    "language": ["en", "EN", "en-US"],
    "anyURI": ["http://x", "x y", ""],
    "gYear": ["2001", "abc"], "gYearMonth": ["2001-10", "abc"],
}
RDF_LEX = {"XMLLiteral": ["<a/>", "<a></a>", "<a>", "text", "<a b='1'/>", "<a  b=\"1\"/>"],
           "HTML": ["<b>x</b>", "x", "<b>x"]}
CUSTOM_DT = ["http://e/dt", "urn:dt", "http://e/ü#d", XSD + "unknownType", "http://e/dt?a=b&c='d'",
             "http://e/dt#code", "http://schema.org/Date", "https://schema.org/Date", "http://e/ns/text"]
BAD_DT = ["http://e/d t", "http://e/d\"t", "http://e/d>t"]
LANGS = ["en", "EN", "En", "en-US", "en-us", "fr", "de-Latn-DE", "de-latn-de", "x-a1"]
BAD_LANGS = ["en_US", "1en", "en-", "en\n", "-en", "e n", "", "en--us", "\u00e9", "en-\n", "e\nn", "a-1-b"]
ATOMS = ["a", "b", "z", "A", "\"", "\"", "\\", "\\", "\n", "\r", "\t", "\x00", "\x08", "\x0c", "\x0b", "\x7f", "\x85",
         "\u2028", "\u00e9", "\u20ac", "\U0001F600", "\ud7ff", "\ufffd", "'", " ", "u", "U", "0", "4", "1", "x", "n", "r",
         "t", "\"\"\"", "\\\"", "\\u0041", "\\U0001F600", "\\x41", "\\101", "\\N{DASH}", "^^", "@", "<", ">", "e", "-",
         ".", "inf", "nan", "\"\"", "'''", "{", "}", "#", "\u0130", "\u00df", "\u0661"]
IRIS = ["http://e/a", "http://e/b", "http://e/a#f", "http://e/\u6f22", "urn:x:\u00fc", "http://e/\U0001F600",
        "http://e/a%20b", "http://e/a/../b", "http://e/A", "http://e/a?q=1&r='2'", "mailto:a@b", "http://e/a,b;c",
        "http://x/.well-known/genid/a", "http://x/.well-known/genid/rdflib/a", "x", "a", "", "#f", "?x", "_:x", "true", "1",
        "http://schema.org/Person", "https://schema.org/Person", "http://e/dt#code", "http://e/ns/thing", "http://e/ns/e1",
        "http://e/ns/true", "http://e/ns/1", XSD + "integer", "http://e/ns/"]
BAD_IRIS = ["http://e/a b", "http://e/<a>", "http://e/a\\b", "http://e/a\"b", "http://e/{a}", "http://e/a|b", "http://e/a^b",
            "http://e/a`b"]
CTRL_IRIS = ["http://e/a\nb", "http://e/a\tb", "http://e/a\x00b", "http://e/a\rb"]
BNODES = ["x", "a", "b1", "N0a", "a.b", "a-b", "x_1", "1", "N9f8c", "\u00fc", "true", "http://e/a"]
BAD_BNODES = ["x y", "", "a:b", "x.", "?x"]
VARS = ["x", "a", "v1", "?x", "??x", "x_1", "\u00fc", "$x", "http://e/a", "1"]


def _tail(rng):
    """endings that stress the quoting: runs of quotes, backslashes then quotes, quotes then backslashes"""
    r = rng.random()
    q, b = '"' * rng.randint(1, 8), "\\" * rng.randint(1, 4)
    if r < 0.4:
        return q
    if r < 0.65:
        return b + '"' * rng.randint(1, 4)
    if r < 0.85:
        return '"' * rng.randint(1, 4) + b
    return q + rng.choice(["a", "\r", " "]) + '"' * rng.randint(1, 5)


def _rand_lex(rng):
    n = rng.choice([0, 1, 1, 2, 2, 3, 4, 6, 9])
    s = "".join(rng.choice(ATOMS) for _ in range(n))
    if rng.random() < 0.18:
        # multi-line (long-quoted) two times out of three
        s = (rng.choice(["\n", "a\nb", "\n\n", "\r\n"]) if rng.random() < 0.67 else "") + s + _tail(rng)
    return s


def _gen_lit(rng):
    r = rng.random()
    if r < 0.30:
        return {"k": "lit", "lex": _rand_lex(rng), "dt": None, "lang": None, "nn": False}
    if r < 0.40:
        return {"k": "lit", "lex": _rand_lex(rng), "dt": None, "lang": rng.choice(LANGS), "nn": False}
    if r < 0.42:   # constructor glue: ill-formed tags, tag and datatype together
        if rng.random() < 0.7:
            return {"k": "lit", "lex": _rand_lex(rng), "dt": None, "lang": rng.choice(BAD_LANGS), "nn": False}
        return {"k": "lit", "lex": _rand_lex(rng), "dt": rng.choice(CUSTOM_DT), "lang": rng.choice(LANGS + [""]), "nn": True}
    if r < 0.52:
        p_ = rng.random()
        # (an empty datatype IRI is accepted by the constructor: a falsy URIRef that is not None)
        dt = rng.choice(CUSTOM_DT + [XSD + "string"]) if p_ < 0.90 else "" if p_ < 0.95 else rng.choice(BAD_DT)
        return {"k": "lit", "lex": _rand_lex(rng), "dt": dt, "lang": None, "nn": rng.random() < 0.3}
    if r < 0.94:
        name = rng.choice(list(LEX))
        lex = rng.choice(LEX[name]) if rng.random() < 0.9 else _rand_lex(rng)
        return {"k": "lit", "lex": lex, "dt": XSD + name, "lang": None, "nn": rng.random() < 0.4}
    name = rng.choice(list(RDF_LEX))
    return {"k": "lit", "lex": rng.choice(RDF_LEX[name]), "dt": RDFNS + name, "lang": None, "nn": rng.random() < 0.4}


def _gen_retyped(rng):
    """a literal built from ANOTHER Literal: Literal(Literal(lex[, lang]), datatype=dt) — no lexical-to-value check
    is made on this path for an invalid form (value None, ill_typed None), and the lexical form is kept as it is"""
    name = rng.choice(list(LEX))
    lex = rng.choice(LEX[name] + ["abc", "", "1", "01", "1.5", "true"]) if rng.random() < 0.85 else _rand_lex(rng)
    dt = rng.choice([XSD + name, XSD + name, XSD + rng.choice(["integer", "double", "decimal", "unsignedByte"]),
                     None, rng.choice(CUSTOM_DT), rng.choice(CUSTOM_DT + [""])])
    lang = rng.choice(LANGS) if rng.random() < 0.25 else None
    if rng.random() < 0.08:     # a datatyped literal whose datatype is falsy (the empty IRI) re-made into a language-tagged one
        return {"k": "lit", "lex": lex, "dt": "", "lang": rng.choice(LANGS), "nn": False, "re": "lang"}
    if lang and dt is not None and rng.random() < (0.4 if dt else 0.8):
        return {"k": "lit", "lex": lex, "dt": dt, "lang": lang, "nn": False, "re": "lang"}
    if dt is not None and rng.random() < 0.35:
        # copy construction Literal(Literal(lex, datatype=dt)): datatype and value are copied, `ill_typed` is not
        return {"k": "lit", "lex": lex, "dt": dt, "lang": None, "nn": False, "re": "copy"}
    return {"k": "lit", "lex": lex, "dt": dt, "lang": lang, "nn": False, "re": True}


NUMERIC_NAMES = ["integer", "decimal", "double", "float", "unsignedByte", "long", "nonNegativeInteger"]
ILL_NUMERIC = ["abc", "1.5.2", "", "x1", "2abc", "1,5", "--1", "0x10", "ten"]


def _retyped_sibling(rng, t):
    """another literal from the same constructor route and numeric datatype with another ill-formed lexical form
    (both have `value None, ill_typed None`: the ordering of such a pair is what the numeric fast path must not break)"""
    t2 = dict(t)
    t2["lex"] = rng.choice([x for x in ILL_NUMERIC if x != t["lex"]])
    if rng.random() < 0.3:
        t2["dt"] = XSD + rng.choice(NUMERIC_NAMES)
    return t2


PY_VALUES = [["int", "0"], ["int", "5"], ["int", "-7"], ["bool", "True"], ["bool", "False"], ["float", "1.5"], ["float", "0.0"],
             ["float", "inf"], ["float", "nan"], ["decimal", "1.10"], ["decimal", "0"], ["str", ""], ["str", "a\nb\""],
             ["datetime", "2001-10-26T21:32:52+02:00"], ["datetime", "2001-10-26T21:32:52"], ["date", "2001-10-26"],
             ["time", "21:32:52"], ["bytes", "ab"], ["bytes", "\u00e9"]]


def _gen_route(rng):
    """terms built through the other parameters / operand classes of the constructors (surface audit):
    Literal from a Python value, from bytes, from a str subclass, datatype given as a URIRef object or a Literal;
    URIRef(value, base=…); BNode(_sn_gen=…, _prefix=…)"""
    r = rng.random()
    if r < 0.35:
        t = {"k": "lit", "lex": "", "dt": None, "lang": None, "nn": False, "py": rng.choice(PY_VALUES)}
        if rng.random() < 0.2:
            t["dt"] = rng.choice([XSD + "integer", XSD + "string", XSD + "double", "http://e/dt"])
        return t
    if r < 0.6:
        t = _gen_lit(rng)
        t["via"] = rng.choice(["bytes", "strsub", "dtobj", "dtlit", "normtrue", "langempty"])
        return t
    if r < 0.8:
        return {"k": "iri", "s": rng.choice(["a", "../b", "#f", "c?d=1", "", "http://e/abs", "x/y#"]),
                "base": rng.choice(["http://e/dir/doc", "http://e/", "http://e/a#frag", "urn:x:y"])}
    return {"k": "bnode", "s": "", "gen": rng.choice(["42", "0", "abc"]), "prefix": rng.choice(["N", "b", ""]),
            "genkind": rng.choice(["fn", "fn-generator", "generator"])}


def _gen_term(rng, p_route=0.0):
    r = rng.random()
    if rng.random() < p_route:
        return _gen_route(rng)
    if r > 0.93:
        return _gen_retyped(rng)
    if r < 0.16:
        p = rng.random()
        s = rng.choice(IRIS) if p < 0.86 else rng.choice(BAD_IRIS) if p < 0.95 else rng.choice(CTRL_IRIS)
        return {"k": "iri", "s": s}
    if r < 0.20:
        return {"k": rng.choice(["genid", "rgenid"]), "s": rng.choice(IRIS[:14])}
    if r < 0.30:
        return {"k": "bnode", "s": rng.choice(BNODES) if rng.random() < 0.9 else rng.choice(BAD_BNODES)}
    if r < 0.37:
        return {"k": "var", "s": rng.choice(VARS)}
    return _gen_lit(rng)


def _variant(rng, t):
    """a look-alike of t: same string in another kind, other case of the language tag, other datatype,
    other normalisation, a neighbouring lexical form"""
    t = dict(t)
    if t["k"] != "lit":
        r = rng.random()
        if r < 0.5:
            t["k"] = rng.choice(["iri", "genid", "rgenid", "bnode", "var"])
            if t["k"] == "var" and not t["s"]:
                t["s"] = "x"
        elif r < 0.75:
            return {"k": "lit", "lex": t["s"], "dt": rng.choice([None, XSD + "string", XSD + "anyURI"]), "lang": None, "nn": False}
        else:
            t["s"] = t["s"] + rng.choice(["", "a", "\u00e9", "0"])
        return t
    r = rng.random()
    if r < 0.2 and t["lang"]:
        t["lang"] = rng.choice([t["lang"].lower(), t["lang"].upper(), t["lang"].title(), "fr"])
    elif r < 0.35:
        t["nn"] = not t["nn"]
    elif r < 0.5:
        if t["dt"] is None and t["lang"] is None:
            t["dt"] = XSD + "string"
        elif t["dt"] == XSD + "string":
            t["dt"] = None
        elif t["dt"] and t["dt"].startswith(XSD):
            t["dt"] = XSD + rng.choice(list(LEX))
        else:
            t["dt"], t["lang"] = None, rng.choice(LANGS)
    elif r < 0.6:
        return {"k": rng.choice(["iri", "bnode", "var"]), "s": t["lex"] or "x"}
    elif r < 0.8 and t["dt"] and t["dt"].startswith(XSD) and t["dt"][len(XSD):] in LEX:
        t["lex"] = rng.choice(LEX[t["dt"][len(XSD):]])
    elif r < 0.9:
        t["lex"] = t["lex"] + rng.choice(ATOMS)
    else:
        t["lex"] = rng.choice(ATOMS) + t["lex"]
    return t


FAMILY_POOLS = {
    "numeric": [("1", "integer"), ("01", "integer"), ("1.0", "decimal"), ("1.0", "double"), ("1E0", "double"), ("1", "unsignedByte"),
                ("2", "unsignedByte"), ("1.5", "decimal"), ("1.50", "decimal"), ("-1", "long"), ("INF", "double"), ("-INF", "float"),
                ("10", "nonNegativeInteger"), ("9", "unsignedShort"), ("1e1", "double"), ("0.1", "double"), ("0.1", "decimal"),
                ("0.1", "float"), ("-0.0", "double"), ("0", "integer"), ("99999999999999999999", "integer"), ("1e400", "double"),
                ("Infinity", "decimal"), ("3", "positiveInteger"), ("abc", "integer"), ("5x", "integer"), ("", "decimal")],
    "dateTime": [("2001-10-26T21:32:52", "dateTime"), ("2001-10-26T21:32:52Z", "dateTime"), ("2001-10-26T23:32:52+02:00", "dateTime"),
                 ("2001-10-26T21:32:52+02:00", "dateTime"), ("2001-10-26T19:32:52Z", "dateTime"), ("2001-10-26T21:32:52.12679", "dateTime"),
                 ("2001-10-27T00:00:00", "dateTime"), ("2001-10-26T24:00:00", "dateTime"), ("1999-12-31T23:59:59-05:00", "dateTime"),
                 ("2000-01-01T04:59:59Z", "dateTime"), ("abc", "dateTime"), ("2001-10-26 21:32:52", "dateTime")],
    "date": [("2001-10-26", "date"), ("2001-10-27", "date"), ("2001-10-26Z", "date"), ("2001-10-26+02:00", "date"), ("1999-01-01", "date"),
             ("abc", "date"), ("2001-1-1", "date"), ("2001", "gYear"), ("2002", "gYear"), ("2001-10", "gYearMonth")],
    "boolean": [("true", "boolean"), ("false", "boolean"), ("1", "boolean"), ("0", "boolean"), ("TRUE", "boolean"), ("abc", "boolean")],
    "string": [("a", None), ("a", "string"), ("b", None), ("A", "string"), ("", None), ("", "string"), ("a b", "token"), (" a  b ", "token"),
               ("a\tb", "normalizedString"), ("a b", "normalizedString"), ("ab", None), ("http://x", "anyURI"), ("http://y", "anyURI")],
    "time": [("21:32:52", "time"), ("21:32:52Z", "time"), ("23:32:52+02:00", "time"), ("21:32:52+02:00", "time"), ("19:32:52Z", "time"),
             ("21:32:52.5", "time"), ("00:00:00", "time"), ("24:00:00", "time"), ("01:00:00-05:00", "time"), ("06:00:00Z", "time"), ("abc", "time")],
    "duration": [("P1D", "duration"), ("PT24H", "duration"), ("PT1440M", "duration"), ("P30D", "duration"), ("-P1D", "duration"), ("PT0S", "duration"),
                 ("P1Y", "duration"), ("P12M", "duration"), ("P13M", "duration"), ("P1M", "duration"), ("P1Y2M3DT4H5M6S", "duration"), ("abc", "duration"),
                 ("P1D", "dayTimeDuration"), ("PT24H", "dayTimeDuration"), ("PT25H", "dayTimeDuration"), ("PT1S", "dayTimeDuration"),
                 ("P1Y", "yearMonthDuration"), ("P12M", "yearMonthDuration"), ("P13M", "yearMonthDuration"), ("-P1Y", "yearMonthDuration")],
    "binary": [("0FB7", "hexBinary"), ("0fb7", "hexBinary"), ("0FB8", "hexBinary"), ("", "hexBinary"), ("0F", "hexBinary"), ("FF", "hexBinary"), ("xyz", "hexBinary"),
               ("AAEC", "base64Binary"), ("AAE=", "base64Binary"), ("AAED", "base64Binary"), ("", "base64Binary"), ("/w==", "base64Binary"), ("!!!", "base64Binary")],
    "illtyped": [("abc", "integer"), ("abd", "integer"), ("", "integer"), ("5x", "integer"), ("x", "http://e/dt"), ("y", "http://e/dt"),
                 ("xy", "http://e/dt"), ("abc", "dateTime"), ("abd", "dateTime")],
}


def _gen_family(rng):
    """three to four literals of ONE value family (numeric tower across datatypes, date-times naive and aware, dates,
    booleans, strings with and without tags, ill-typed forms of one datatype): pairs and triples inside a family"""
    fam = rng.choice(list(FAMILY_POOLS))
    pool = FAMILY_POOLS[fam]
    out = []
    for lex, name in (rng.choice(pool) for _ in range(rng.choice([3, 3, 4]))):
        dt = None if name is None else (name if ":" in name else XSD + name)
        lang = rng.choice(LANGS[:5]) if fam == "string" and name is None and rng.random() < 0.4 else None
        out.append({"k": "lit", "lex": lex, "dt": dt, "lang": lang, "nn": rng.random() < 0.5})
    return out


HIST_NS = ["http://e/", "http://other/e/", "http://e/ns/", "http://e/dt#", "urn:x:"]
HIST_PFX = ["ex", "n", "dt", "p2", "xsd", "schema"]


def _gen_hist(rng):
    """[op…]; op = ["rt"] | ["bind", prefix, namespace, override, replace] | ["second", prefix, namespace] (a second
    NamespaceManager on the same graph binds, with replace=True; later round trips go through BOTH managers)"""
    ops = [["rt"]]
    for _ in range(rng.choice([1, 2, 2, 3, 4])):
        if rng.random() < 0.2:
            ops.append(["second", rng.choice(HIST_PFX[:3]), rng.choice(HIST_NS)])
        else:
            ops.append(["bind", rng.choice(HIST_PFX), rng.choice(HIST_NS), rng.random() < 0.8, rng.random() < 0.7])
        ops.append(["rt"])
    return ops


def _hist_terms(ts):
    """IRIs and literals with a datatype in every namespace of the histories, plus the case's own IRIs / datatyped literals"""
    out = []
    for ns in HIST_NS:
        out += [URIRef(ns + "thing"), Literal("5", datatype=URIRef(ns + "metres"))]
    out += [t for t in ts if isinstance(t, URIRef) or (isinstance(t, Literal) and t.datatype is not None)][:3]
    # (a literal whose text `_literal_n3` respells is finding K5, observed by the other text oracles: not part of this stream)
    return [t for t in out if _text_in_scope(t) and (not isinstance(t, URIRef) or not any(c in str(t) for c in INVALID))
            and not (isinstance(t, Literal) and _respelt(t))]


def _hist_run(case, ts):
    """replays the history with a fresh graph; one record per (round trip, manager, term):
    (step, which manager, term, text written or exception, bindings at that moment, what from_n3 read or exception)"""
    from rdflib.namespace import NamespaceManager
    g = Graph()
    managers = [("first", g.namespace_manager)]
    g.namespace_manager.bind("ex", HIST_NS[0])
    g.namespace_manager.bind("n", HIST_NS[2])
    terms = _hist_terms(ts)
    out = []
    old = rdflib.NORMALIZE_LITERALS
    rdflib.NORMALIZE_LITERALS = False
    try:
        for n, op in enumerate(case.get("hist") or []):
            if op[0] == "bind":
                _try(lambda: managers[0][1].bind(op[1], op[2], override=op[3], replace=op[4]))
            elif op[0] == "second":
                if len(managers) == 1:
                    managers.append(("second", NamespaceManager(g)))
                _try(lambda: managers[1][1].bind(op[1], op[2], replace=True))
            else:
                for name, m in managers:
                    tbl = [(p, str(ns)) for p, ns in m.namespaces()]
                    for t in terms:
                        text = _try(lambda: t.n3(m))
                        back = text if isinstance(text, Exception) else _try(lambda: from_n3(text, nsm=m))
                        out.append((n, name, t, text, tbl, back))
    finally:
        rdflib.NORMALIZE_LITERALS = old
    return out


ENVS = ["nonorm", "dawg", "bind"]


def gen_case(rng, tier, i):
    thorough = tier != "quick"
    p_route = 0.10 if thorough else 0.05
    n = rng.choice([3, 3, 4, 5, 6, 7])
    terms = [_gen_term(rng, p_route)]
    while len(terms) < n:
        if rng.random() < 0.55:
            terms.append(_variant(rng, rng.choice(terms)))
        else:
            terms.append(_gen_term(rng, p_route))
    # the literal-from-literal route in the ordering stream: ill-formed numeric forms in pairs, next to numeric literals
    if rng.random() < (0.10 if thorough else 0.06):
        base = {"k": "lit", "lex": rng.choice(ILL_NUMERIC), "dt": XSD + rng.choice(NUMERIC_NAMES), "lang": None, "nn": False,
                "re": rng.choice([True, "copy"])}
        extra = [base, _retyped_sibling(rng, base),
                 {"k": "lit", "lex": rng.choice(["5", "10", "1.5", "-3"]), "dt": XSD + rng.choice(["integer", "decimal"]), "lang": None, "nn": False}]
        terms = (terms + extra)[-7:] if len(terms) + 3 > 7 else terms + extra
        n = len(terms)
    # round g: a cluster of one value family (the ordering inside a family is an order by value: pairs and triples)
    if rng.random() < (0.30 if thorough else 0.22):
        extra = _gen_family(rng)
        terms = (terms + extra)[-7:] if len(terms) + len(extra) > 7 else terms + extra
        n = len(terms)
    rng.shuffle(terms)
    p1 = list(range(n)); rng.shuffle(p1)
    p2 = list(range(n)); rng.shuffle(p2)
    case = {"terms": terms, "p1": p1, "p2": p2, "nsm": rng.choice(["custom", "rebind", "only"]),
            "delims": [[rng.randrange(len(DELIMS)), rng.random() < 0.35] for _ in range(3 if thorough else 2)],
            "par": 7 if thorough else 2}
    # histories of ONE namespace manager: bind / re-bind with replace / override / a second manager on the same store,
    # a write-and-read round trip of the terms after every step (what was read before must not be remembered)
    if rng.random() < (0.25 if thorough else 0.18):
        case["hist"] = _gen_hist(rng)
    # process-level state (surface audit): the module flags and a datatype registered with term.bind()
    if rng.random() < (0.30 if thorough else 0.12):
        case["env"] = rng.choice(ENVS)
        if case["env"] == "bind":
            for t in terms:
                if t["k"] == "lit" and t.get("dt") and not t.get("py") and rng.random() < 0.6:
                    t["dt"], t["lex"] = BOUND_DT, rng.choice(["0A", "a", "ff", "zz", "", "0a"])
    return case


BOUND_DT = "http://e/dt#code"


class Hex:
    """value type registered for BOUND_DT by the `bind` environment (hexadecimal numbers, normal form lower-case)"""

    def __init__(self, s):
        self.v = int(s, 16)

    def __eq__(self, o):
        return isinstance(o, Hex) and self.v == o.v

    def __hash__(self):
        return hash(self.v)

    def __gt__(self, o):
        return self.v > o.v

    def __lt__(self, o):
        return self.v < o.v


class _Env:
    """process-level state a case runs under; always restored"""

    def __init__(self, case):
        self.kind = case.get("env")

    def __enter__(self):
        self.old = (rdflib.NORMALIZE_LITERALS, rdflib.DAWG_LITERAL_COLLATION)
        if self.kind == "nonorm":
            rdflib.NORMALIZE_LITERALS = False
        elif self.kind == "dawg":
            rdflib.DAWG_LITERAL_COLLATION = True
        elif self.kind == "bind":
            T.bind(URIRef(BOUND_DT), Hex, constructor=Hex, lexicalizer=lambda h: format(h.v, "x"), datatype_specific=True)
        return self

    def __exit__(self, *a):
        rdflib.NORMALIZE_LITERALS, rdflib.DAWG_LITERAL_COLLATION = self.old
        if self.kind == "bind":
            T._reset_bindings()
        return False


def _with_env(f):
    def g(case, *a):
        with _Env(case):
            return f(case, *a)
    g.__name__ = f.__name__
    g.__doc__ = f.__doc__
    return g


# ------------------------------------------------------------------ namespace managers, node picklers


# (what follows the term, Turtle/SPARQL statement around `{T}`): the term is followed directly by the delimiter
DELIMS = [(" .", "<urn:s> <urn:p> {T} ."), (";", "<urn:s> <urn:p> {T}; <urn:q> <urn:o> ."),
          (",", "<urn:s> <urn:p> {T}, <urn:o2> ."), (")", "<urn:s> <urn:p> ({T}) ."),
          (".", "<urn:s> <urn:p> {T}."), ("\n", "<urn:s> <urn:p> {T}\n ."), (" ;", "<urn:s> <urn:p> {T} ; <urn:q> {T} .")]


_NSM_CACHE = {}


def _make_nsm(kind):
    """one manager per configuration and process, re-used across calls and cases (as applications do)"""
    if kind not in _NSM_CACHE:
        _NSM_CACHE[kind] = _make_nsm_new(kind)
    return _NSM_CACHE[kind]


def _default_nsm():
    if "default" not in _NSM_CACHE:
        _NSM_CACHE["default"] = Graph().namespace_manager
    return _NSM_CACHE["default"]


def _make_nsm_new(kind):
    """custom: the default manager plus own prefixes; rebind: default prefixes (schema, owl, xsd) re-bound to other
    namespaces; only: nothing bound but what is bound here (prefixes known only to the manager handed to from_n3)"""
    from rdflib.namespace import NamespaceManager
    if kind == "only":
        nsm = NamespaceManager(Graph(), bind_namespaces="none")
        nsm.bind("x", XSD)
        nsm.bind("sdo", "http://schema.org/")
    else:
        nsm = Graph().namespace_manager
    nsm.bind("ex", "http://e/")
    nsm.bind("dt", "http://e/dt#")
    nsm.bind("n", "http://e/ns/")
    if kind == "rebind":
        nsm.bind("schema", "http://schema.org/", override=True, replace=True)
        nsm.bind("owl", "http://e/ns/", override=True, replace=True)
        nsm.bind("xsd", "http://e/dt#", override=True, replace=True)
    return nsm


class SubURIRef(URIRef):
    """a user-defined subclass, as applications make them (pickled by reference: module c07)"""
    __slots__ = ()


class SubBNode(BNode):
    __slots__ = ()


class SubLiteral(Literal):
    __slots__ = ()


class SubVariable(Variable):
    __slots__ = ()


def _twins(t):
    """the same term as an instance of a user-defined subclass of its class"""
    if type(t) is URIRef:
        return [SubURIRef(str(t))]
    if type(t) is BNode:
        return [SubBNode(str(t))]
    if type(t) is Variable:
        return [SubVariable(str(t))]
    if type(t) is Literal:
        r = _try(lambda: SubLiteral(str(t), lang=t.language, datatype=t.datatype, normalize=False))
        return [] if isinstance(r, Exception) or str(r) != str(t) else [r]
    return []


def _picklers():
    """the ways a store's NodePickler is used: fresh; with exactly the registrations Store.node_pickler makes (the BASE
    classes only, so subclass instances go through a pickler that knows their base class but not their class);
    the node_pickler of a real store; and a registered pickler after it was itself pickled / deep-copied"""
    from rdflib.graph import QuotedGraph
    from rdflib.plugins.stores.memory import Memory
    fresh = NodePickler()
    reg = NodePickler()
    for obj, key in ((URIRef, "U"), (BNode, "B"), (Literal, "L"), (Graph, "G"), (QuotedGraph, "Q"), (Variable, "V")):
        reg.register(obj, key)
    store_np = _try(lambda: Memory().node_pickler)
    out = [("fresh", fresh, fresh), ("registered", reg, reg), ("store", store_np, store_np)]
    for name, f in (("pickled", lambda: pickle.loads(pickle.dumps(reg))), ("deepcopied", lambda: copy.deepcopy(reg))):
        r = _try(f)
        out.append((name, reg, r))
    return out


# ------------------------------------------------------------------ building and describing terms


def _py_value(typ, text):
    import datetime
    import decimal
    if typ == "int":
        return int(text)
    if typ == "bool":
        return text == "True"
    if typ == "float":
        return float(text)
    if typ == "decimal":
        return decimal.Decimal(text)
    if typ == "datetime":
        return datetime.datetime.fromisoformat(text)
    if typ == "date":
        return datetime.date.fromisoformat(text)
    if typ == "time":
        return datetime.time.fromisoformat(text)
    if typ == "bytes":
        return text.encode("utf-8")
    return text


class StrSub(str):
    """a plain str subclass used as the lexical argument"""


def build(t):
    k = t["k"]
    if k == "lit" and t.get("py"):
        return Literal(_py_value(*t["py"]), datatype=t.get("dt"))
    if k == "lit" and t.get("via"):
        via, lex, dt, lang = t["via"], t["lex"], t.get("dt"), t.get("lang")
        nz = False if t.get("nn") else None
        if via == "bytes":
            return Literal(lex.encode("utf-8"), lang=lang, datatype=dt, normalize=nz)
        if via == "strsub":
            return Literal(StrSub(lex), lang=lang, datatype=dt, normalize=nz)
        if via == "dtobj":
            return Literal(lex, lang=lang, datatype=None if dt is None else URIRef(dt), normalize=nz)
        if via == "dtlit":
            return Literal(lex, lang=lang, datatype=None if dt is None else Literal(dt), normalize=nz)
        if via == "normtrue":
            return Literal(lex, lang=lang, datatype=dt, normalize=True)
        if via == "langempty":
            return Literal(lex, lang=lang if lang else "", datatype=dt, normalize=nz)
    if k == "iri" and t.get("base"):
        return URIRef(t["s"], base=t["base"])
    if k == "bnode" and t.get("gen") is not None:
        gk = t.get("genkind", "fn")
        if gk == "fn":                       # a callable that returns the id
            return BNode(_sn_gen=lambda: t["gen"], _prefix=t.get("prefix", "N"))
        g_ = (x for x in [t["gen"], "unused"])
        # a callable that returns a generator of ids / a generator of ids itself
        return BNode(_sn_gen=(lambda: g_) if gk == "fn-generator" else g_, _prefix=t.get("prefix", "N"))
    if k == "lit" and t.get("re") == "lang":   # a datatyped literal re-made into a language-tagged one
        return Literal(Literal(t["lex"], datatype=t.get("dt"), normalize=False), lang=t.get("lang"))
    if k == "lit" and t.get("re") == "copy":   # copy construction of a datatyped literal
        return Literal(Literal(t["lex"], datatype=t.get("dt"), normalize=False))
    if k == "lit" and t.get("re"):             # a plain / language-tagged literal re-typed
        return Literal(Literal(t["lex"], lang=t.get("lang")), datatype=t.get("dt"))
    if k == "lit":
        return Literal(t["lex"], lang=t.get("lang"), datatype=t.get("dt"), normalize=False if t.get("nn") else None)
    return CLS[k](t["s"])


def _cps(s):
    return "e" if s == "" else ",".join(str(ord(c)) for c in s)


def enc(x, fold_lang=False):
    """canonical one-token-per-field encoding of an rdflib term (also the driver's term syntax);
    fold_lang: language tags are case-insensitive — text readers may change their case"""
    if x is None:
        return "none"
    if isinstance(x, Literal):
        dt, lang = x.datatype, x.language
        if fold_lang and lang is not None:
            lang = lang.lower()
        return "L %s %s %s" % (_cps(str(x)), "-" if dt is None else _cps(str(dt)), "-" if lang is None else _cps(lang))
    k = CLS_REV.get(type(x))
    if k is None:
        return "other:" + type(x).__name__
    return "%s %s" % ({"iri": "I", "genid": "G", "rgenid": "R", "bnode": "B", "var": "V"}[k], _cps(str(x)))


def _scalar(s):
    return all(not (0xD800 <= ord(c) <= 0xDFFF) for c in s)


def _is_nan_lit(x):
    v = getattr(x, "value", None)
    try:
        return v is not None and v != v
    except Exception:
        return True


def _same(p, t, exact_lang=True):
    """p is the same term as t: same class, ==, and identical lexical form / datatype / language"""
    if type(p) is not type(t) or not (p == t) or str(p) != str(t):
        return False
    if isinstance(t, Literal):
        if p.datatype != t.datatype or (p.datatype is None) != (t.datatype is None):
            return False
        if exact_lang:
            return p.language == t.language
        return (p.language or "").lower() == (t.language or "").lower()
    return True


def _covered(a, b):
    """the model's </> covers the pair: not two literals whose comparison can reach a typed (non-str) value"""
    if not (isinstance(a, Literal) and isinstance(b, Literal)):
        return True
    if rdflib.DAWG_LITERAL_COLLATION:
        return False     # that mode makes literals of different datatypes incomparable on purpose
    for x in (a, b):
        if x.value is not None and not (x.datatype is None or str(x.datatype) == XSD + "string"):
            return False
        if x.value is not None and x.value != str(x):
            return False
    return True


# ------------------------------------------------------------------ typed values (round g): what crosses to the model

import datetime as _dtm  # noqa: E402
import decimal as _dec  # noqa: E402

from rdflib.xsd_datetime import Duration as _Duration  # noqa: E402

_EPOCH = _dtm.datetime(1, 1, 1)
_US = _dtm.timedelta(microseconds=1)


def _vcode(v):
    """the value of a literal as the driver reads it; `o` = a value of a Python type the model does not carry"""
    if v is None:
        return "-"
    if type(v) is bool:
        return "b:1" if v else "b:0"
    if type(v) is int:
        return "n:%d/1" % v
    if type(v) is float:
        if v != v:
            return "nan"
        if v in (float("inf"), float("-inf")):
            return "pinf" if v > 0 else "ninf"
        p, q = v.as_integer_ratio()
        return "n:%d/%d" % (p, q)
    if type(v) is _dec.Decimal:
        if v.is_nan():
            return "o"      # comparisons of a Decimal NaN raise InvalidOperation: not carried (finding K3)
        if v.is_infinite():
            return "pinf" if v > 0 else "ninf"
        p, q = v.as_integer_ratio()
        return "n:%d/%d" % (p, q)
    if type(v) is str:
        return "s:" + _cps(v) if _scalar(v) else "o"
    if type(v) is _dtm.datetime:
        off = v.utcoffset()
        wall = (v.replace(tzinfo=None) - _EPOCH) // _US
        return "t:%d/%s" % (wall, "-" if off is None else str(off // _US))
    if type(v) is _dtm.date:
        return "d:%d" % v.toordinal()
    if type(v) is bytes:
        return "y:" + _cps(v.decode("latin-1"))
    if type(v) is _dtm.time:
        off = v.utcoffset()
        if off is not None and off % _dtm.timedelta(seconds=1):
            return "o"      # CPython ignores the sub-second part of an offset when it compares times
        wall = ((v.hour * 60 + v.minute) * 60 + v.second) * 1000000 + v.microsecond
        return "T:%d/%s" % (wall, "-" if off is None else str(off // _US))
    if type(v) is _dtm.timedelta:
        return "D:0/%d/0" % (v // _US)
    if type(v) is _Duration:
        m = v.years * 12 + v.months
        if m != int(m):
            return "o"
        return "D:%d/%d/1" % (int(m), v.tdelta // _US)
    return "o"


def _venc(t):
    """a literal with its value, as the driver reads it"""
    dt, lang = t.datatype, t.language
    return "%s %s %s %s %s" % (_cps(str(t)), "-" if dt is None else _cps(str(dt)), "-" if lang is None else _cps(lang),
                               _vcode(t.value), _b(bool(t.ill_typed)))


def _carried(t):
    return isinstance(t, Literal) and _scalar(str(t)) and (t.datatype is None or _scalar(str(t.datatype))) \
        and _vcode(t.value) != "o"


# the numeric datatypes of XML Schema (spec side of the numeric fast path; not read from rdflib)
NUMERIC_SPEC = {XSD + n for n in ("integer", "decimal", "double", "float", "byte", "int", "long", "negativeInteger",
                                  "nonNegativeInteger", "nonPositiveInteger", "positiveInteger", "short", "unsignedByte",
                                  "unsignedInt", "unsignedLong", "unsignedShort")}


def _vclass(v):
    """Python type class of a carried value: str | num | dtm | date | bytes | tim | tdelta; None for a NaN, a Duration
    (no order) or a type that is not carried"""
    c = _vcode(v)
    if c in ("-", "o", "nan"):
        return None
    if c[0] == "D" and c.endswith("/1"):
        return None      # a Duration has no order: in no family
    return {"s": "str", "b": "num", "n": "num", "p": "num", "t": "dtm", "d": "date", "y": "bytes", "T": "tim", "D": "tdelta"}[c[0]]


def _family(t):
    """the family of a literal in which its ordering must be an order by value (or by lexical form when there is no
    value): numeric | one datatype, one language, one value type | one datatype without values.  None = in no family."""
    if not isinstance(t, Literal) or _vcode(t.value) == "o":
        return None
    dt = None if t.datatype is None else str(t.datatype)
    lang = (t.language or "").lower()
    v = t.value
    if v is None:
        return ("lex", dt, lang) if dt is not None and dt != XSD + "string" else None
    c = _vclass(v)
    if c is None:
        return None
    if dt in NUMERIC_SPEC:
        return ("num",) if c == "num" and not t.ill_typed else None
    d = dt or XSD + "string"
    if d == XSD + "string" and v != str(t):
        return None
    return ("val", d, lang, c)


def _op(f):
    """0 | 1 | ! (TypeError) | X:<other exception>"""
    try:
        r = f()
    except TypeError:
        return "!"
    except Exception as e:  # noqa: BLE001
        return "X:" + type(e).__name__
    return _b(r)


def _six(a, b):
    return {"gt": _op(lambda: a > b), "lt": _op(lambda: a < b), "le": _op(lambda: a <= b), "ge": _op(lambda: a >= b),
            "eq": _op(lambda: a.eq(b)), "ne": _op(lambda: a.neq(b))}


def _weak_order(lits):
    """`<` on the list raises nothing and is a strict weak order (asymmetric, transitive, incomparability transitive):
    then every stable comparison sort gives the same list"""
    n = len(lits)
    lt = [[_op(lambda a=a, b=b: a < b) for b in lits] for a in lits]
    if any(x not in "01" for row in lt for x in row):
        return False
    L = [[x == "1" for x in row] for row in lt]
    for i in range(n):
        for j in range(n):
            if L[i][j] and L[j][i]:
                return False
            for k in range(n):
                if L[i][j] and L[j][k] and not L[i][k]:
                    return False
                if not (L[i][j] or L[j][i]) and not (L[j][k] or L[k][j]) and (L[i][k] or L[k][i]):
                    return False
    return not any(L[i][i] for i in range(n))


def _b(x):
    return "1" if x else "0"


def _try(f):
    try:
        return f()
    except Exception as e:  # noqa: BLE001
        return e


INVALID = '<>" {}|\\^`'   # the characters an IRI may not contain (spec side of the n3() guard; not read from rdflib)


def _absolute(s):
    i = s.find(":")
    return i > 0 and s[0].isalpha() and all(c.isalnum() or c in "+-." for c in s[:i]) and s[:i].isascii()


def _label_ok(s):
    """PN_CHARS-ish blank node label that Turtle and SPARQL accept verbatim"""
    if not s or s[-1] == "." or not s.isascii():
        return False
    return (s[0].isalnum() or s[0] == "_") and all(c.isalnum() or c in "_-." for c in s)


def _fixpoint(t):
    """the default constructor keeps the literal's lexical form (it is already normalised)"""
    try:
        r = Literal(str(t), lang=t.language, datatype=t.datatype)
    except Exception:  # noqa: BLE001
        return False
    return str(r) == str(t)


_SCRATCH = {}


def _scratch_graph():
    """an empty graph re-used for prefix-free parses and for evaluating queries"""
    g = _SCRATCH.get("g")
    if g is None:
        g = _SCRATCH["g"] = Graph()
    else:
        g.remove((None, None, None))
    return g


def _turtle(text):
    g = _scratch_graph()
    g.parse(data="<urn:s> <urn:p> %s ." % text, format="turtle")
    ts = list(g)
    return ts[0][2] if len(ts) == 1 else None


def _sparql(text):
    from rdflib.plugins.sparql.parser import parseQuery
    from rdflib.plugins.sparql.algebra import translateQuery
    q = translateQuery(parseQuery("SELECT ?x WHERE { VALUES ?x { %s } }" % text))
    rows = list(_scratch_graph().query(q))
    return rows[0][0] if len(rows) == 1 else None


@_with_env
def run_impl(case):
    terms_j = case["terms"]
    stats = {"terms": len(terms_j)}
    viol, obs = [], []
    ts = []
    for tj in terms_j:
        t = _try(lambda: build(tj))
        if isinstance(t, Exception):
            stats["ctor_" + type(t).__name__] = stats.get("ctor_" + type(t).__name__, 0) + 1
            t = None
        ts.append(t)
        k = tj["k"]
        stats["k_" + k] = stats.get("k_" + k, 0) + 1
        if tj.get("re"):
            stats["lit_retyped"] = stats.get("lit_retyped", 0) + 1
    ctor_viol = []
    for tj, t in zip(terms_j, ts):
        if tj["k"] == "bnode" and tj.get("gen") is not None:
            # BNode(_sn_gen=…, _prefix=…): the id comes from the callable / generator, behind the prefix
            if t is None or type(t) is not BNode or str(t) != tj.get("prefix", "N") + tj["gen"]:
                ctor_viol.append(f"ctor-route: BNode(_sn_gen={tj.get('genkind', 'fn')} giving {tj['gen']!r}, _prefix={tj.get('prefix')!r}) gives {t!r}")
        if tj["k"] == "lit" and tj.get("re") == "lang" and tj.get("lang") and re.fullmatch(r"[a-zA-Z]+(-[a-zA-Z0-9]+)*", tj["lang"]) \
                and _scalar(tj["lex"]):
            # Literal(Literal(lex, datatype=dt), lang=tag): a language-tagged string with that lexical form and no datatype
            inner = _try(lambda: Literal(tj["lex"], datatype=tj.get("dt"), normalize=False))
            if isinstance(inner, Exception):
                continue
            if t is None or t.language != tj["lang"] or t.datatype is not None or str(t) != str(inner):
                ctor_viol.append(f"ctor-route: Literal(Literal({tj['lex']!r}, datatype={tj.get('dt')!r}), lang={tj['lang']!r}) gives {t!r}")
    live = [(i, t) for i, t in enumerate(ts) if t is not None]
    kinds = {i: BASEKIND[terms_j[i]["k"]] for i, _ in live}
    nontrivial = False
    dawg = bool(rdflib.DAWG_LITERAL_COLLATION)
    stats["axis_env_" + str(case.get("env") or "default")] = 1
    for tj in terms_j:
        for f in ("py", "via", "base", "gen", "re"):
            if tj.get(f):
                key = "axis_ctor_" + f + ("_" + str(tj[f][0] if f == "py" else tj[f]) if f in ("py", "via", "re") else "")
                stats[key] = stats.get(key, 0) + 1

    involved = []

    def V(tag, msg, *idx):
        if len(viol) < 12:
            viol.append(f"{tag}: {msg}")
            involved.append(list(idx))

    for m_ in ctor_viol:
        V("ctor-route", m_.split(": ", 1)[1])

    # ---------------- pairs: ==, !=, hash, set/dict collapse, <, >
    for i, a in live:
        if not (a == a) or (a != a):
            V("eq-refl", f"{a!r} is not equal to itself")
        a2 = build(terms_j[i])
        if not (a == a2 and a2 == a) or hash(a) != hash(a2):
            V("eq-refl", f"two constructions of {a!r} differ in ==/hash")
        for j, b in live:
            e = _try(lambda: a == b)
            if isinstance(e, Exception):
                V("eq-exc", f"{a!r} == {b!r} raised {type(e).__name__}")
                continue
            if e != (b == a):
                V("eq-sym", f"{a!r} == {b!r} is {e} but the converse is {b == a}")
            if (a != b) == e:
                V("ne", f"{a!r} != {b!r} is not the negation of ==")
            ka, kb = kinds[i], kinds[j]
            if ka != kb and e:
                V("eq-kind", f"{a!r} == {b!r} although one is {ka} and the other {kb}")
            if ka == kb == "lit":
                want = (str(a) == str(b) and (None if a.datatype is None else str(a.datatype)) ==
                        (None if b.datatype is None else str(b.datatype))
                        and (a.language or "").lower() == (b.language or "").lower())
                if e != want:
                    V("eq-lit", f"{a!r} == {b!r} is {e}; lexical/datatype/lower(lang) equality is {want}")
            elif ka == kb and type(a) is type(b):
                if e != (str(a) == str(b)):
                    V("eq-str", f"{a!r} == {b!r} is {e}")
            if e:
                if i != j and terms_j[i] != terms_j[j]:
                    nontrivial = True
                stats["pairs_equal"] = stats.get("pairs_equal", 0) + 1
                if hash(a) != hash(b):
                    V("hash", f"{a!r} == {b!r} but the hashes differ")
            stats["pairs"] = stats.get("pairs", 0) + 1
            if len({a, b}) != (1 if e else 2) or ({a: 1}.get(b) == 1) != bool(e):
                V("set-collapse", f"{a!r}, {b!r}: == is {e} but set/dict disagree")
            # ordering (<= and >= of two literals are not part of the statement: not evaluated)
            both_lit = ka == kb == "lit"
            if both_lit and dawg:
                continue    # DAWG_LITERAL_COLLATION: literals of different datatypes are incomparable on purpose
            lt, gt = _try(lambda: a < b), _try(lambda: a > b)
            le, ge = (None, None) if both_lit else (_try(lambda: a <= b), _try(lambda: a >= b))
            exc = [x for x in (lt, gt, le, ge) if isinstance(x, Exception)]
            if exc:
                V("order-exc", f"comparing {a!r} with {b!r} raised {type(exc[0]).__name__}: {str(exc[0])[:80]}", i, j)
                continue
            if ka != kb:
                want = KIND_RANK[ka] < KIND_RANK[kb]
                if lt != want or gt != (not want) or le != want or ge != (not want):
                    V("kind-order", f"{a!r} vs {b!r}: expected {ka} {'<' if want else '>'} {kb}; got <:{lt} >:{gt} <=:{le} >=:{ge}", i, j)
            elif ka in ("iri", "bnode", "var") and type(a) is type(b):
                if lt != (str(a) < str(b)) or gt != (str(a) > str(b)) or le != (str(a) <= str(b)) or ge != (str(a) >= str(b)):
                    V("str-order", f"{a!r} vs {b!r} do not order as their strings", i, j)
            if e and (lt or gt):
                V("order-eq", f"{a!r} == {b!r} but <:{lt} >:{gt}", i, j)
            if e and not both_lit and not (le and ge):
                V("order-eq", f"{a!r} == {b!r} but <=:{le} >=:{ge}", i, j)
            if lt is True and _try(lambda: b < a) is True:
                V("order-asym", f"{a!r} < {b!r} and {b!r} < {a!r}", i, j)
            if lt is True and gt is True:
                V("order-asym", f"{a!r} is both < and > {b!r}", i, j)

    # ---------------- round g: the six operators of two literals against `eq`, and the order inside a family
    if not dawg:
        lits = [(i, t) for i, t in live if isinstance(t, Literal)]
        fams = {i: _try(lambda t=t: _family(t)) for i, t in lits}
        lt_ = {}
        for i, a in lits:
            for j, b in lits:
                o = _six(a, b)
                lt_[i, j] = o["lt"]
                bad = [k_ for k_, x in o.items() if x.startswith("X")]
                if bad:
                    V("order-exc", f"{a!r} {bad[0]} {b!r} raised {o[bad[0]][2:]}", i, j)
                    continue
                stats["vpairs"] = stats.get("vpairs", 0) + 1
                if o["eq"] in "01" and o["gt"] in "01" and o["lt"] in "01":
                    e, g, l = o["eq"] == "1", o["gt"] == "1", o["lt"] == "1"
                    want = {"lt": _b(not g and not e), "le": _b(l or e), "ge": _b(g or e), "ne": _b(not e)}
                    got = {k_: o[k_] for k_ in want}
                    if got != want:
                        V("ops-consistent", f"{a!r} vs {b!r}: eq={o['eq']} gt={o['gt']} but {got} (expected {want})", i, j)
                # the documented rules of `Literal.__gt__` between classes: different datatypes (plain = xsd:string) order as
                # their IRIs, one datatype with different tags orders untagged first, then as the lower-cased tags
                fast = all(x.datatype is not None and str(x.datatype) in NUMERIC_SPEC and x.value is not None and not x.ill_typed
                           for x in (a, b))
                da, db = (str(x.datatype) if x.datatype is not None else XSD + "string" for x in (a, b))
                la, lb = ((x.language or "").lower() for x in (a, b))
                if not fast and (da != db or la != lb):
                    wgt = (da > db) if da != db else (bool(la) and (not lb or la > lb))
                    wlt = (da < db) if da != db else (bool(lb) and (not la or lb > la))
                    stats["class_pairs"] = stats.get("class_pairs", 0) + 1
                    if o["gt"] != _b(wgt) or o["lt"] != _b(wlt):
                        V("class-order", f"{a!r} vs {b!r}: datatype IRI, then language tag, give >:{_b(wgt)} <:{_b(wlt)}; "
                                         f"got >:{o['gt']} <:{o['lt']}", i, j)
                # `eq` is equality in value space: one datatype (not a string type), one tag, both values carried
                if a.datatype is not None and a.datatype == b.datatype and str(a.datatype) != XSD + "string" and la == lb \
                        and a.value is not None and b.value is not None and _vcode(a.value) != "o" and _vcode(b.value) != "o":
                    stats["eq_value_pairs"] = stats.get("eq_value_pairs", 0) + 1
                    if o["eq"] != _b(a.value == b.value):
                        V("eq-value", f"{a!r}.eq({b!r}) is {o['eq']} but the values are {'' if a.value == b.value else 'not '}equal", i, j)
                f = fams[i]
                if f is None or isinstance(f, Exception) or fams[j] != f:
                    continue
                # inside a family of valued literals `<` is Python's `<` on the values; a naive date-time / time comes before an
                # aware one (the partition `_TOTAL_ORDER_CASTERS` is documented to make)
                if f[0] != "lex":
                    va, vb = a.value, b.value
                    try:
                        wlt = bool(va < vb)
                    except TypeError:
                        wlt = va.utcoffset() is None and vb.utcoffset() is not None
                    if o["lt"] != _b(wlt):
                        V("fam-value", f"{a!r} < {b!r} is {o['lt']} but the values order as {_b(wlt)} (family {f[0]})", i, j)
                stats["fam_pairs_" + f[0]] = stats.get("fam_pairs_" + f[0], 0) + 1
                back = _op(lambda: b < a)
                incomparable = o["lt"] == "0" and back == "0"
                if o["lt"] not in "01" or o["gt"] not in "01" or (o["lt"] == "1") != (_op(lambda: b > a) == "1") \
                        or (o["lt"] == "1" and back == "1") or (i == j and o["lt"] != "0") or incomparable != (o["eq"] == "1"):
                    V("fam-order", f"{a!r} vs {b!r} (family {f[0]}): lt={o['lt']} gt={o['gt']} eq={o['eq']} converse lt={back}", i, j)
                if a == b and _vcode(a.value) == _vcode(b.value) and not (o["eq"] == "1" and o["le"] == "1" and o["ge"] == "1"):
                    V("fam-order", f"{a!r} == {b!r} with the same value but eq={o['eq']} <=:{o['le']} >=:{o['ge']}", i, j)
        for i, a in lits:
            for j, b in lits:
                for k_, c in lits:
                    if fams[i] is not None and fams[i] == fams[j] == fams[k_] and not isinstance(fams[i], Exception):
                        stats["fam_triples"] = stats.get("fam_triples", 0) + 1
                        if lt_[i, j] == "1" and lt_[j, k_] == "1" and lt_[i, k_] != "1":
                            V("fam-trans", f"{a!r} < {b!r} < {c!r} but not first < third (family {fams[i][0]})", i, j, k_)

    # ---------------- equality and hashing with instances of user-defined subclasses (not ordering: `_ORDERING`
    #                  deliberately has no rank for unknown subclasses)
    for i, a in live:
        for w in _twins(a):
            stats["axis_twin_eq_pairs"] = stats.get("axis_twin_eq_pairs", 0) + 1
            w2 = _twins(a)[0]
            e1, e2 = _try(lambda: a == w), _try(lambda: w == a)
            if isinstance(e1, Exception) or isinstance(e2, Exception):
                V("eq-exc", f"{a!r} == {w!r} raised", i)
                continue
            if e1 != e2:
                V("eq-sym", f"{a!r} == {w!r} is {e1} but the converse is {e2}", i)
            if (a != w) == e1 or not (w == w2) or (w != w2):
                V("ne", f"{w!r}: != is not the negation of == / not equal to a second construction", i)
            if hash(w) != hash(w2) or (e1 and hash(a) != hash(w)):
                V("hash", f"{a!r} / {w!r}: equal but the hashes differ", i)
            if len({a, w}) != (1 if e1 else 2) or len({w, w2}) != 1:
                V("set-collapse", f"{a!r}, {w!r}: == is {e1} but a set disagrees", i)

    # ---------------- triples: transitivity of ==
    for i, a in live:
        for j, b in live:
            if a == b:
                for k_, c in live:
                    if b == c and not (a == c):
                        V("eq-trans", f"{a!r} == {b!r} == {c!r} but first != third")

    # ---------------- graph collapse (terms as objects)
    g = Graph()
    s_, p_ = URIRef("urn:s"), URIRef("urn:p")
    objs = [t for _i, t in live]
    for t in objs:
        g.add((s_, p_, t))
    classes = []
    for t in objs:
        if not any(t == c for c in classes):
            classes.append(t)
    if len(g) != len(classes):
        V("graph-collapse", f"graph holds {len(g)} triples for {len(classes)} distinct objects")

    # ---------------- sorted(): no error, kinds in order, reproducible
    if live:
        l1 = [ts[i] for i in case["p1"] if ts[i] is not None]
        l2 = [ts[i] for i in case["p2"] if ts[i] is not None]
        if dawg:   # keep one literal: the kinds still have to sort, literals among themselves need not
            keep = next((x for x in l1 if isinstance(x, Literal)), None)
            l1 = [x for x in l1 if not isinstance(x, Literal) or x is keep]
            l2 = [x for x in l2 if not isinstance(x, Literal) or x is keep]
        s1, s2 = _try(lambda: sorted(l1)), _try(lambda: sorted(l2))
        if isinstance(s1, Exception) or isinstance(s2, Exception):
            ex = s1 if isinstance(s1, Exception) else s2
            V("sort-exc", f"sorted({l1!r}) raised {type(ex).__name__}: {str(ex)[:80]}")
        else:
            def kind_of(x):
                return "lit" if isinstance(x, Literal) else BASEKIND[CLS_REV[type(x)]]
            for s in (s1, s2):
                ranks = [KIND_RANK[kind_of(x)] for x in s]
                if ranks != sorted(ranks):
                    V("sort-kind", f"sorted() does not group kinds as bnode < variable < IRI < literal: {s!r}")
                    break
                bad = False
                for x, y in zip(s, s[1:]):
                    if type(x) is type(y) and not isinstance(x, Literal) and str(x) > str(y):
                        V("sort-str", f"sorted() puts {x!r} before {y!r}")
                        bad = True
                        break
                if bad:
                    break
            lits = [x for x in s1 if isinstance(x, Literal)]
            # demanded when no two unequal literals of the list are incomparable (value-equal literals such as 1 / 1.0
            # are neither <, > nor == each other by design); a pair ordered by `>` only counts as ordered
            strict = _try(lambda: all((a == b) or (a < b) or (b < a) or (a > b) or (b > a) for a in lits for b in lits)) is True
            n1 = [x for x in s1 if not isinstance(x, Literal)]
            n2 = [x for x in s2 if not isinstance(x, Literal)]
            if len(n1) != len(n2) or any(not _same(x, y) for x, y in zip(n1, n2)):
                V("sort-repro", f"two shuffles of the same terms sort differently: {s1!r} vs {s2!r}")
            elif strict and (len(s1) != len(s2) or any(not (x == y) for x, y in zip(s1, s2))):
                V("sort-repro", f"two shuffles of the same terms sort differently: {s1!r} vs {s2!r}")
            stats["sort_strict_lits"] = stats.get("sort_strict_lits", 0) + int(strict and len(lits) > 1)

    # ---------------- per term: pickling, copying, n3 text
    picklers = _picklers()
    default_nsm = _default_nsm()
    parsed = 0
    nsm = _try(lambda: _make_nsm(case.get("nsm", "custom")))
    for i, t0 in live:
        # the term itself and, for the four base classes, a twin in a user-defined subclass
        for t in [t0] + _twins(t0):
            if t is not t0:
                stats["subclass_twins"] = stats.get("subclass_twins", 0) + 1
            routes = [("pickle%d" % pr, (lambda pr=pr: pickle.loads(pickle.dumps(t, pr)))) for pr in range(pickle.HIGHEST_PROTOCOL + 1)]
            stats["axis_pickle_protocols"] = stats.get("axis_pickle_protocols", 0) + len(routes)
            for name, f in routes + [("copy", lambda: copy.copy(t)), ("deepcopy", lambda: copy.deepcopy(t))]:
                p = _try(f)
                tag = "copy" if name in ("copy", "deepcopy") else "pickle"
                if isinstance(p, Exception):
                    V(tag, f"{name} of {t!r} raised {type(p).__name__}", i)
                elif not _same(p, t):
                    V(tag, f"{name} of {t!r} gives {p!r} (class {type(p).__name__})", i)
            for name, writer, reader in picklers:
                if isinstance(reader, Exception):
                    V("nodepickler", f"NodePickler ({name}) could not be made / restored: {type(reader).__name__}", i)
                    continue
                # bytes written by the pickler as it was, read by the (restored) pickler; and the restored one on its own
                for how, f in (("written before", lambda: reader.loads(writer.dumps(t))), ("own", lambda: reader.loads(reader.dumps(t)))):
                    p = _try(f)
                    if isinstance(p, Exception):
                        V("nodepickler", f"NodePickler ({name}, {how}) round trip of {t!r} raised {type(p).__name__}: {str(p)[:60]}", i)
                    elif not _same(p, t):
                        V("nodepickler", f"NodePickler ({name}, {how}) round trip of {t!r} gives {p!r} (class {type(p).__name__})", i)
                stats["nodepickler_roundtrips"] = stats.get("nodepickler_roundtrips", 0) + 2
        t = t0
        text = _try(lambda: t.n3())
        k = kinds[i]
        s = str(t)
        if isinstance(text, Exception):
            stats["n3_raises"] = stats.get("n3_raises", 0) + 1
            if not (k == "iri" and any(c in s for c in INVALID)):
                V("n3-guard", f"{t!r}.n3() raised {type(text).__name__}", i)
            continue
        if k == "iri" and any(c in s for c in INVALID):
            V("n3-guard", f"{t!r}.n3() accepted an IRI with a character of _invalid_uri_chars", i)
        if k == "lit":
            esc = any(c in s for c in "\"\\\n\r")
            stats["lit_needs_escape"] = stats.get("lit_needs_escape", 0) + int(esc)
            stats["lit_long_quoted"] = stats.get("lit_long_quoted", 0) + int("\n" in s)
            stats["lit_long_ends_in_quote"] = stats.get("lit_long_ends_in_quote", 0) + int("\n" in s and s.endswith('"'))
            stats["lit_long_ends_4plus_quotes"] = stats.get("lit_long_ends_4plus_quotes", 0) + int("\n" in s and s.endswith('""""'))
            nontrivial = nontrivial or esc
            dt = t.datatype
            stats["lit_recognised_dt"] = stats.get("lit_recognised_dt", 0) + int(dt is not None and dt in T._toPythonMapping)
            stats["lit_ill_typed"] = stats.get("lit_ill_typed", 0) + int(bool(t.ill_typed))
            stats["lit_nonnormal"] = stats.get("lit_nonnormal", 0) + int(not _fixpoint(t))
            stats["lit_lang"] = stats.get("lit_lang", 0) + int(t.language is not None)
        if not _text_in_scope(t):
            stats["dt_with_invalid_chars"] = stats.get("dt_with_invalid_chars", 0) + 1
            continue
        fix = (k != "lit") or _fixpoint(t)
        # the text formats cannot carry a Python subclass of URIRef: the term read back is the plain IRI
        want_t = URIRef(s) if k == "iri" else t

        def check(reader, r, relabel=False):
            if isinstance(r, Exception):
                V("n3-" + reader, f"{t!r}: n3() text {text!r} read by {reader} raised {type(r).__name__}: {str(r)[:60]}", i)
                return
            if relabel:
                if not isinstance(r, BNode):
                    V("n3-" + reader, f"{t!r}: n3() text {text!r} read by {reader} gives {r!r}", i)
                return
            if _same(r, want_t, exact_lang=False):
                return
            if k == "lit" and not fix:
                want = _try(lambda: Literal(str(t), lang=t.language, datatype=t.datatype))
                if not isinstance(want, Exception) and _same(r, want, exact_lang=False):
                    V("n3-norm", f"{t!r} (non-normalised lexical form): n3() text read by {reader} gives the normalised {r!r}", i)
                    return
            V("n3-" + reader, f"{t!r}: n3() text {text!r} read by {reader} gives {r!r}", i)

        check("from_n3", _try(lambda: from_n3(text)))
        # the same through a namespace manager on both sides (prefixed names for IRIs and datatypes)
        if not isinstance(nsm, Exception):
            qtext = _try(lambda: t.n3(nsm))
            if isinstance(qtext, Exception):
                V("n3-nsm", f"{t!r}.n3(namespace_manager) raised {type(qtext).__name__}: {str(qtext)[:60]}", i)
            else:
                if qtext != text:
                    stats["n3_prefixed"] = stats.get("n3_prefixed", 0) + 1
                    nontrivial = True
                save_text, text = text, qtext
                check("nsm", _try(lambda: from_n3(qtext, nsm=nsm)))
                stats["axis_n3_nsm_" + k] = stats.get("axis_n3_nsm_" + k, 0) + 1
                text = save_text
        # prefixes every manager knows (rdflib's defaults): from_n3 without a manager makes a default one
        if k in ("iri", "lit"):
            dtext = _try(lambda: t.n3(default_nsm))
            if not isinstance(dtext, Exception) and dtext != text:
                stats["axis_from_n3_default_nsm"] = stats.get("axis_from_n3_default_nsm", 0) + 1
                save_text, text = text, dtext
                check("nsm", _try(lambda: from_n3(dtext)))
                text = save_text
        raw = _raw_from_n3(text)
        if k == "lit" and not isinstance(raw, Exception) and not _same(raw, t, exact_lang=False) and not _respelt(t):
            # with normalisation switched off the reader must give back exactly the term
            V("n3-from_n3", f"{t!r}: n3() text {text!r} read by from_n3 with NORMALIZE_LITERALS=False gives {raw!r}", i)
        if k == "lit" or (k == "iri" and _absolute(s) and not any(ord(c) <= 0x20 for c in s)):
            check("turtle", _try(lambda: _turtle(text)))
            if parsed < case.get("par", 7):    # the SPARQL parser is slow: a per-case budget in the quick tier
                parsed += 1
                check("sparql", _try(lambda: _sparql(text)))
        elif k == "bnode" and _label_ok(s):
            check("turtle", _try(lambda: _turtle(text)), relabel=True)

    # ---------------- histories of a namespace manager: every round trip after every step gives the term back
    if case.get("hist"):
        for n, name, t, text, tbl, back in _hist_run(case, ts):
            stats["hist_roundtrips"] = stats.get("hist_roundtrips", 0) + 1
            stats["hist_prefixed"] = stats.get("hist_prefixed", 0) + int(not isinstance(text, Exception) and "<" not in text.split('"')[-1])
            want = URIRef(str(t)) if isinstance(t, URIRef) else t
            if isinstance(text, Exception) or isinstance(back, Exception):
                ex = text if isinstance(text, Exception) else back
                V("n3-nsm-hist", f"after step {n} of {case['hist']!r} ({name} manager): {t!r} written / read raised {type(ex).__name__}: {str(ex)[:60]}")
            elif not _same(back, want, exact_lang=False):
                V("n3-nsm-hist", f"after step {n} of {case['hist']!r} ({name} manager): {t!r} written {text!r} read back as {back!r}")

    # ---------------- observations compared with the Lean model
    for st in _steps(case, ts):
        o = _impl_obs(st, case, ts)
        obs.append(o)
        if st[0] in ("vcmp", "vsort", "msort") and not o.endswith(" -"):
            stats[st[0] + "_compared_with_model"] = stats.get(st[0] + "_compared_with_model", 0) + 1
            if st[0] == "vcmp" and ts[st[1]].value is not None and ts[st[2]].value is not None \
                    and not (isinstance(ts[st[1]].value, str) and isinstance(ts[st[2]].value, str)):
                stats["vcmp_typed_values"] = stats.get("vcmp_typed_values", 0) + 1
    return {"obs": obs, "viol": viol, "involved": involved, "nontrivial": nontrivial, "key": repr(terms_j), "stats": stats}


def _infnan(t):
    """_literal_n3 spells infinities and NaN of xsd:float/double/decimal as INF / NaN whatever the lexical form"""
    if t.datatype not in T._NUMERIC_INF_NAN_LITERAL_TYPES:
        return False
    try:
        v = float(t)
    except ValueError:
        return False
    return v != v or v in (float("inf"), float("-inf"))


def _respelt(t):
    """the INF / NaN respelling of `_literal_n3` changes the text of this literal: it is a float infinity / NaN of xsd:float /
    double / decimal spelled with `inf` / `Infinity` / `nan` (the canonical `INF`, `-INF`, `NaN` are left alone)"""
    if not _infnan(t):
        return False
    s = str(t)
    return "nan" in s if float(t) != float(t) else ("inf" in s or "Infinity" in s)


def _text_in_scope(t):
    """n3 text obligations: datatype IRIs are IRIs (no character of _invalid_uri_chars), only scalar values"""
    if isinstance(t, Literal) and t.datatype is not None and (any(c in str(t.datatype) for c in INVALID) or str(t.datatype) == ""):
        return False      # the datatype is not an IRI (the empty one is written as no datatype at all)
    return _scalar(str(t)) and (not isinstance(t, Literal) or t.datatype is None or _scalar(str(t.datatype)))


def _raw_from_n3(text):
    old = rdflib.NORMALIZE_LITERALS
    rdflib.NORMALIZE_LITERALS = False
    try:
        return _try(lambda: from_n3(text))
    finally:
        rdflib.NORMALIZE_LITERALS = old


def _build_all(case):
    out = []
    for tj in case["terms"]:
        t = _try(lambda: build(tj))
        out.append(None if isinstance(t, Exception) else t)
    return out


def _steps(case, ts):
    """the observation plan of a case (shared by run_impl and model_lines)"""
    live = [i for i, t in enumerate(ts) if t is not None and _scalar(str(t))
            and (not isinstance(t, Literal) or t.datatype is None or _scalar(str(t.datatype)))]
    st = []
    for i in live[:3]:
        for j in live[:3]:
            st.append(("cmp", i, j))
    for i in live:
        st += [("n3", i), ("rd", i), ("rt", i)]
        if isinstance(ts[i], (URIRef, Literal)):
            st.append(("rdq", i))
    dl = case.get("delims") or [[0, False]] * 3
    for n, i in enumerate([i for i in live if not isinstance(ts[i], Variable)][:len(dl)]):
        d, q = dl[n]
        st.append(("rdt", i, d, bool(q)))
    for i, tj in enumerate(case["terms"]):
        if tj["k"] == "lit" and _scalar(tj["lex"]) and _scalar(tj.get("dt") or "") and _scalar(tj.get("lang") or ""):
            st.append(("mk", i))
    st.append(("sort", [i for i in case["p1"] if i in live and not isinstance(ts[i], Literal)]))
    # round g: the six operators on pairs of literals WITH their values, and sorted() of the literals
    lits = [i for i in live if isinstance(ts[i], Literal)][:5]
    for i in lits:
        for j in lits:
            st.append(("vcmp", i, j))
    st.append(("vsort", [i for i in case["p1"] if i in live and isinstance(ts[i], Literal)]))
    st.append(("msort", [i for i in case["p1"] if i in live]))     # the whole mixed list, literals with their values
    if case.get("hist"):
        st.append(("hist",))
    return st


def _rdq(case, t):
    """(n3 text through the case's namespace manager, the manager), or None when out of scope"""
    nsm = _try(lambda: _make_nsm(case.get("nsm", "custom")))
    if isinstance(nsm, Exception) or not _text_in_scope(t):
        return None
    text = _try(lambda: t.n3(nsm))
    if isinstance(text, Exception) or not _scalar(text):
        return None
    if not all(_scalar(p) and _scalar(str(ns)) for p, ns in nsm.namespaces()):
        return None
    return text, nsm


def _rdt(case, t, d, q):
    """(term text, statement tail after the term, prefix table, manager) for the grammar-level reader tie"""
    nsm = None
    if q and isinstance(t, (URIRef, Literal)):
        r = _rdq(case, t)
        if r is None:
            return None
        text, nsm = r
    else:
        text = _try(lambda: t.n3())
        if isinstance(text, Exception) or not _text_in_scope(t) or not _scalar(text):
            return None
    if isinstance(t, BNode) and not _label_ok(str(t)):
        return None
    if isinstance(t, URIRef) and (not _absolute(str(t)) or any(ord(c) <= 0x20 for c in str(t))):
        return None
    stmt = DELIMS[d][1]
    tail = stmt.split("{T}", 1)[1]
    return text, stmt.replace("{T}", text), tail, nsm


def _obj_of(triples):
    from rdflib import RDF
    s_, p_ = URIRef("urn:s"), URIRef("urn:p")
    objs = [o for s, p, o in triples if s == s_ and p == p_ and o != URIRef("urn:o2")]
    if len(objs) != 1:
        return None
    o = objs[0]
    firsts = [x for s, p, x in triples if s == o and p == RDF.first]
    return firsts[0] if firsts else o


def _bgp_triples(x, out):
    if isinstance(x, dict):
        for k, v in x.items():
            if k == "triples":
                out.extend(v)
            else:
                _bgp_triples(v, out)
    elif isinstance(x, (list, tuple)):
        for v in x:
            _bgp_triples(v, out)


def _enc_read(r):
    if isinstance(r, Exception):
        return "exc"
    if r is None:
        return "none"
    return "B *" if isinstance(r, BNode) else enc(r, True)


def _rdt_impl(case, t, d, q):
    r = _rdt(case, t, d, q)
    if r is None:
        return "rdt -"
    text, stmt, tail, nsm = r
    pre_t = "" if nsm is None else "".join("@prefix %s: <%s> .\n" % (p, ns) for p, ns in nsm.namespaces())
    pre_s = "" if nsm is None else "".join("PREFIX %s: <%s>\n" % (p, ns) for p, ns in nsm.namespaces())
    old = rdflib.NORMALIZE_LITERALS
    rdflib.NORMALIZE_LITERALS = False
    try:
        def turtle():
            g = Graph() if pre_t else _scratch_graph()
            g.parse(data=pre_t + stmt, format="turtle")
            return _obj_of(list(g))

        def sparql():
            from rdflib.plugins.sparql.algebra import translateQuery
            from rdflib.plugins.sparql.parser import parseQuery
            qq = translateQuery(parseQuery(pre_s + "SELECT * { " + stmt + " }"))
            out = []
            _bgp_triples(qq.algebra, out)
            return _obj_of(out)
        a = _enc_read(_try(turtle))
        # K2: the SPARQL parser expands \uXXXX before tokenising — not what the grammar-level reader models
        b = "-" if _U_ESC.search(text) else _enc_read(_try(sparql))
    finally:
        rdflib.NORMALIZE_LITERALS = old
    return "rdt %s ## %s" % (a, b)


def _exc_name(e):
    return "error:" + (type(e).__name__ if type(e).__name__ in ("TypeError", "ValueError") else "Other")


def _mk_modelled(tj):
    """the model constructs without lexical normalisation (a parameter): comparable when rdflib does not normalise"""
    dt = tj.get("dt")
    if tj.get("re") or tj.get("py") or tj.get("via"):
        return False    # other constructor paths
    if rdflib.NORMALIZE_LITERALS is False:
        return True     # the `nonorm` environment: rdflib does not normalise either
    return bool(tj.get("nn")) or dt is None or URIRef(dt) not in T._toPythonMapping


def _impl_obs(st, case, ts):
    kind = st[0]
    if kind == "cmp":
        a, b = ts[st[1]], ts[st[2]]
        e = a == b
        heq = ("1" if hash(a) == hash(b) else "0") if e else "-"
        if _covered(a, b):
            lt, gt = _try(lambda: a < b), _try(lambda: a > b)
            lt = "!" if isinstance(lt, Exception) else _b(lt)
            gt = "!" if isinstance(gt, Exception) else _b(gt)
        else:
            lt = gt = "?"
        return f"eq={_b(e)} ne={_b(a != b)} heq={heq} lt={lt} gt={gt}"
    if kind == "n3":
        t = ts[st[1]]
        text = _try(lambda: t.n3())
        if isinstance(text, Exception):
            return "wr error"
        if not _text_in_scope(t) or not _scalar(text):
            return "wr -"
        # rdflib reads the model's text as it reads its own text (both with normalisation off); that
        # its own text gives back the term is the `n3-from_n3` oracle above
        raw = _raw_from_n3(text)
        return "wr " + (_exc_name(raw) if isinstance(raw, Exception) else enc(raw, True))
    if kind == "rd":
        t = ts[st[1]]
        text = _try(lambda: t.n3())
        if isinstance(text, Exception) or not _text_in_scope(t) or not _scalar(text):
            return "rd -"
        raw = _raw_from_n3(text)
        return "rd " + (_exc_name(raw) if isinstance(raw, Exception) else enc(raw, True))
    if kind == "rdq":
        q = _rdq(case, ts[st[1]])
        if q is None:
            return "rdq -"
        text, nsm = q
        old = rdflib.NORMALIZE_LITERALS
        rdflib.NORMALIZE_LITERALS = False
        try:
            raw = _try(lambda: from_n3(text, nsm=nsm))
        finally:
            rdflib.NORMALIZE_LITERALS = old
        return "rdq " + (_exc_name(raw) if isinstance(raw, Exception) else enc(raw, True))
    if kind == "rdt":
        return _rdt_impl(case, ts[st[1]], st[2], st[3])
    if kind == "rt":
        t = ts[st[1]]
        p = _try(lambda: pickle.loads(pickle.dumps(t)))
        return "rt " + (_exc_name(p) if isinstance(p, Exception) else enc(p))
    if kind == "mk":
        tj = case["terms"][st[1]]
        if not _mk_modelled(tj):
            return "mk -"
        t = _try(lambda: build(tj))
        return "mk " + (_exc_name(t) if isinstance(t, Exception) else enc(t))
    if kind == "sort":
        l = [ts[i] for i in st[1]]
        r = _try(lambda: sorted(l))
        return "sort " + ("!" if isinstance(r, Exception) else " ; ".join(enc(x) for x in r))
    if kind == "vcmp":
        a, b = ts[st[1]], ts[st[2]]
        if not _vcmp_modelled(a, b):
            return "vcmp -"
        return "vcmp " + " ".join("%s=%s" % kv for kv in _six(a, b).items())
    if kind == "vsort":
        l = [ts[i] for i in st[1]]
        if not _vsort_modelled(l):
            return "vsort -"
        return "vsort " + " ; ".join(enc(x) for x in sorted(l))
    if kind == "hist":
        return "hist " + " | ".join("exc" if isinstance(b, Exception) else enc(b, True) for b in _hist_reads(case, ts)[1])
    if kind == "msort":
        l = [ts[i] for i in st[1]]
        if not _msort_modelled(l):
            return "msort -"
        return "msort " + " ; ".join(enc(x) for x in sorted(l))
    raise AssertionError(kind)


def _hist_reads(case, ts):
    """the round trips of a history the model reader is asked about: (driver lines, what rdflib read)"""
    lines, reads = [], []
    for n, name, t, text, tbl, back in _hist_run(case, ts):
        if isinstance(text, Exception) or not _scalar(text) or not all(_scalar(p) and _scalar(ns) for p, ns in tbl):
            continue
        lines.append("rdq 0 " + _cps(text) + "".join(" %s %s" % (_cps(p), _cps(ns)) for p, ns in tbl))
        reads.append(back)
    return lines[:40], reads[:40]


def _msort_modelled(l):
    """a mixed list with at least one literal and one other term whose literals `<` orders as a strict weak order"""
    lits = [x for x in l if isinstance(x, Literal)]
    return 0 < len(lits) < len(l) and not rdflib.DAWG_LITERAL_COLLATION and all(_carried(x) for x in lits) \
        and all(_scalar(str(x)) for x in l) and _weak_order(lits)


def _vcmp_modelled(a, b):
    if rdflib.DAWG_LITERAL_COLLATION or not (_carried(a) and _carried(b)):
        return False
    # a float NaN against a Decimal: CPython converts the NaN to a Decimal NaN and its comparison signals
    # InvalidOperation — a pair of values the model does not carry (finding K3)
    va, vb = a.value, b.value
    for x, y in ((va, vb), (vb, va)):
        if type(x) is float and x != x and type(y) is _dec.Decimal:
            return False
    return True


def _vsort_modelled(l):
    return len(l) >= 2 and not rdflib.DAWG_LITERAL_COLLATION and all(_carried(x) for x in l) and _weak_order(l)


@_with_env
def model_lines(case):
    ts = _build_all(case)
    lines = []
    for st in _steps(case, ts):
        kind = st[0]
        if kind == "cmp":
            a, b = ts[st[1]], ts[st[2]]
            lines.append(f"cmp {_b(_covered(a, b))} {enc(a)} {enc(b)}")
        elif kind in ("n3", "rt"):
            lines.append(f"{kind} {enc(ts[st[1]])}")
        elif kind == "rd":
            t = ts[st[1]]
            text = _try(lambda: t.n3())
            if isinstance(text, Exception) or not _text_in_scope(t) or not _scalar(text):
                lines.append("skip")
            else:
                lines.append("rd 0 " + _cps(text))
        elif kind == "rdq":
            q = _rdq(case, ts[st[1]])
            if q is None:
                lines.append("skip")
            else:
                text, nsm = q
                lines.append("rdq 0 " + _cps(text) + "".join(" %s %s" % (_cps(p), _cps(str(ns))) for p, ns in nsm.namespaces()))
        elif kind == "rdt":
            r = _rdt(case, ts[st[1]], st[2], st[3])
            if r is None:
                lines.append("skip")
            else:
                text, stmt, tail, nsm = r
                tbl = "" if nsm is None else "".join(" %s %s" % (_cps(p), _cps(str(ns))) for p, ns in nsm.namespaces())
                lines.append("rdt 0 " + _cps(text + tail) + tbl)
        elif kind == "mk":
            tj = case["terms"][st[1]]
            if not _mk_modelled(tj):
                lines.append("skip")
            else:
                o = lambda x: "-" if x is None else _cps(x)  # noqa: E731
                lines.append(f"mk 0 {_cps(tj['lex'])} {o(tj.get('lang'))} {o(tj.get('dt'))}")
        elif kind == "sort":
            lines.append("sort " + " ".join(enc(ts[i]) for i in st[1]))
        elif kind == "vcmp":
            a, b = ts[st[1]], ts[st[2]]
            lines.append("vcmp %s %s" % (_venc(a), _venc(b)) if _vcmp_modelled(a, b) else "skip")
        elif kind == "vsort":
            l = [ts[i] for i in st[1]]
            lines.append("vsort " + " ".join(_venc(x) for x in l) if _vsort_modelled(l) else "skip")
        elif kind == "msort":
            l = [ts[i] for i in st[1]]
            lines.append("msort " + " ".join("W " + _venc(x) if isinstance(x, Literal) else enc(x) for x in l)
                         if _msort_modelled(l) else "skip")
        elif kind == "hist":     # the last step: one driver line per round trip of the history
            lines += _hist_reads(case, ts)[0]
    return lines


def _uncps(w):
    return "" if w == "e" else "".join(chr(int(x)) for x in w.split(","))


@_with_env
def select_model_obs(case, out):
    """driver output → observation lines.  The model's n3 text is read by rdflib (normalisation off):
    the obligation is that rdflib reads the model's text as the term, not that the texts are equal."""
    ts = _build_all(case)
    res = []
    steps = _steps(case, ts)
    if steps and steps[-1][0] == "hist":
        k = len(steps) - 1
        out = list(out[:k]) + ["hist " + " | ".join(_fold_lang(x) for x in out[k:])]
    for st, o in zip(steps, out):
        kind = st[0]
        if kind == "hist":
            res.append(o)
            continue
        if kind == "cmp":
            res.append(o)
        elif kind == "n3":
            t = ts[st[1]]
            if o == "error":
                res.append("wr error")
            elif not _text_in_scope(t) or not _scalar(t.n3()):
                res.append("wr -")
            else:
                r = _raw_from_n3(_uncps(o))
                res.append("wr " + (_exc_name(r) if isinstance(r, Exception) else enc(r, True)))
                if os.environ.get("VERIF_C07_TEXT") and _uncps(o) != t.n3():
                    print("text differs:", repr(_uncps(o)), repr(t.n3()), file=sys.stderr)
        elif kind == "rd":
            res.append("rd " + ("-" if o == "bad-op" and _skipped(st, case, ts) else _fold_lang(o)))
        elif kind == "rdq":
            res.append("rdq " + ("-" if o == "bad-op" and _rdq(case, ts[st[1]]) is None else _fold_lang(o)))
        elif kind == "rdt":
            r = _rdt(case, ts[st[1]], st[2], st[3])
            if r is None:
                res.append("rdt -")
            else:
                text, stmt, tail, nsm = r
                if " | " in o:
                    tm, rest = o.split(" | ", 1)
                    m = ("B *" if tm.startswith("B ") else _fold_lang(tm)) if _uncps(rest) == tail else "bad-rest:" + rest
                else:
                    m = o
                res.append("rdt %s ## %s" % (m, "-" if _U_ESC.search(text) else m))
        elif kind in ("rt", "mk"):
            res.append(kind + " " + ("-" if o == "bad-op" and _skipped(st, case, ts) else o))
        elif kind == "sort":
            res.append("sort " + o if o != "bad-op" else "sort ")
        elif kind == "vcmp":
            res.append("vcmp " + ("-" if o == "bad-op" and not _vcmp_modelled(ts[st[1]], ts[st[2]]) else o))
        elif kind == "vsort":
            res.append("vsort " + ("-" if o == "bad-op" and not _vsort_modelled([ts[i] for i in st[1]]) else o))
        elif kind == "msort":
            res.append("msort " + ("-" if o == "bad-op" and not _msort_modelled([ts[i] for i in st[1]]) else o))
    return res


def _fold_lang(o):
    """lower-case the language field of a driver-printed literal"""
    w = o.split(" ")
    if len(w) == 4 and w[0] == "L" and w[3] not in ("-", "e"):
        w[3] = ",".join(str(ord(chr(int(x)).lower())) if int(x) < 128 else x for x in w[3].split(","))
    return " ".join(w)


def _skipped(st, case, ts):
    if st[0] == "rd":
        t = ts[st[1]]
        text = _try(lambda: t.n3())
        return isinstance(text, Exception) or not _text_in_scope(t) or not _scalar(text)
    if st[0] == "mk":
        return not _mk_modelled(case["terms"][st[1]])
    return False


def shrink(case):
    ts = case["terms"]
    n = len(ts)
    for i in range(n):
        if n > 1:
            keep = [j for j in range(n) if j != i]
            ren = {j: r for r, j in enumerate(keep)}
            yield {"terms": [ts[j] for j in keep], "p1": [ren[j] for j in case["p1"] if j != i],
                   "p2": [ren[j] for j in case["p2"] if j != i]}
    for i, t in enumerate(ts):
        f = "lex" if t["k"] == "lit" else "s"
        s = t[f]
        for j in range(len(s)):
            t2 = dict(t); t2[f] = s[:j] + s[j + 1:]
            yield {**case, "terms": ts[:i] + [t2] + ts[i + 1:]}
        if t["k"] == "lit" and t.get("nn"):
            t2 = dict(t); t2["nn"] = False
            yield {**case, "terms": ts[:i] + [t2] + ts[i + 1:]}
    if case.get("env"):
        yield {k: v for k, v in case.items() if k != "env"}
    if case["p1"] != sorted(case["p1"]):
        yield {**case, "p1": sorted(case["p1"])}
    if case["p2"] != sorted(case["p2"], reverse=True) and case["p2"] != sorted(case["p2"]):
        yield {**case, "p2": sorted(case["p2"], reverse=True)}


# ------------------------------------------------------------------ known findings: narrow matchers

_U_ESC = re.compile(r"\\[uU][0-9A-Fa-f]{4}")
_ORDER_TAGS = {"order-eq", "order-asym", "order-exc", "ops-consistent", "fam-order", "fam-trans", "class-order", "fam-value", "eq-value"}
_SORT_TAGS = {"sort-exc", "sort-repro"}


def _by_value(a, b):
    """the pair is ordered in value space: both have a value and the datatypes are both numeric, or the same with the same tag"""
    if a.value is None or b.value is None:
        return False
    if a.datatype in T._NUMERIC_LITERAL_TYPES and b.datatype in T._NUMERIC_LITERAL_TYPES:
        if a.ill_typed or b.ill_typed:
            return False                                  # an ill-typed one goes by datatype IRI
        try:                                              # the numeric fast path — unless the values have no order
            a.value > b.value                             # (a value whose Python type does not fit the datatype: F13's route),
            return True                                   # then the pair goes by datatype IRI as well
        except TypeError:
            return False
    da = str(a.datatype) if a.datatype is not None else XSD + "string"
    db = str(b.datatype) if b.datatype is not None else XSD + "string"
    if not (da == db and (a.language or "").lower() == (b.language or "").lower()):
        return False
    if type(a.value) in T._TOTAL_ORDER_CASTERS and type(b.value) is type(a.value):
        return True                                       # partitioned and ordered by the caster
    try:                                                  # values without an order (a Duration against anything, F13's route)
        a.value > b.value                                 # fall back to the lexical forms
        return True
    except TypeError:
        return False


def _lt_cycle(lits):
    """a `<` cycle of three literals that mixes value order with the fall-back order (datatype IRI / lexical form):
    the shape of finding K4.  A cycle whose pairs are all ordered the same way is something else."""
    def lt(a, b):
        r = _try(lambda: a < b)
        return r is True
    for a in lits:
        for b in lits:
            if a is not b and lt(a, b):
                for c in lits:
                    if c is not a and c is not b and lt(b, c) and lt(c, a):
                        kinds = {_try(lambda p=p: _by_value(*p)) for p in ((a, b), (b, c), (c, a))}
                        if True in kinds and False in kinds:
                            return True
    return False


@_with_env
def _explain(case, result):
    """for every violation the id of the listed finding that accounts for it, or None"""
    ts = _build_all(case)
    lits = [t for t in ts if isinstance(t, Literal)]
    nan_lit = any(_is_nan_lit(t) for t in lits)
    out = []
    for v, idx in zip(result["viol"], result.get("involved") or [[]] * len(result["viol"])):
        tag = v.split(":")[0]
        inv = [ts[i] for i in idx if i < len(ts) and ts[i] is not None]
        if tag == "n3-norm":
            out.append("K1")   # the oracle itself checked that what came back is the normalised literal
        elif tag == "n3-sparql" and inv and all(isinstance(t, Literal) and _U_ESC.search(str(t)) for t in inv):
            out.append("K2")
        elif (tag == "n3-sparql" or (tag in ("n3-from_n3", "n3-turtle", "n3-nsm") and
                                     (case.get("env") == "nonorm" or
                                      # since C09-F13 a non-finite form is not in the lexical space of xsd:decimal any more
                                      # (value None), so no reader normalises "INF"^^xsd:decimal back to "Infinity": the
                                      # respelling is visible in the default environment too, for xsd:decimal only
                                      all(isinstance(t, Literal) and str(t.datatype) == "http://www.w3.org/2001/XMLSchema#decimal" for t in inv)))) \
                and inv and all(isinstance(t, Literal) and _respelt(t) for t in inv) and "raised" not in v:
            out.append("K5")   # readers that keep lexical forms: the SPARQL parser, or any reader with NORMALIZE_LITERALS off
        elif tag in _ORDER_TAGS and any(_is_nan_lit(t) for t in inv):
            out.append("K3")
        elif tag in _SORT_TAGS and nan_lit:
            out.append("K3")
        elif tag == "sort-repro" and _lt_cycle(lits):
            out.append("K4")
        else:
            out.append(None)
    return out


def _matcher(kid):
    def m(case, result):
        ex = _explain(case, result)
        return bool(ex) and all(e is not None for e in ex) and kid in ex
    return m


MATCHERS = {"text_reader_normalises": _matcher("K1"), "sparql_codepoint_escape_in_string": _matcher("K2"),
            "nan_valued_literal_order": _matcher("K3"), "cross_datatype_order_cycle": _matcher("K4"),
            "inf_nan_respelled_in_text": _matcher("K5")}


# ------------------------------------------------------------------ regenerated tables (source → Lean)


def _lchars(s):
    return "[" + ", ".join("Char.ofNat %d" % ord(c) for c in s) + "]"


def _lbool(b):
    return "true" if b else "false"


import datetime as _dt  # noqa: E402

_NAIVE = _dt.datetime(2001, 10, 26, 21, 32, 52)
_AWARE = _dt.datetime(2001, 10, 26, 21, 32, 52, tzinfo=_dt.timezone(_dt.timedelta(hours=2)))


def _caster_flag(v, typ=None):
    c = T._TOTAL_ORDER_CASTERS.get(typ or _dt.datetime)
    if c is None:
        return False
    k = c(v)
    return bool(isinstance(k, tuple) and len(k) == 2 and k[0] and k[1] == v)


def TABLES():
    """lean/RV/C07/Tables.lean, regenerated from the live rdflib modules on every run"""
    from rdflib.compat import _string_escape_map
    o = T._ORDERING
    probe = [chr(c) for c in list(range(0, 0x180)) + [0x2028, 0x2029, 0x20AC, 0xD7FF, 0xFFFD, 0x1F600]]
    short, long_ = [], []
    for c in probe:
        if c != "\n":
            e = Literal(c + "x", normalize=False)._quote_encode()
            assert e[0] == '"' and e[-2:] == 'x"', e
            if e[1:-2] != c:
                short.append((c, e[1:-2]))
        e = Literal("\n" + c + "x", normalize=False)._quote_encode()
        assert e[:4] == '"""\n' and e[-4:] == 'x"""', e
        if e[4:-4] != c:
            long_.append((c, e[4:-4]))
    tails = ['"' * k for k in range(0, 9)]
    tails += ["\\" * b + '"' * k for b in range(1, 4) for k in range(1, 5)]
    tails += ['"' * k + "\\" * b for b in range(1, 3) for k in range(1, 5)]
    tails += ['"""a"', '"""a""""', '\r"', '"\r', 'a"""\\"', '\\"""', '"\\"""']
    long_tails = []
    for tl in tails:
        lex = "a\n" + tl
        e = Literal(lex, normalize=False)._quote_encode()
        assert e[:3] == '"""' and e[-3:] == '"""', e
        long_tails.append((lex, e[3:-3]))
    spaces = "".join(chr(c) for c in range(0x110000) if chr(c).isspace())
    L = ["/- GENERATED by harness/c07.py TABLES() from the live rdflib modules — do not edit. -/",
         "namespace RV.C07.Tables", "",
         "/-- `rdflib.term._ORDERING` -/",
         "def ordBNode : Nat := %d" % o[BNode], "def ordVariable : Nat := %d" % o[Variable],
         "def ordURIRef : Nat := %d" % o[URIRef], "def ordGenid : Nat := %d" % o[Genid],
         "def ordRDFLibGenid : Nat := %d" % o[RDFLibGenid], "def ordLiteral : Nat := %d" % o[Literal], "",
         "/-- `rdflib.term._invalid_uri_chars` -/",
         "def invalidUriChars : List Char := " + _lchars(T._invalid_uri_chars), "",
         "/-- `rdflib.term._NUMERIC_INF_NAN_LITERAL_TYPES` -/",
         "def infNanTypes : List (List Char) := [" + ", ".join(_lchars(str(u)) for u in T._NUMERIC_INF_NAN_LITERAL_TYPES) + "]", "",
         "/-- `rdflib.term._NUMERIC_LITERAL_TYPES` (the numeric fast path of `Literal.__gt__` / `eq`) -/",
         "def numericTypes : List (List Char) := [" + ", ".join(_lchars(str(u)) for u in T._NUMERIC_LITERAL_TYPES) + "]", "",
         "/-- `datetime.datetime in rdflib.term._TOTAL_ORDER_CASTERS` and what its caster does with a naive and an aware value:",
         "    the first component of the key it returns (probed) -/",
         "def castsDatetime : Bool := " + _lbool(_dt.datetime in T._TOTAL_ORDER_CASTERS),
         "def casterAwareFlag : Bool × Bool := (" + ", ".join(_lbool(_caster_flag(x)) for x in (_NAIVE, _AWARE)) + ")",
         "def castsTime : Bool := " + _lbool(_dt.time in T._TOTAL_ORDER_CASTERS),
         "def casterAwareFlagTime : Bool × Bool := (" + ", ".join(_lbool(_caster_flag(x, _dt.time)) for x in (_NAIVE.time(), _AWARE.timetz())) + ")", "",
         "def xsdString : List Char := " + _lchars(str(T._XSD_STRING)),
         "def xsdNormalizedString : List Char := " + _lchars(str(T._XSD_NORMALISED_STRING)),
         "def xsdToken : List Char := " + _lchars(str(T._XSD_TOKEN)),
         "def xsdBoolean : List Char := " + _lchars(str(T._XSD_BOOLEAN)), "",
         "/-- `rdflib.compat._string_escape_map` (used by `decodeUnicodeEscape`) -/",
         "def stringEscapeMap : List (Char × Char) := [" +
         ", ".join("(Char.ofNat %d, Char.ofNat %d)" % (ord(k), ord(v)) for k, v in _string_escape_map.items()) + "]", "",
         "/-- code points with `str.isspace()` (what `str.strip()` removes) -/",
         "def spaceChars : List Char := " + _lchars(spaces), "",
         "/-- characters probed through `Literal._quote_encode` and those whose encoding is not the character itself,",
         "    in a short-quoted and in a long-quoted string (not in final position) -/",
         "def probed : List Char := " + _lchars("".join(probe)),
         "def shortEscapes : List (Char × List Char) := [" + ", ".join("(Char.ofNat %d, %s)" % (ord(c), _lchars(e)) for c, e in short) + "]",
         "/-- long-quoted texts with endings that stress the final-quote rule, probed through `_quote_encode` -/",
         "def longTails : List (List Char × List Char) := [" + ", ".join("(%s, %s)" % (_lchars(a), _lchars(b)) for a, b in long_tails) + "]",
         "def longEscapes : List (Char × List Char) := [" + ", ".join("(Char.ofNat %d, %s)" % (ord(c), _lchars(e)) for c, e in long_) + "]", "",
         "end RV.C07.Tables", ""]
    return "\n".join(L)
