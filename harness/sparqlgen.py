"""sparqlgen -- reusable SPARQL query/data generator, printer and *reference evaluator*.

Built for C04; meant to be imported by later checks (C08, C10, C13, C15).  Pure Python, no
rdflib needed except in the two clearly marked adapter sections at the bottom
(`to_rdflib_*`, `encode_rdflib_algebra`), which import rdflib lazily.

======================================================================================
API
======================================================================================
Terms (JSON-able lists; `T(x)` makes the hashable tuple form used inside the evaluator)
    ["i", n]  IRI <http://e/n>        ["b", n]  blank node _:bn  (data only, never in query text)
    ["n", z]  xsd:integer z           ["s", "txt"] plain string   ["t", true|false] xsd:boolean
Variables are small integers k (printed ?v<k>).  A triple-pattern position is ["v", k] or a term.

Dataset      {"default": [[s,p,o]...], "named": [[name_term, [[s,p,o]...]], ...], "union": bool}
             union=True: the query's default graph is the set-union of all graphs
             (rdflib Dataset(default_union=True)).

Syntax tree (what the generator makes; SPARQL 1.1 grammar level)
    group  ::= ["group", [elt...]]
    elt    ::= ["tri", [[s,p,o]...]] | ["opt", group] | ["minus", group] | ["union", [group...]] (1 = nested group)
             | ["graph", pos, group] | ["values", [k...], [[term|None...]...]] | ["bind", expr, k]
             | ["filter", expr] | ["subsel", None|[k...], group]
    expr   ::= ["var", k] | ["const", term] | ["cmp", op, e, e] (op: eq ne lt gt le ge) | ["and", e, e] | ["or", e, e]
             | ["not", e] | ["bound", k] | ["exists", group] | ["nexists", group]
    query  ::= {"form": "select"|"ask"|"construct", "proj": None|[k...], "where": group, "template": [[s,p,o]...]}
             template positions may also be ["tb", n]: a template blank node (fresh per solution)

Functions
    gen_dataset(rng, named=True) -> dataset        gen_query(rng, ds, depth, ..., probe_share=0.0) -> query
    mutate_dataset(rng, ds) -> dataset             (same graph names, a few triples removed / added / moved)
    to_sparql(query) -> str                        sx_query(query) -> str   (s-expression of the SYNTAX tree)
    in_scope(group) -> set of k                    (SPARQL 1.1 §18.2.1)
    translate_group(group) -> algebra              (SPARQL 1.1 §18.2.2; tuples, see `ALGEBRA` below)
    eval_alg(ds, alg, active=None) -> list[dict]   bottom-up §18.5/18.6 evaluation, bag = list of dict k -> term-tuple
    eval_query(ds, query) -> {"vars": [k...]|None, "bag": [...]} | {"ask": bool} | {"graph": set of triples}
    eval_expr(ds, active, e, mu) -> term-tuple, raises ExprError
    canon_bag(bag) / canon_result(res) -> canonical strings shared with the Lean driver
    stats_of(query) -> dict of counters
    shrink_query(query), shrink_dataset(ds) -> iterables of smaller candidates
  rdflib adapters
    to_rdflib_dataset(ds) -> rdflib.Dataset        from_rdflib_term / to_rdflib_term
    run_rdflib(ds, query) -> same shape as eval_query (observed through Result.vars / Result.bindings / askAnswer / graph)
    encode_rdflib_algebra(algebra_root) -> s-expression of rdflib's OWN translated tree (with lazy/_vars annotations)

ALGEBRA (tuples)
    ("bgp", [tp...]) ("join", a, b) ("leftjoin", a, b, expr) ("filter", expr, a) ("union", a, b) ("minus", a, b)
    ("extend", a, k, expr) ("graph", pos, a) ("values", [k...], rows) ("project", a, [k...])  ("unit",) = empty group
  expressions inside the algebra carry translated patterns: ("exists", alg) / ("nexists", alg)

Expression semantics (SPARQL 1.1 §17) for the fragment: `=`/`!=` are RDFterm-equal on IRIs/bnodes and value
comparison on literals; `< > <= >=` are defined on two integers, two strings, two booleans; on IRIs/bnodes they are
type errors.  For two literals of DIFFERENT kinds §17 gives a type error; §17.3.1 allows an implementation to return a
value instead, and rdflib does (`=` false, `!=` true, order boolean < integer < string).  The reference follows that
extension (flag EXT_CROSS_KIND) and counts how often it is used (`stats["cmp_cross_kind"]`).
"""
from __future__ import annotations

import itertools

EXT_CROSS_KIND = True
OPS = ["eq", "ne", "lt", "gt", "le", "ge"]
OPTXT = {"eq": "=", "ne": "!=", "lt": "<", "gt": ">", "le": "<=", "ge": ">="}


class ExprError(Exception):
    pass


# --------------------------------------------------------------------------- terms


def T(x):
    """JSON list -> hashable tuple (recursively)."""
    if isinstance(x, (list, tuple)):
        return tuple(T(y) for y in x)
    return x


def is_var(p):
    return p[0] == "v"


def term_text(t):
    k, v = t[0], t[1]
    if k == "i":
        return f"<http://e/{v}>"
    if k == "n":
        return str(v)
    if k == "s":
        return '"' + v.replace("\\", "\\\\").replace('"', '\\"') + '"'
    if k == "t":
        return "true" if v else "false"
    if k == "b":
        return f"_:b{v}"
    if k == "tb":
        return f"_:t{v}"
    raise ValueError(t)


def term_code(t):
    """Protocol spelling shared with the Lean driver."""
    k, v = t[0], t[1]
    if k == "i":
        return f"i{v}"
    if k == "b":
        return f"b{v}"
    if k == "n":
        return f"n{v}"
    if k == "s":
        return "s" + ".".join(str(ord(c)) for c in v)
    if k == "t":
        return "t1" if v else "t0"
    if k == "tb":
        return f"f{v}"
    raise ValueError(t)


def pos_text(p):
    return f"?v{p[1]}" if is_var(p) else term_text(p)


def pos_code(p):
    return f"?{p[1]}" if is_var(p) else term_code(p)


# --------------------------------------------------------------------------- printing


def expr_text(e):
    k = e[0]
    if k == "var":
        return f"?v{e[1]}"
    if k == "const":
        return term_text(e[1])
    if k == "cmp":
        return f"({expr_text(e[2])} {OPTXT[e[1]]} {expr_text(e[3])})"
    if k == "and":
        return f"({expr_text(e[1])} && {expr_text(e[2])})"
    if k == "or":
        return f"({expr_text(e[1])} || {expr_text(e[2])})"
    if k == "not":
        return f"(!{expr_text(e[1])})"
    if k == "bound":
        return f"bound(?v{e[1]})"
    if k == "exists":
        return "EXISTS " + group_text(e[1])
    if k == "nexists":
        return "NOT EXISTS " + group_text(e[1])
    raise ValueError(e)


def proj_text(proj):
    return "*" if proj is None else " ".join(f"?v{k}" for k in proj)


def elt_text(x):
    k = x[0]
    if k == "tri":
        return " ".join(f"{pos_text(s)} {pos_text(p)} {pos_text(o)} ." for s, p, o in x[1])
    if k == "opt":
        return "OPTIONAL " + group_text(x[1])
    if k == "minus":
        return "MINUS " + group_text(x[1])
    if k == "union":
        return " UNION ".join(group_text(g) for g in x[1])
    if k == "graph":
        return f"GRAPH {pos_text(x[1])} " + group_text(x[2])
    if k == "values":
        vs = " ".join(f"?v{v}" for v in x[1])
        rows = " ".join("(" + " ".join("UNDEF" if c is None else term_text(c) for c in r) + ")" for r in x[2])
        return f"VALUES ({vs}) {{ {rows} }}"
    if k == "bind":
        return f"BIND({expr_text(x[1])} AS ?v{x[2]})"
    if k == "filter":
        return f"FILTER({expr_text(x[1])})"
    if k == "subsel":
        return "{ SELECT " + proj_text(x[1]) + " WHERE " + group_text(x[2]) + " }"
    raise ValueError(x)


def group_text(g):
    return "{ " + " ".join(elt_text(x) for x in g[1]) + " }"


def to_sparql(q):
    w = group_text(q["where"])
    if q["form"] == "select":
        return f"SELECT {proj_text(q['proj'])} WHERE {w}"
    if q["form"] == "ask":
        return f"ASK {w}"
    if q["form"] == "construct":
        tpl = " ".join(f"{pos_text(s)} {pos_text(p)} {pos_text(o)} ." for s, p, o in q["template"])
        return f"CONSTRUCT {{ {tpl} }} WHERE {w}"
    raise ValueError(q["form"])


# s-expressions of the syntax tree (for the Lean `Spec.translate`)


def sx_expr(e, sub):
    k = e[0]
    if k == "var":
        return f"(var {e[1]})"
    if k == "const":
        return f"(const {term_code(e[1])})"
    if k == "cmp":
        return f"(cmp {e[1]} {sx_expr(e[2], sub)} {sx_expr(e[3], sub)})"
    if k in ("and", "or"):
        return f"({k} {sx_expr(e[1], sub)} {sx_expr(e[2], sub)})"
    if k == "not":
        return f"(not {sx_expr(e[1], sub)})"
    if k == "bound":
        return f"(bound {e[1]})"
    if k in ("exists", "nexists"):
        return f"({k} {sub(e[1])})"
    raise ValueError(e)


def sx_tps(tps):
    return " ".join(f"{pos_code(s)} {pos_code(p)} {pos_code(o)}" for s, p, o in tps)


def sx_values(vs, rows):
    rs = " ".join("(row " + " ".join("U" if c is None else term_code(c) for c in r) + ")" for r in rows)
    return "(values (vars " + " ".join(map(str, vs)) + ")" + (" " + rs if rs else "") + ")"


def sx_group(g):
    out = []
    for x in g[1]:
        k = x[0]
        if k == "tri":
            out.append(f"(tri {sx_tps(x[1])})")
        elif k in ("opt", "minus"):
            out.append(f"({k} {sx_group(x[1])})")
        elif k == "union":
            out.append("(union " + " ".join(sx_group(h) for h in x[1]) + ")")
        elif k == "graph":
            out.append(f"(graph {pos_code(x[1])} {sx_group(x[2])})")
        elif k == "values":
            out.append(sx_values(x[1], x[2]))
        elif k == "bind":
            out.append(f"(bind {sx_expr(x[1], sx_group)} {x[2]})")
        elif k == "filter":
            out.append(f"(filter {sx_expr(x[1], sx_group)})")
        elif k == "subsel":
            pr = "star" if x[1] is None else "(proj " + " ".join(map(str, x[1])) + ")"
            out.append(f"(subsel {pr} {sx_group(x[2])})")
        else:
            raise ValueError(x)
    return "(group" + "".join(" " + o for o in out) + ")"


def sx_query(q):
    w = sx_group(q["where"])
    if q["form"] == "select":
        pr = "star" if q["proj"] is None else "(proj " + " ".join(map(str, q["proj"])) + ")"
        return f"(select {pr} {w})"
    if q["form"] == "ask":
        return f"(ask {w})"
    return f"(construct (tri {sx_tps(q['template'])}) {w})"


def sx_dataset(ds):
    """`(ds U (g default triples) (g name triples)...)` -- U = 1 if the default graph is the union."""
    parts = ["(default " + sx_tps(ds["default"]) + ")"]
    for name, ts in ds["named"]:
        parts.append(f"(named {term_code(name)} " + sx_tps(ts) + ")")
    return f"(ds {1 if ds.get('union') else 0} " + " ".join(parts) + ")"


# --------------------------------------------------------------------------- scope, variables


def pos_vars(ps):
    return {p[1] for p in ps if is_var(p)}


def in_scope(g):
    """Variables in scope of a group graph pattern (SPARQL 1.1 §18.2.1)."""
    vs = set()
    for x in g[1]:
        k = x[0]
        if k == "tri":
            for tp in x[1]:
                vs |= pos_vars(tp)
        elif k == "opt":
            vs |= in_scope(x[1])
        elif k == "union":
            for h in x[1]:
                vs |= in_scope(h)
        elif k == "graph":
            vs |= pos_vars([x[1]]) | in_scope(x[2])
        elif k == "values":
            vs |= set(x[1])
        elif k == "bind":
            vs.add(x[2])
        elif k == "subsel":
            vs |= in_scope(x[2]) if x[1] is None else set(x[1])
        # minus, filter: nothing
    return vs


def all_vars_group(g):
    """every variable mentioned anywhere (used to size rows)"""
    vs = set()

    def ex(e):
        k = e[0]
        if k in ("var", "bound"):
            vs.add(e[1])
        elif k == "cmp":
            ex(e[2]); ex(e[3])
        elif k in ("and", "or"):
            ex(e[1]); ex(e[2])
        elif k == "not":
            ex(e[1])
        elif k in ("exists", "nexists"):
            gr(e[1])

    def gr(g):
        for x in g[1]:
            k = x[0]
            if k == "tri":
                for tp in x[1]:
                    vs.update(pos_vars(tp))
            elif k in ("opt", "minus"):
                gr(x[1])
            elif k == "union":
                for h in x[1]:
                    gr(h)
            elif k == "graph":
                vs.update(pos_vars([x[1]])); gr(x[2])
            elif k == "values":
                vs.update(x[1])
            elif k == "bind":
                ex(x[1]); vs.add(x[2])
            elif k == "filter":
                ex(x[1])
            elif k == "subsel":
                if x[1] is not None:
                    vs.update(x[1])
                gr(x[2])
    gr(g)
    return vs


def nvars(q):
    vs = all_vars_group(q["where"])
    if q.get("proj"):
        vs |= set(q["proj"])
    for tp in q.get("template") or []:
        vs |= pos_vars(tp)
    return (max(vs) + 1) if vs else 0


# --------------------------------------------------------------------------- §18.2 translation

UNIT = ("unit",)


def _join(a, b):
    if a == UNIT:
        return b
    if b == UNIT:
        return a
    return ("join", a, b)


def translate_expr(e):
    k = e[0]
    if k in ("var", "bound"):
        return (k, e[1])
    if k == "const":
        return ("const", T(e[1]))
    if k == "cmp":
        return ("cmp", e[1], translate_expr(e[2]), translate_expr(e[3]))
    if k in ("and", "or"):
        return (k, translate_expr(e[1]), translate_expr(e[2]))
    if k == "not":
        return ("not", translate_expr(e[1]))
    if k in ("exists", "nexists"):
        return (k, translate_group(e[1]))
    raise ValueError(e)


def translate_group(g):
    """SPARQL 1.1 §18.2.2.2-18.2.2.8 (filters of a group collected, applied to the whole group)."""
    fs = [translate_expr(x[1]) for x in g[1] if x[0] == "filter"]
    G = UNIT
    for x in g[1]:
        k = x[0]
        if k == "filter":
            continue
        if k == "tri":
            G = _join(G, ("bgp", [T(tp) for tp in x[1]]))
        elif k == "opt":
            # §18.2.2.6: Translate(P) is a Filter exactly when P itself has FILTER elements (Join(Z, A) = A is applied
            # only after the whole translation, so the filter of a NESTED group `{ { … FILTER } }` is not hoisted)
            A = translate_group(x[1])
            if any(y[0] == "filter" for y in x[1][1]):
                assert A[0] == "filter"
                G = ("leftjoin", G, A[2], A[1])
            else:
                G = ("leftjoin", G, A, ("const", ("t", True)))
        elif k == "minus":
            G = ("minus", G, translate_group(x[1]))
        elif k == "union":
            A = None
            for h in x[1]:
                B = translate_group(h)
                A = B if A is None else ("union", A, B)
            G = _join(G, A)
        elif k == "graph":
            G = _join(G, ("graph", T(x[1]), translate_group(x[2])))
        elif k == "values":
            G = _join(G, ("values", list(x[1]), [tuple(None if c is None else T(c) for c in r) for r in x[2]]))
        elif k == "bind":
            G = ("extend", G, x[2], translate_expr(x[1]))
        elif k == "subsel":
            pv = sorted(in_scope(x[2])) if x[1] is None else list(x[1])
            G = _join(G, ("project", translate_group(x[2]), pv))
        else:
            raise ValueError(x)
    if fs:
        f = fs[0]
        for h in fs[1:]:
            f = ("and", f, h)
        G = ("filter", f, G)
    return G


# --------------------------------------------------------------------------- §17 expressions

KIND_RANK = {"t": 0, "n": 1, "s": 2}


def ebv(t):
    if t[0] == "t":
        return bool(t[1])
    if t[0] == "s":
        return len(t[1]) > 0
    if t[0] == "n":
        return t[1] != 0
    raise ExprError("ebv")


def compare_terms(op, a, b, stats=None):
    la, lb = a[0] in KIND_RANK, b[0] in KIND_RANK
    if op in ("eq", "ne"):
        if la and lb and a[0] != b[0]:
            if stats is not None:
                stats["cmp_cross_kind"] = stats.get("cmp_cross_kind", 0) + 1
            if not EXT_CROSS_KIND:
                raise ExprError("cross-kind")
        r = a == b
        return r if op == "eq" else not r
    if not (la and lb):
        raise ExprError("order on non-literal")
    if a[0] != b[0]:
        if stats is not None:
            stats["cmp_cross_kind"] = stats.get("cmp_cross_kind", 0) + 1
        if not EXT_CROSS_KIND:
            raise ExprError("cross-kind")
        x, y = KIND_RANK[a[0]], KIND_RANK[b[0]]
    else:
        x, y = a[1], b[1]
    return {"lt": x < y, "gt": x > y, "le": x <= y, "ge": x >= y}[op]


def subst_pos(p, mu):
    if is_var(p) and p[1] in mu:
        return mu[p[1]]
    return p


def subst_expr(e, mu):
    k = e[0]
    if k == "var":
        return ("const", mu[e[1]]) if e[1] in mu else e
    if k == "bound":
        return ("const", ("t", True)) if e[1] in mu else e
    if k == "const":
        return e
    if k == "cmp":
        return ("cmp", e[1], subst_expr(e[2], mu), subst_expr(e[3], mu))
    if k in ("and", "or"):
        return (k, subst_expr(e[1], mu), subst_expr(e[2], mu))
    if k == "not":
        return ("not", subst_expr(e[1], mu))
    if k in ("exists", "nexists"):
        return (k, subst_alg(e[1], mu))
    raise ValueError(e)


def subst_alg(a, mu):
    """substitute(pattern, mu) of §18.6 (EXISTS): every occurrence of a variable bound by mu is replaced."""
    k = a[0]
    if k == "unit":
        return a
    if k == "bgp":
        return ("bgp", [tuple(subst_pos(p, mu) for p in tp) for tp in a[1]])
    if k in ("join", "union", "minus"):
        return (k, subst_alg(a[1], mu), subst_alg(a[2], mu))
    if k == "leftjoin":
        return (k, subst_alg(a[1], mu), subst_alg(a[2], mu), subst_expr(a[3], mu))
    if k == "filter":
        return (k, subst_expr(a[1], mu), subst_alg(a[2], mu))
    if k == "graph":
        return (k, subst_pos(a[1], mu), subst_alg(a[2], mu))
    if k == "extend":
        # the generator never lets an EXISTS pattern BIND a variable that can be bound outside
        return (k, subst_alg(a[1], mu), a[2], subst_expr(a[3], mu))
    if k == "values":
        return a
    if k == "project":
        return (k, subst_alg(a[1], mu), a[2])
    raise ValueError(a)


def eval_expr(ds, active, e, mu, stats=None):
    k = e[0]
    if k == "var":
        if e[1] in mu:
            return mu[e[1]]
        raise ExprError("unbound")
    if k == "const":
        return e[1]
    if k == "bound":
        return ("t", e[1] in mu)
    if k == "cmp":
        a = eval_expr(ds, active, e[2], mu, stats)
        b = eval_expr(ds, active, e[3], mu, stats)
        return ("t", compare_terms(e[1], a, b, stats))
    if k == "not":
        return ("t", not ebv(eval_expr(ds, active, e[1], mu, stats)))
    if k in ("and", "or"):
        # §17.2 three-valued logic
        def side(x):
            try:
                return ebv(eval_expr(ds, active, x, mu, stats))
            except ExprError:
                if stats is not None:
                    stats["logic_operand_error"] = stats.get("logic_operand_error", 0) + 1
                return None
        l, r = side(e[1]), side(e[2])
        if k == "and":
            if l is False or r is False:
                return ("t", False)
            if l is None or r is None:
                raise ExprError("and")
            return ("t", True)
        if l is True or r is True:
            return ("t", True)
        if l is None or r is None:
            raise ExprError("or")
        return ("t", False)
    if k in ("exists", "nexists"):
        res = eval_alg(ds, subst_alg(e[1], mu), active, stats)
        return ("t", bool(res) == (k == "exists"))
    raise ValueError(e)


def filter_ok(ds, active, e, mu, stats=None):
    try:
        return ebv(eval_expr(ds, active, e, mu, stats))
    except ExprError:
        if stats is not None:
            stats["filter_error"] = stats.get("filter_error", 0) + 1
        return False


# --------------------------------------------------------------------------- §18.5 algebra


def compatible(m1, m2):
    for k, v in m1.items():
        if k in m2 and m2[k] != v:
            return False
    return True


def merge(m1, m2):
    r = dict(m1)
    r.update(m2)
    return r


def graph_triples(ds, active):
    """active None = the query's default graph; else the name (term tuple) of a named graph"""
    if active is None:
        if ds.get("union"):
            out, seen = [], set()
            for ts in [ds["default"]] + [g[1] for g in ds["named"]]:
                for t in ts:
                    t = T(t)
                    if t not in seen:
                        seen.add(t); out.append(t)
            return out
        return list(dict.fromkeys(T(t) for t in ds["default"]))
    for name, ts in ds["named"]:
        if T(name) == active:
            return list(dict.fromkeys(T(t) for t in ts))
    return []


def match_tp(tp, t, mu):
    mu = dict(mu)
    for p, x in zip(tp, t):
        if is_var(p):
            if p[1] in mu:
                if mu[p[1]] != x:
                    return None
            else:
                mu[p[1]] = x
        elif p != x:
            return None
    return mu


def eval_bgp(triples, tps):
    sols = [{}]
    for tp in tps:
        nxt = []
        for mu in sols:
            for t in triples:
                m = match_tp(tp, t, mu)
                if m is not None:
                    nxt.append(m)
        sols = nxt
    return sols


def eval_alg(ds, a, active=None, stats=None):
    k = a[0]
    if k == "unit":
        return [{}]
    if k == "bgp":
        return eval_bgp(graph_triples(ds, active), a[1])
    if k == "join":
        A, B = eval_alg(ds, a[1], active, stats), eval_alg(ds, a[2], active, stats)
        return [merge(x, y) for x in A for y in B if compatible(x, y)]
    if k == "union":
        return eval_alg(ds, a[1], active, stats) + eval_alg(ds, a[2], active, stats)
    if k == "minus":
        A, B = eval_alg(ds, a[1], active, stats), eval_alg(ds, a[2], active, stats)
        return [x for x in A if all((not compatible(x, y)) or not (set(x) & set(y)) for y in B)]
    if k == "leftjoin":
        A, B = eval_alg(ds, a[1], active, stats), eval_alg(ds, a[2], active, stats)
        out = []
        for x in A:
            hit = False
            for y in B:
                if compatible(x, y):
                    m = merge(x, y)
                    if filter_ok(ds, active, a[3], m, stats):
                        out.append(m); hit = True
            if not hit:
                out.append(x)
        return out
    if k == "filter":
        return [x for x in eval_alg(ds, a[2], active, stats) if filter_ok(ds, active, a[1], x, stats)]
    if k == "extend":
        out = []
        for x in eval_alg(ds, a[1], active, stats):
            if a[2] in x:
                raise ValueError("Extend: variable already bound (ill-formed query)")
            try:
                v = eval_expr(ds, active, a[3], x, stats)
                out.append(merge(x, {a[2]: v}))
            except ExprError:
                if stats is not None:
                    stats["bind_error"] = stats.get("bind_error", 0) + 1
                out.append(x)
        return out
    if k == "graph":
        g = a[1]
        if is_var(g):
            out = []
            for name, _ts in ds["named"]:
                name = T(name)
                for x in eval_alg(ds, a[2], name, stats):
                    if g[1] in x:
                        if x[g[1]] == name:
                            out.append(x)
                    else:
                        out.append(merge(x, {g[1]: name}))
            return out
        if any(T(n) == g for n, _ in ds["named"]):
            return eval_alg(ds, a[2], g, stats)
        return []  # §18.6: IRI is not a graph name of the dataset -> the empty multiset
    if k == "values":
        return [{v: c for v, c in zip(a[1], r) if c is not None} for r in a[2]]
    if k == "project":
        pv = set(a[2])
        return [{v: c for v, c in x.items() if v in pv} for x in eval_alg(ds, a[1], active, stats)]
    raise ValueError(a)


def fill_template(template, mu, sol_index):
    out = []
    for tp in template:
        t = []
        for p in tp:
            if is_var(p):
                t.append(mu.get(p[1]))
            elif p[0] == "tb":
                t.append(("fb", sol_index, p[1]))  # fresh blank node per solution
            else:
                t.append(T(p))
        if None in t:
            continue
        s, p, o = t
        # RDF well-formedness: subject IRI/bnode, predicate IRI (§16.2: ill-formed triples are skipped)
        if s[0] not in ("i", "b", "fb") or p[0] != "i":
            continue
        out.append(tuple(t))
    return out


def eval_query(ds, q, stats=None):
    A = translate_group(q["where"])
    bag = eval_alg(ds, A, None, stats)
    if q["form"] == "ask":
        return {"ask": bool(bag)}
    if q["form"] == "construct":
        g = set()
        for i, mu in enumerate(bag):
            g.update(fill_template([T(tp) for tp in q["template"]], mu, i))
        return {"graph": g}
    pv = sorted(in_scope(q["where"])) if q["proj"] is None else list(q["proj"])
    s = set(pv)
    return {"vars": pv, "bag": [{v: c for v, c in x.items() if v in s} for x in bag]}


# --------------------------------------------------------------------------- canonical observations


def canon_row(mu):
    return ";".join(f"{k}:{term_code(v)}" for k, v in sorted(mu.items())) or "-"


def canon_bag(bag):
    return " ".join(sorted(canon_row(m) for m in bag))


def canon_graph(triples):
    """Canonical text of a CONSTRUCT result up to the names of the minted blank nodes (("fb", …) tuples).
    Minted nodes of one solution only occur together with each other (and with data terms), so the triples that hold
    minted nodes fall into small connected components (connected through shared minted nodes); each component is put
    in its minimal spelling over all orders of its (few) minted nodes, the components are sorted as a multiset and
    numbered in that order.  Exact for components with up to 6 minted nodes (a template has at most 2 labels)."""
    triples = set(triples)
    ground = sorted(" ".join(term_code(x) for x in t) for t in triples if not any(x[0] == "fb" for x in t))
    ft = [t for t in triples if any(x[0] == "fb" for x in t)]
    parent = {}

    def find(x):
        while parent.setdefault(x, x) != x:
            parent[x] = parent[parent[x]]
            x = parent[x]
        return x
    for t in ft:
        fs = [x for x in t if x[0] == "fb"]
        for y in fs[1:]:
            parent[find(fs[0])] = find(y)
    comps = {}
    for t in ft:
        comps.setdefault(find(next(x for x in t if x[0] == "fb")), []).append(t)
    spelled = []
    for ts in comps.values():
        nodes = sorted({x for t in ts for x in t if x[0] == "fb"})
        orders = itertools.permutations(nodes) if len(nodes) <= 6 else [tuple(nodes)]
        best = None
        for o in orders:
            nm = {f: i for i, f in enumerate(o)}
            sp = tuple(sorted(tuple(("_", nm[x]) if x[0] == "fb" else ("t", term_code(x)) for x in t) for t in ts))
            if best is None or sp < best:
                best = sp
        spelled.append((best, len(nodes)))
    spelled.sort()
    lines, base = list(ground), 0
    for sp, k in spelled:
        for t in sp:
            lines.append(" ".join(f"f{base + x[1]}" if x[0] == "_" else x[1] for x in t))
        base += k
    return " | ".join(sorted(lines))


def canon_result(res):
    if "ask" in res:
        return "ask " + ("1" if res["ask"] else "0")
    if "graph" in res:
        return "graph " + canon_graph(res["graph"])
    if res.get("error"):
        return "error " + res["error"]
    return "vars " + ",".join(map(str, res["vars"])) + " rows " + canon_bag(res["bag"])


# --------------------------------------------------------------------------- generators

IRIS = [["i", 0], ["i", 1], ["i", 2]]
PREDS = [["i", 10], ["i", 11]]
LITS = [["n", 0], ["n", 1], ["s", ""], ["s", "a"], ["t", False], ["n", 2]]
GNAMES = [["i", 20], ["i", 21], ["i", 1]]  # a graph name that is also a node
NPOOL = 4


def gen_graph(rng, n, bnode_ok=True):
    ts = []
    nodes = IRIS + ([["b", 0]] if bnode_ok and rng.random() < 0.35 else [])
    objs = nodes + LITS[: rng.choice([2, 3, 5, 6])]
    preds = PREDS + ([["i", 0]] if rng.random() < 0.15 else [])
    tries = 0
    while len(ts) < n and tries < 60:
        tries += 1
        t = [rng.choice(nodes), rng.choice(preds), rng.choice(objs if rng.random() < 0.45 else nodes)]
        if t not in ts:
            ts.append(t)
    return ts


def gen_dataset(rng, named=True, size=(3, 12)):
    ds = {"default": gen_graph(rng, rng.randint(*size)), "named": [], "union": False}
    if named:
        k = rng.choice([2, 2, 3])
        for name in GNAMES[:k]:
            n = rng.randint(1, 6)
            if rng.random() < 0.5 and ds["default"]:
                # overlap with the default graph / other graphs: union graphs then hold duplicates
                ts = rng.sample(ds["default"], min(len(ds["default"]), max(1, n // 2))) + gen_graph(rng, n // 2)
                ts = [t for i, t in enumerate(ts) if t not in ts[:i]]
            else:
                ts = gen_graph(rng, n)
            ds["named"].append([name, ts])
        if rng.random() < 0.3:
            # a registered named graph WITHOUT triples (Dataset.graph(name)): GRAPH ?g must still visit it
            j = rng.randrange(len(ds["named"]))
            ds["named"][j] = [ds["named"][j][0], []]
        ds["union"] = rng.random() < 0.2
    return ds


def mutate_dataset(rng, ds):
    """a changed copy of the dataset: same graph names; triples removed, added, moved between graphs"""
    def mut(ts, pool):
        ts = [list(t) for t in ts]
        for _ in range(rng.randint(1, 2)):
            if ts and rng.random() < 0.6:
                ts.pop(rng.randrange(len(ts)))
        for _ in range(rng.randint(1, 2)):
            t = rng.choice(pool) if pool and rng.random() < 0.5 else gen_graph(rng, 1)[0]
            if t not in ts:
                ts.append(t)
        return ts
    everything = [t for ts in [ds["default"]] + [g[1] for g in ds["named"]] for t in ts]
    out = {"default": mut(ds["default"], everything), "named": [], "union": ds.get("union", False)}
    for name, ts in ds["named"]:
        out["named"].append([name, mut(ts, everything) if rng.random() < 0.7 else [list(t) for t in ts]])
    return out


def ds_terms(ds):
    out = []
    for ts in [ds["default"]] + [g[1] for g in ds["named"]]:
        for t in ts:
            for x in t:
                if x not in out:
                    out.append(x)
    return out


class Gen:
    """Query generator.  `depth` bounds nesting of groups; variables come from a pool of NPOOL so that sharing
    between siblings / OPTIONAL / MINUS / sub-select / BIND is frequent.  Knobs (all probabilities) are attributes."""

    def __init__(self, rng, ds, depth=3, pool=NPOOL, features=None):
        self.rng, self.ds, self.depth, self.pool = rng, ds, depth, pool
        self.terms = ds_terms(ds) or [["i", 0]]
        self.consts = [t for t in self.terms if t[0] != "b"]
        self.nodes = [t for t in self.consts if t[0] == "i"] or [["i", 0]]
        self.preds = []
        for ts in [ds["default"]] + [g[1] for g in ds["named"]]:
            for t in ts:
                if t[1] not in self.preds:
                    self.preds.append(t[1])
        self.preds = self.preds or [["i", 10]]
        self.has_named = bool(ds["named"])
        self.features = features or {"opt", "minus", "union", "graph", "values", "bind", "filter", "subsel", "group",
                                     "exists"}
        self.extra = pool  # next fresh variable for BIND when the pool is exhausted
        self.intended = {}  # variable -> the term it is meant to take (makes joins satisfiable most of the time)
        self.alltriples = [t for ts in [ds["default"]] * 3 + [g[1] for g in ds["named"]] for t in ts]

    def var(self):
        return self.rng.randrange(self.pool)

    def var_for(self, x, prefer, force=True):
        """a variable for a position whose witness term is x: mostly one whose intended value is x (so that joins
        are satisfiable), else a fresh one, else (rarely, or when forced) any — an unsatisfiable or accidental join"""
        r = self.rng
        eq = [v for v in range(self.pool) if self.intended.get(v) == x]
        free = [v for v in range(self.pool) if v not in self.intended]
        if eq and r.random() < 0.85:
            pe = [v for v in eq if v in prefer]
            return r.choice(pe) if pe and r.random() < 0.8 else r.choice(eq)
        if free and r.random() < 0.9:
            v = r.choice(free)
            self.intended[v] = x
            return v
        if not force and r.random() < 0.75:
            return None
        if prefer and r.random() < 0.5:
            return r.choice(sorted(prefer))
        return self.var()

    def tp(self, prefer, pool=None):
        r = self.rng
        ts = pool or self.alltriples
        if not ts or r.random() < 0.05:
            w = [r.choice(self.nodes), r.choice(self.preds), r.choice(self.consts)]
        else:
            iv = list(self.intended.values())
            near = [t for t in ts if t[0] in iv or t[2] in iv]
            w = r.choice(near) if near and r.random() < 0.75 else r.choice(ts)

        def pos(x, pvar):
            if x[0] == "b":
                return ["v", self.var_for(x, prefer)]
            if r.random() < pvar:
                v = self.var_for(x, prefer, force=False)
                if v is not None:
                    return ["v", v]
            return x
        return [pos(w[0], 0.75), pos(w[1], 0.15), pos(w[2], 0.7)]

    def triples(self, prefer, nmax=2, pool=None):
        n = 1 if self.rng.random() < 0.65 else self.rng.randint(2, max(2, nmax))
        tps = []
        for _ in range(n):
            tp = self.tp(prefer, pool)
            tps.append(tp)
            prefer = set(prefer) | pos_vars(tp)
        return ["tri", tps]

    def expr(self, scope, depth, outer):
        """scope: variables likely bound here; outer: variables visible only outside (scoping probes)"""
        r = self.rng
        def v():
            x = r.random()
            if scope and x < 0.8:
                return r.choice(sorted(scope))
            if outer and x < 0.93:
                return r.choice(sorted(outer))
            return self.var()
        x = r.random()
        if x < 0.34:
            y = r.random()
            a = v()
            iv = self.intended.get(a)
            others = [c for c in self.consts if c != iv] or self.consts
            if y < 0.3 and iv is not None and iv[0] != "b":
                e = ["cmp", "eq", ["var", a], ["const", iv]]
            elif y < 0.5:
                e = ["cmp", "ne", ["var", a], ["const", r.choice(others)]]
            elif y < 0.65:
                e = ["cmp", r.choice(["ne", "ne", "eq"]), ["var", a], ["var", v()]]
            elif y < 0.85:
                lits = [c for c in self.consts if c[0] in "nst"] or self.consts
                e = ["cmp", r.choice(["lt", "gt", "le", "ge"]), ["var", a],
                     ["var", v()] if r.random() < 0.3 else ["const", r.choice(lits)]]
            else:
                e = ["cmp", r.choice(OPS), ["var", a], ["const", r.choice(self.consts)]]
            if r.random() < 0.2:
                e = ["cmp", {"lt": "gt", "gt": "lt", "le": "ge", "ge": "le"}.get(e[1], e[1]), e[3], e[2]]
            return e
        if x < 0.46:
            return ["bound", v()]
        if x < 0.54:
            return ["not", ["bound", v()]]
        if x < 0.60:
            return ["var", v()]
        if x < 0.70 and depth > 0:
            return ["not", self.expr(scope, depth - 1, outer)]
        if x < 0.84 and depth > 0:
            return [r.choice(["and", "or"]), self.expr(scope, depth - 1, outer), self.expr(scope, depth - 1, outer)]
        if "exists" in self.features and depth > 0:
            return [r.choice(["exists", "nexists"]), self.exists_group(scope | outer, depth - 1)]
        return ["cmp", r.choice(["eq", "ne"]), ["var", v()], ["const", r.choice(self.consts)]]

    def exists_group(self, vis, depth):
        """pattern of an EXISTS: only constructs for which substitution (§18.6) is unambiguous and agrees with
        evaluating the pattern under the current solution: triples, nested groups, UNION, FILTER (top level), GRAPH."""
        r = self.rng
        elts = [self.triples(vis)]
        if vis and r.random() < 0.08:
            # outside that fragment (known finding C04-K4): a filter in a NESTED group, or the condition of an OPTIONAL,
            # that mentions a variable bound outside the EXISTS
            sc = in_scope(["group", elts])
            ov = r.choice(sorted(vis))
            iv = r.choice(sorted(sc)) if sc else ov
            f = ["filter", r.choice([["cmp", "ne", ["var", iv], ["var", ov]], ["bound", ov],
                                     ["cmp", "eq", ["var", iv], ["var", ov]]])]
            if r.random() < 0.5:
                return ["group", [["union", [["group", elts + [f]]]]]]
            return ["group", elts + [["opt", ["group", [self.triples(sc), f]]]]]
        if r.random() < 0.35:
            sc = in_scope(["group", elts])
            c = r.random()
            if c < 0.35:
                elts.append(["filter", self.expr(sc, 0, vis)])
            elif c < 0.75:
                elts.append(["union", [["group", [self.triples(sc)]], ["group", [self.triples(sc | vis)]]]])
            elif self.has_named and c < 0.9:
                gp, gpool = self.gpos(vis)
                elts = [["graph", gp, ["group", [self.triples(vis, pool=gpool)]]]]
            else:
                elts.append(self.triples(sc))
        return ["group", elts]

    def gpos(self, prefer):
        """name position of a GRAPH pattern + the triples its inner patterns should be drawn from"""
        r = self.rng
        name, ts = r.choice(self.ds["named"])
        if r.random() < 0.55:
            return ["v", self.var_for(name, prefer)], ts
        return name, ts

    def values(self, prefer):
        r = self.rng
        n = 1 if r.random() < 0.7 else 2
        vs = []
        while len(vs) < n:
            v = r.choice(sorted(prefer)) if prefer and r.random() < 0.7 else self.var()
            if v not in vs:
                vs.append(v)
        rows = []
        for _ in range(r.randint(1, 3)):
            rows.append([None if r.random() < 0.15 else r.choice(self.consts) for _ in vs])
        if r.random() < 0.75:
            keep = [self.intended[v] if (v in self.intended and self.intended[v][0] != "b") else None for v in vs]
            rows.insert(r.randrange(len(rows) + 1), keep)
        if r.random() < 0.25 and rows:
            rows.append(list(rows[0]))  # duplicate row: multiplicity
        x = r.random()
        if x < 0.05:
            return ["values", vs, []]                           # VALUES ?x { }: the empty multiset
        if x < 0.09:
            return ["values", [], [[]] * r.choice([1, 1, 2])]   # VALUES () { () }: empty solutions (join identity)
        return ["values", vs, rows]

    def group(self, depth, outer=frozenset(), first_tri=0.8, pool=None):
        """outer = variables in scope around this group (they get reused inside on purpose);
        pool = triples of the graph this group is matched against (witnesses for the triple patterns)"""
        r = self.rng
        elts = []
        n = r.choice([1, 2, 2, 3, 3, 4]) if depth > 0 else r.choice([1, 1, 2])
        if r.random() < first_tri:
            elts.append(self.triples(outer, pool=pool))
        while len(elts) < n:
            sc = in_scope(["group", elts])
            pref = sc | set(outer)
            kinds = ["tri"] * 3
            if depth > 0:
                for f, w in (("opt", 4), ("minus", 3), ("union", 3), ("group", 3), ("subsel", 3), ("graph", 3)):
                    if f in self.features and (f != "graph" or self.has_named):
                        kinds += [f] * w
            for f, w in (("values", 2), ("bind", 2), ("filter", 4)):
                if f in self.features:
                    kinds += [f] * w
            k = r.choice(kinds)
            if k == "tri":
                if elts and elts[-1][0] == "tri":
                    continue  # adjacent triples blocks are one block in the grammar
                elts.append(self.triples(pref, pool=pool))
            elif k == "opt":
                elts.append(["opt", self.group(depth - 1, pref, pool=pool)])
            elif k == "minus":
                elts.append(["minus", self.group(depth - 1, pref, pool=pool)])
            elif k == "union":
                elts.append(["union", [self.group(depth - 1, pref, pool=pool), self.group(depth - 1, pref, pool=pool)]])
            elif k == "group":
                elts.append(["union", [self.group(depth - 1, pref, pool=pool)]])
            elif k == "graph":
                gp, gpool = self.gpos(pref)
                elts.append(["graph", gp, self.group(depth - 1, pref, pool=gpool)])
            elif k == "subsel":
                g = self.group(depth - 1, pref, pool=pool)
                isc = sorted(in_scope(g))
                if not isc or r.random() < 0.15:
                    proj = None
                else:
                    proj = [v for v in isc if r.random() < 0.6] or [r.choice(isc)]
                    if r.random() < 0.1:
                        proj.append(self.var())
                        proj = list(dict.fromkeys(proj))
                elts.append(["subsel", proj, g])
            elif k == "values":
                elts.append(self.values(pref))
            elif k == "bind":
                free = [v for v in range(self.pool) if v not in sc]
                if free:
                    # prefer a variable that is in scope OUTSIDE (push-down probe), else any free one
                    cand = [v for v in free if v in outer]
                    tgt = r.choice(cand) if cand and r.random() < 0.5 else r.choice(free)
                else:
                    tgt = self.extra
                    self.extra += 1
                x = r.random()
                if x < 0.35:
                    e = ["const", r.choice(self.consts)]
                elif x < 0.6 and pref:
                    e = ["var", r.choice(sorted(pref))]
                else:
                    e = self.expr(sc, 1, set(outer) - sc)
                if tgt in all_vars_group(["group", [["filter", e]]]):
                    continue  # BIND(f(?x) AS ?x) is not a legal query
                elts.append(["bind", e, tgt])
            elif k == "filter":
                elts.append(["filter", self.expr(sc, 2 if depth > 0 else 1, set(outer) - sc)])
        # FILTER position inside the group is irrelevant to the algebra: shuffle sometimes
        if r.random() < 0.3:
            fi = [i for i, x in enumerate(elts) if x[0] == "filter"]
            if fi:
                x = elts.pop(r.choice(fi))
                elts.insert(r.randrange(len(elts) + 1), x)
        return ["group", _fix_binds(elts)]


def _probe_group(g):
    """scoping probe (see Gen.scope_probe): { OUTER binds ?v . WRAP{ [triple] BINDER(?v) CONSUMER(?v) } }"""
    r = g.rng
    ts = [t for t in g.alltriples if t[0][0] != "b" and t[2][0] != "b"] or [[["i", 0], ["i", 10], ["i", 1]]]
    w = r.choice(ts)
    pos = r.choice([0, 2, 2])
    x = w[pos]
    vs = list(range(g.pool))
    r.shuffle(vs)
    v, a, y, z = vs[0], vs[1], vs[2], vs[3]
    outer = [["v", a], w[1], ["v", v]] if pos == 2 else [["v", v], w[1], ["v", a]]
    if r.random() < 0.25:  # constant on the other side
        outer[0 if pos == 2 else 2] = w[0 if pos == 2 else 2]
    same = [t for t in ts if t[2] == x] or ts
    w2 = r.choice(same) if r.random() < 0.8 else r.choice(ts)
    others = [c for c in g.consts if c != x] or g.consts
    kind = r.choice(["bind", "bind", "bind", "bindconst", "values", "subsel", "tri"])
    inner = []
    if kind == "bind":
        inner.append(["tri", [[["v", y], w2[1], ["v", z]]]])
        e = ["var", z] if r.random() < 0.75 else r.choice([["cmp", "eq", ["var", z], ["const", x]], ["var", a]])
        inner.append(["bind", e, v])
    elif kind == "bindconst":
        if r.random() < 0.6:
            inner.append(["tri", [[["v", y], w2[1], ["v", z]]]])
        inner.append(["bind", ["const", x if r.random() < 0.75 else r.choice(others)], v])
    elif kind == "values":
        rows = [[x], [r.choice(others)]]
        if r.random() < 0.3:
            rows.append([None])
        r.shuffle(rows)
        inner.append(["values", [v], rows])
        if r.random() < 0.5:
            inner.append(["tri", [[["v", y], w2[1], ["v", v if r.random() < 0.5 else z]]]])
    elif kind == "subsel":
        sub = ["group", [["tri", [[["v", y], w2[1], ["v", v]]]]]]
        inner.append(["subsel", [v] if r.random() < 0.7 else [v, y], sub])
    else:
        inner.append(["tri", [[["v", y], w2[1], ["v", v]]]])
    c = r.random()
    subj_ts = [t for t in ts if t[0] == x]
    w3 = r.choice(subj_ts) if subj_ts and r.random() < 0.7 else r.choice(ts)
    free = z if kind not in ("bind",) else (a if r.random() < 0.3 else y)
    if c < 0.45:
        f = r.choice([["cmp", "eq", ["var", v], ["const", x]], ["cmp", "ne", ["var", v], ["const", r.choice(others)]],
                      ["bound", v], ["not", ["bound", v]], ["cmp", "ne", ["var", v], ["var", a]],
                      ["cmp", r.choice(["gt", "ge", "lt"]), ["var", v], ["const", r.choice(g.consts)]]])
        inner.append(["filter", f])
    elif c < 0.72:
        inner.append(["minus", ["group", [["tri", [[["v", v], w3[1], ["v", free] if r.random() < 0.6 else w3[2]]]]]]])
    else:
        og = [["tri", [[["v", v], w3[1], ["v", free]]]]]
        if r.random() < 0.4:
            og.append(["filter", r.choice([["cmp", "ne", ["var", free], ["var", v]], ["bound", v],
                                           ["cmp", "eq", ["var", v], ["const", x]]])])
        inner.append(["opt", ["group", og]])
    if r.random() < 0.2:
        r.shuffle(inner)
    inner = _fix_binds(_merge_tri(inner))
    wrap = r.random()
    if wrap < 0.6:
        nested = ["union", [["group", inner]]]
    elif wrap < 0.85:
        nested = ["opt", ["group", inner]]
    else:
        nested = ["union", [["group", inner], ["group", [["tri", [[["v", y], w2[1], ["v", v]]]]]]]]
    elts = [["tri", [outer]], nested]
    if r.random() < 0.25:
        elts.append(["filter", ["bound", v]] if r.random() < 0.5 else g.triples({v, a}))
    return ["group", _merge_tri(elts)]


def _graph_probe(g):
    """GRAPH ?g { body } where the body has a solution on a graph WITHOUT triples (only OPTIONAL parts, BIND, VALUES,
    a UNION with an empty branch, OPTIONAL + !bound, NOT EXISTS), optionally joined with something outside"""
    r = g.rng
    vs = list(range(g.pool))
    r.shuffle(vs)
    gv, a, b, c = vs
    ts = g.alltriples or [[["i", 0], ["i", 10], ["i", 1]]]
    w = r.choice(ts)
    tri = ["tri", [[["v", a], w[1] if r.random() < 0.7 else ["v", c], ["v", b]]]]
    k = r.random()
    if k < 0.25:
        body = [["opt", ["group", [tri]]]]
    elif k < 0.4:
        body = [["opt", ["group", [tri]]], ["filter", ["not", ["bound", a]]]]
    elif k < 0.55:
        body = [["bind", ["const", r.choice(g.consts)], a]]
    elif k < 0.7:
        body = [["union", [["group", [tri]], ["group", [["tri", []]]]]]]
    elif k < 0.8:
        body = [["values", [a], [[r.choice(g.consts)], [None]]]]
    elif k < 0.9:
        body = [["filter", ["nexists", ["group", [tri]]]]]
    else:
        body = [["opt", ["group", [tri]]], ["bind", ["bound", a], c]]
    body = _fix_binds(body)   # a BIND target must not be in scope before it (the predicate position may use ?c)
    gp = ["v", gv] if r.random() < 0.85 else r.choice([n for n, _ in g.ds["named"]])
    elts = [["graph", gp, ["group", body]]]
    x = r.random()
    if x < 0.3:
        elts.insert(0, g.triples({a, b}))
    elif x < 0.45:
        elts.append(["filter", ["bound", gv]])
    elif x < 0.55:
        names = [n for n, _ in g.ds["named"]]
        elts.insert(0, ["values", [gv], [[r.choice(names)], [r.choice(names + g.nodes)]]])
    return ["group", _merge_tri(elts)]


def _order_probe(g):
    """group-element ORDER probe: { P1  X  P3 } where X is a non-triple element (MINUS / OPTIONAL / BIND / FILTER /
    nested group / VALUES / sub-select / GRAPH) about a variable ?c that P1 does not bind and the triples P3 AFTER X do:
    §18.2.2.6 folds the elements left to right, so X sees P1 only (Minus(P1, X) joined with P3, not Minus(P1 + P3, X)).
    Also X first, X twice, and triples in every gap."""
    r = g.rng
    ts = [t for t in g.alltriples if t[0][0] != "b"] or [[["i", 0], ["i", 10], ["i", 1]]]
    vs = list(range(g.pool))
    r.shuffle(vs)
    a, b, c, d = vs
    w1 = r.choice(ts)
    same = [t for t in ts if t[0] == w1[0]] or ts
    w2 = r.choice(same) if r.random() < 0.85 else r.choice(ts)
    w3 = r.choice(same) if r.random() < 0.85 else r.choice(ts)

    def tri(s_, w, o_):
        return ["tri", [[["v", s_], w[1] if r.random() < 0.9 else ["v", d], ["v", o_]]]]

    def cst(x):
        return x if x[0] != "b" else r.choice(g.consts)
    p1 = tri(a, w1, b)
    p3 = tri(a, w3, c) if r.random() < 0.75 else tri(b, r.choice(ts), c)
    inner = ["group", [tri(a, w2, c)]]

    def elt():
        k = r.choice(["minus", "minus", "minus", "opt", "opt", "bind", "filter", "group", "values", "subsel", "graph"])
        if k == "minus":
            return ["minus", inner]
        if k == "opt":
            og = list(inner[1])
            if r.random() < 0.3:
                og.append(["filter", r.choice([["bound", c], ["cmp", "ne", ["var", c], ["var", b]]])])
            return ["opt", ["group", og]]
        if k == "bind":
            return ["bind", r.choice([["bound", c], ["var", b], ["cmp", "eq", ["var", b], ["const", cst(w1[2])]]]), d]
        if k == "filter":
            return ["filter", r.choice([["bound", c], ["not", ["bound", c]], ["cmp", "ne", ["var", c], ["var", b]]])]
        if k == "group":
            return ["union", [inner] if r.random() < 0.6 else [inner, ["group", [["tri", []]]]]]
        if k == "values":
            return ["values", [c], [[cst(w2[2])], [cst(w3[2])]] if r.random() < 0.7 else [[cst(w2[2])], [None]]]
        if k == "subsel":
            return ["subsel", [a, c] if r.random() < 0.6 else [c], inner]
        if g.has_named:
            gp, gpool = g.gpos({a, c})
            return ["graph", gp, inner]
        return ["minus", inner]
    shape = r.random()
    if shape < 0.55:
        elts = [p1, elt(), p3]
    elif shape < 0.7:
        elts = [elt(), p3]
    elif shape < 0.85:
        elts = [p1, elt(), p3, elt(), tri(a, r.choice(same), d if r.random() < 0.5 else c)]
    else:
        elts = [p1, elt(), elt(), p3]
    if r.random() < 0.15:
        elts = [["union", [["group", _fix_binds(elts)]]], g.triples({a, c})]
    return ["group", _fix_binds(elts)]


def _fix_binds(elts):
    """BIND's variable must not be in scope in the part of the group before it (§18.2.1 / grammar note 12);
    after a shuffle nothing about BIND changes (only filters move), so just re-check and drop offenders."""
    out = []
    for x in elts:
        if x[0] == "bind" and x[2] in in_scope(["group", out]):
            continue
        out.append(x)
    return out or [["tri", []]]


def gen_query(rng, ds, depth=3, forms=("select", "select", "select", "ask", "construct"), features=None,
              probe_share=0.0):
    g = Gen(rng, ds, depth, features=features)
    if probe_share and g.has_named and rng.random() < probe_share / 4:
        where = _graph_probe(g)   # GRAPH ?g over bodies that match a graph without triples
    elif probe_share and rng.random() < probe_share / 3:
        where = _order_probe(g)   # triples before AND after a MINUS / OPTIONAL / BIND / FILTER / sub-group / VALUES / sub-select
    elif probe_share and rng.random() < probe_share:
        where = _probe_group(g)   # a variable bound inside a nested group AND by its sibling, with FILTER/MINUS/OPTIONAL on it
    else:
        where = g.group(depth, first_tri=0.9)
    form = rng.choice(list(forms))
    q = {"form": form, "proj": None, "where": where, "template": []}
    sc = sorted(in_scope(where))
    if form == "select":
        if sc and rng.random() < 0.6:
            proj = [v for v in sc if rng.random() < 0.65] or [rng.choice(sc)]
            if rng.random() < 0.1:
                proj.append(g.var())
            rng.shuffle(proj)
            q["proj"] = list(dict.fromkeys(proj))
    elif form == "construct":
        tpl = []
        for _ in range(rng.randint(1, 3)):
            def pos(kind):
                x = rng.random()
                if sc and x < 0.6:
                    return ["v", rng.choice(sc)]
                if x < 0.7:
                    return ["v", g.var()]
                if kind == "p":
                    return rng.choice(g.preds)
                if kind == "s":
                    return rng.choice(g.nodes)
                return rng.choice(g.consts)
            tp = [pos("s"), pos("p"), pos("o")]
            x = rng.random()
            if x < 0.3:
                tp[rng.choice([0, 2])] = ["tb", rng.randint(0, 1)]
            elif x < 0.42:
                # two template blank nodes in one triple (the same one twice, or two different ones)
                tp[0] = ["tb", rng.randint(0, 1)]
                tp[2] = ["tb", rng.randint(0, 1)]
            tpl.append(tp)
        q["template"] = tpl
    return q


# --------------------------------------------------------------------------- statistics


def stats_of(q):
    st = {}

    def bump(k, n=1):
        st[k] = st.get(k, 0) + n

    def ex(e, top=True):
        k = e[0]
        bump("expr_" + k)
        if k == "cmp":
            ex(e[2], False); ex(e[3], False)
        elif k in ("and", "or"):
            ex(e[1], False); ex(e[2], False)
        elif k == "not":
            ex(e[1], False)
        elif k in ("exists", "nexists"):
            gr(e[1], 0)

    def has_var(e):
        k = e[0]
        if k in ("var", "bound", "exists", "nexists"):
            return True
        if k == "cmp":
            return has_var(e[2]) or has_var(e[3])
        if k in ("and", "or"):
            return has_var(e[1]) or has_var(e[2])
        if k == "not":
            return has_var(e[1])
        return False

    def gr(g, d):
        st["max_depth"] = max(st.get("max_depth", 0), d)
        for x in g[1]:
            k = x[0]
            bump("elt_" + k)
            if k in ("opt", "minus"):
                gr(x[1], d + 1)
            elif k == "union":
                for h in x[1]:
                    gr(h, d + 1)
            elif k == "graph":
                bump("graph_var" if is_var(x[1]) else "graph_const"); gr(x[2], d + 1)
            elif k == "bind":
                ex(x[1])
            elif k == "filter":
                bump("filters")
                if not has_var(x[1]):
                    bump("filters_constant")
                ex(x[1])
            elif k == "subsel":
                gr(x[2], d + 1)
    gr(q["where"], 0)
    d = st.pop("max_depth", 0)
    st[f"depth_{d}"] = 1
    st["form_" + q["form"]] = 1
    return st


# --------------------------------------------------------------------------- shrinking


def _shrink_expr(e):
    k = e[0]
    if k in ("and", "or"):
        yield e[1]; yield e[2]
        for a in _shrink_expr(e[1]):
            yield [k, a, e[2]]
        for b in _shrink_expr(e[2]):
            yield [k, e[1], b]
    elif k == "not":
        yield e[1]
        for a in _shrink_expr(e[1]):
            yield ["not", a]
    elif k in ("exists", "nexists"):
        for g in _shrink_group(e[1]):
            yield [k, g]
    elif k == "cmp":
        if e[1] not in ("eq", "ne"):
            yield ["cmp", "eq", e[2], e[3]]


def _shrink_group(g):
    elts = g[1]
    for i in range(len(elts)):
        if len(elts) > 1 or elts[i][0] != "tri":
            rest = elts[:i] + elts[i + 1:]
            yield ["group", _fix_binds(_merge_tri(rest))]
    for i, x in enumerate(elts):
        k = x[0]
        def put(y):
            return ["group", _fix_binds(_merge_tri(elts[:i] + [y] + elts[i + 1:]))]
        if k == "tri":
            for j in range(len(x[1])):
                if len(x[1]) > 1:
                    yield put(["tri", x[1][:j] + x[1][j + 1:]])
        elif k in ("opt", "minus"):
            for h in _shrink_group(x[1]):
                yield put([k, h])
        elif k == "union":
            if len(x[1]) > 1:
                for j in range(len(x[1])):
                    yield put(["union", x[1][:j] + x[1][j + 1:]])
            else:
                # inline a nested group
                yield ["group", _fix_binds(_merge_tri(elts[:i] + x[1][0][1] + elts[i + 1:]))]
            for j, h in enumerate(x[1]):
                for h2 in _shrink_group(h):
                    yield put(["union", x[1][:j] + [h2] + x[1][j + 1:]])
        elif k == "graph":
            yield put(["union", [x[2]]])
            for h in _shrink_group(x[2]):
                yield put(["graph", x[1], h])
        elif k == "values":
            for j in range(len(x[2])):
                if len(x[2]) > 1:
                    yield put(["values", x[1], x[2][:j] + x[2][j + 1:]])
            if len(x[1]) > 1:
                for j in range(len(x[1])):
                    yield put(["values", x[1][:j] + x[1][j + 1:], [r[:j] + r[j + 1:] for r in x[2]]])
        elif k == "bind":
            for e in _shrink_expr(x[1]):
                yield put(["bind", e, x[2]])
            if x[1][0] != "const":
                yield put(["bind", ["const", ["n", 1]], x[2]])
        elif k == "filter":
            for e in _shrink_expr(x[1]):
                yield put(["filter", e])
        elif k == "subsel":
            yield put(["union", [x[2]]])
            if x[1] is not None and len(x[1]) > 1:
                for j in range(len(x[1])):
                    yield put(["subsel", x[1][:j] + x[1][j + 1:], x[2]])
            for h in _shrink_group(x[2]):
                yield put(["subsel", x[1], h])


def _merge_tri(elts):
    out = []
    for x in elts:
        if x[0] == "tri" and out and out[-1][0] == "tri":
            out[-1] = ["tri", out[-1][1] + x[1]]
        else:
            out.append(x)
    return out


def shrink_query(q):
    for g in _shrink_group(q["where"]):
        yield {**q, "where": g}
    if q["form"] == "select" and q["proj"] is not None:
        yield {**q, "proj": None}
        if len(q["proj"]) > 1:
            for j in range(len(q["proj"])):
                yield {**q, "proj": q["proj"][:j] + q["proj"][j + 1:]}
    if q["form"] == "construct" and len(q["template"]) > 1:
        for j in range(len(q["template"])):
            yield {**q, "template": q["template"][:j] + q["template"][j + 1:]}


def shrink_dataset(ds):
    for i in range(len(ds["default"])):
        yield {**ds, "default": ds["default"][:i] + ds["default"][i + 1:]}
    for gi, (name, ts) in enumerate(ds["named"]):
        yield {**ds, "named": ds["named"][:gi] + ds["named"][gi + 1:]}
        for i in range(len(ts)):
            yield {**ds, "named": ds["named"][:gi] + [[name, ts[:i] + ts[i + 1:]]] + ds["named"][gi + 1:]}
    if ds.get("union"):
        yield {**ds, "union": False}


# =========================================================================== rdflib adapters

_E = "http://e/"


def to_rdflib_term(t):
    from rdflib import BNode, Literal, URIRef
    k, v = t[0], t[1]
    if k == "i":
        return URIRef(_E + str(v))
    if k == "b":
        return BNode(f"b{v}")
    if k == "n":
        return Literal(int(v))
    if k == "s":
        return Literal(v)
    if k == "t":
        return Literal(bool(v))
    raise ValueError(t)


def from_rdflib_term(x, fresh=None):
    """rdflib term -> term tuple; unknown blank nodes (CONSTRUCT's fresh ones) become ("fb", 0, n)."""
    from rdflib import BNode, Literal, URIRef
    from rdflib.namespace import XSD
    if isinstance(x, URIRef):
        s = str(x)
        if s.startswith(_E) and s[len(_E):].isdigit():
            return ("i", int(s[len(_E):]))
        return ("other", s)
    if isinstance(x, BNode):
        s = str(x)
        if s.startswith("b") and s[1:].isdigit():
            return ("b", int(s[1:]))
        if fresh is not None:
            return ("fb", 0, fresh.setdefault(s, len(fresh)))
        return ("other", "bnode:" + s)
    if isinstance(x, Literal):
        if x.datatype is None and x.language is None:
            return ("s", str(x))
        if x.datatype == XSD.integer:
            return ("n", int(x))
        if x.datatype == XSD.boolean:
            return ("t", str(x) in ("true", "1"))
        return ("other", x.n3())
    return ("other", repr(x))


def to_rdflib_dataset(ds):
    from rdflib import Dataset
    d = Dataset(default_union=bool(ds.get("union")))
    for s, p, o in ds["default"]:
        d.add((to_rdflib_term(s), to_rdflib_term(p), to_rdflib_term(o)))
    for name, ts in ds["named"]:
        g = d.graph(to_rdflib_term(name))
        for s, p, o in ts:
            g.add((to_rdflib_term(s), to_rdflib_term(p), to_rdflib_term(o)))
    return d


def to_rdflib_graph(ds):
    from rdflib import Graph
    g = Graph()
    for s, p, o in ds["default"]:
        g.add((to_rdflib_term(s), to_rdflib_term(p), to_rdflib_term(o)))
    return g


def _vid(v):
    s = str(v)
    if s.startswith("v") and s[1:].isdigit():
        return int(s[1:])
    raise ValueError(f"foreign variable {s}")


def read_rdflib_result(r):
    """Observe a rdflib Result through vars / bindings / askAnswer / graph."""
    if r.type == "ASK":
        return {"ask": bool(r.askAnswer)}
    if r.type == "CONSTRUCT":
        fresh = {}
        return {"graph": {tuple(from_rdflib_term(x, fresh) for x in t) for t in r.graph}}
    vs = [_vid(v) for v in r.vars]
    bag = [{_vid(k): from_rdflib_term(v) for k, v in b.items()} for b in r.bindings]
    return {"vars": vs, "bag": bag}


def run_rdflib(ds, q, graph=None, prepared=False):
    g = graph if graph is not None else (to_rdflib_dataset(ds) if ds["named"] or ds.get("union") else to_rdflib_graph(ds))
    text = to_sparql(q)
    if prepared:
        from rdflib.plugins.sparql import prepareQuery
        return read_rdflib_result(g.query(prepareQuery(text)))
    return read_rdflib_result(g.query(text))


# ---- rdflib's own translated algebra -> s-expression (for the Lean model of evalPart)


def _enc_pos(x):
    from rdflib import BNode, Variable
    if isinstance(x, Variable):
        return f"?{_vid(x)}"
    if isinstance(x, BNode):
        raise ValueError("blank node label in a query pattern is outside the modelled fragment")
    return term_code(from_rdflib_term(x))


def _enc_vars(vs, keep_order=False):
    from rdflib import Variable
    ks = [_vid(v) for v in (vs or []) if isinstance(v, Variable)]
    if not keep_order:
        ks = sorted(set(ks))
    return "(vars" + "".join(f" {k}" for k in ks) + ")"


def _enc_ovars(vs):
    return "none" if vs is None else _enc_vars(vs)


_RELOP = {"=": "eq", "!=": "ne", "<": "lt", ">": "gt", "<=": "le", ">=": "ge"}


def _enc_expr(e):
    from rdflib import Variable
    from rdflib.plugins.sparql.parserutils import CompValue
    if isinstance(e, Variable):
        return f"(var {_vid(e)})"
    if isinstance(e, CompValue):
        n = e.name
        raw = lambda k: dict.get(e, k)  # noqa: E731  (CompValue.__getitem__ would evaluate)
        if n == "TrueFilter":
            return "(const t1)"
        if n == "RelationalExpression":
            return f"(cmp {_RELOP[raw('op')]} {_enc_expr(raw('expr'))} {_enc_expr(raw('other'))})"
        if n in ("ConditionalAndExpression", "ConditionalOrExpression"):
            k = "and" if n == "ConditionalAndExpression" else "or"
            acc = _enc_expr(raw("expr"))
            for o in raw("other"):
                acc = f"({k} {acc} {_enc_expr(o)})"
            return acc
        if n == "UnaryNot":
            return f"(not {_enc_expr(raw('expr'))})"
        if n == "Builtin_BOUND":
            return f"(bound {_vid(raw('arg'))})"
        if n in ("Builtin_EXISTS", "Builtin_NOTEXISTS"):
            # translateExists stores the translated pattern as a Python ATTRIBUTE (`n.graph = …`), the dict entry
            # keeps the parse tree; evaluation reads the attribute, and so do we.
            return f"({'exists' if n == 'Builtin_EXISTS' else 'nexists'} {encode_rdflib_algebra(e.graph)})"
        raise ValueError(f"expression {n} outside the modelled fragment")
    return f"(const {term_code(from_rdflib_term(e))})"


def encode_rdflib_algebra(p):
    """s-expression of a node of rdflib's translated algebra (prepareQuery(...).algebra), annotations included
    exactly where evaluate.py reads them:
       (bgp s p o …) (join LAZY a b) (leftjoin a b expr none|(vars p1._vars) none|(vars p2._vars))
       (filter expr a (vars _vars) NOISO) (union a b) (minus a b none|(vars p1._vars) none|(vars p2._vars)) (extend a k expr (vars _vars))
       (graph pos a) (values (vars …) (row …)…) (project a (vars PV)) [a sub-select: ToMultiSet(Project)]
       root: (select (vars PV) a) | (ask (vars PV) a) | (construct (tri …) (vars PV) a)
    Nodes inside EXISTS are never annotated by rdflib (`lazy`, `_vars` are None there)."""
    n = p.name
    if n == "BGP":
        return "(bgp" + "".join(f" {_enc_pos(s)} {_enc_pos(pp)} {_enc_pos(o)}" for s, pp, o in p.triples) + ")"
    if n == "Join":
        return f"(join {1 if p.lazy else 0} {encode_rdflib_algebra(p.p1)} {encode_rdflib_algebra(p.p2)})"
    if n == "LeftJoin":
        return (f"(leftjoin {encode_rdflib_algebra(p.p1)} {encode_rdflib_algebra(p.p2)} {_enc_expr(dict.get(p, 'expr'))} "
                f"{_enc_ovars(p.p1._vars)} {_enc_ovars(p.p2._vars)})")
    if n == "Filter":
        return (f"(filter {_enc_expr(dict.get(p, 'expr'))} {encode_rdflib_algebra(p.p)} {_enc_vars(p._vars)} "
                f"{1 if p.no_isolated_scope else 0})")
    if n == "Union":
        return f"(union {encode_rdflib_algebra(p.p1)} {encode_rdflib_algebra(p.p2)})"
    if n == "Minus":
        return (f"(minus {encode_rdflib_algebra(p.p1)} {encode_rdflib_algebra(p.p2)} {_enc_ovars(p.p1._vars)} "
                f"{_enc_ovars(p.p2._vars)})")
    if n == "Extend":
        return (f"(extend {encode_rdflib_algebra(p.p)} {_vid(p.var)} {_enc_expr(dict.get(p, 'expr'))} "
                f"{_enc_vars(p._vars)})")
    if n == "Graph":
        return f"(graph {_enc_pos(p.term)} {encode_rdflib_algebra(p.p)})"
    if n == "ToMultiSet":
        inner = p.p
        if isinstance(inner, list):  # before fix C04-F16 VALUES with no variables / no rows translated to a bare list
            raise ValueError("ToMultiSet of a bare list: translateValues did not build a values node")
        if inner.name == "values":
            res = inner.res
            vs = []
            for r in res:
                for k in r:
                    if _vid(k) not in vs:
                        vs.append(_vid(k))
            rows = []
            from rdflib import Variable
            from rdflib.term import Identifier
            for r in res:
                cells = []
                for v in vs:
                    c = r.get(Variable(f"v{v}"), "UNDEF")
                    cells.append(term_code(from_rdflib_term(c)) if isinstance(c, Identifier) else "U")
                rows.append("(row " + " ".join(cells) + ")")
            return "(values (vars" + "".join(f" {v}" for v in vs) + ")" + "".join(" " + x for x in rows) + ")"
        if inner.name == "Project":
            return f"(project {encode_rdflib_algebra(inner.p)} {_enc_vars(inner.PV)})"
        raise ValueError(f"ToMultiSet({inner.name}) outside the modelled fragment")
    if n in ("SelectQuery", "AskQuery", "ConstructQuery"):
        proj = p.p
        if proj.name != "Project":
            raise ValueError(f"solution modifier {proj.name} outside the modelled fragment")
        body = encode_rdflib_algebra(proj.p)
        pv = _enc_vars(proj.PV, keep_order=True)
        if n == "SelectQuery":
            return f"(select {pv} {body})"
        if n == "AskQuery":
            return f"(ask {pv} {body})"
        tpl = p.template or []
        return "(construct (tri" + "".join(" " + _enc_tpl(t) for t in tpl) + f") {pv} {body})"
    raise ValueError(f"algebra node {n} outside the modelled fragment")


def _enc_tpl(t):
    from rdflib import BNode, Variable
    out = []
    for x in t:
        if isinstance(x, Variable):
            out.append(f"?{_vid(x)}")
        elif isinstance(x, BNode):
            s = str(x)
            out.append("f" + (s[1:] if s.startswith("t") and s[1:].isdigit() else "0"))
        else:
            out.append(term_code(from_rdflib_term(x)))
    return " ".join(out)


# =========================================================================== Safe / InFragment (mirror of RV/C04/Safe.lean)
# The Lean definitions are the reference; the driver prints them (`safe …`) and c04.py compares on every case.


def parse_sx(text):
    toks = text.replace("(", " ( ").replace(")", " ) ").split()
    pos = 0

    def rd():
        nonlocal pos
        t = toks[pos]; pos += 1
        if t == "(":
            out = []
            while toks[pos] != ")":
                out.append(rd())
            pos += 1
            return out
        return t
    return rd()


def _pv(p):
    return [int(p[1:])] if p.startswith("?") else []


def _tpsvars(items):
    out = []
    for x in items:
        out += _pv(x)
    return out


def _ints(v):  # (vars k…)
    return [int(x) for x in v[1:]]


def _values_cols(a):
    vs = _ints(a[1])
    rows = [r[1:] for r in a[2:]]
    return vs, rows


def alg_must(a):
    k = a[0]
    if k == "bgp":
        return _tpsvars(a[1:])
    if k == "join":
        return alg_must(a[2]) + alg_must(a[3])
    if k in ("leftjoin", "minus"):
        return alg_must(a[1])
    if k == "filter":
        return alg_must(a[2])
    if k == "union":
        b = alg_must(a[2])
        return [v for v in alg_must(a[1]) if v in b]
    if k == "extend":
        return alg_must(a[1])
    if k == "graph":
        return _pv(a[1]) + alg_must(a[2])
    if k == "values":
        return []  # UNDEF cells: nothing is guaranteed (as in Safe.lean)
    if k == "project":
        pv = _ints(a[2])
        return [v for v in alg_must(a[1]) if v in pv]
    raise ValueError(a)


def alg_may(a):
    k = a[0]
    if k == "bgp":
        return _tpsvars(a[1:])
    if k == "join":
        return alg_may(a[2]) + alg_may(a[3])
    if k == "leftjoin":
        return alg_may(a[1]) + alg_may(a[2])
    if k == "minus":
        return alg_may(a[1])
    if k == "filter":
        return alg_may(a[2])
    if k == "union":
        return alg_may(a[1]) + alg_may(a[2])
    if k == "extend":
        return [int(a[2])] + alg_may(a[1])
    if k == "graph":
        return _pv(a[1]) + alg_may(a[2])
    if k == "values":
        return _ints(a[1])
    if k == "project":
        pv = _ints(a[2])
        return [v for v in alg_may(a[1]) if v in pv]
    raise ValueError(a)


def expr_vars(e):
    k = e[0]
    if k in ("var", "bound"):
        return [int(e[1])]
    if k == "const":
        return []
    if k == "cmp":
        return expr_vars(e[2]) + expr_vars(e[3])
    if k in ("and", "or"):
        return expr_vars(e[1]) + expr_vars(e[2])
    if k == "not":
        return expr_vars(e[1])
    if k in ("exists", "nexists"):
        return alg_all_vars(e[1])
    raise ValueError(e)


def alg_all_vars(a):
    k = a[0]
    if k == "bgp":
        return _tpsvars(a[1:])
    if k == "join":
        return alg_all_vars(a[2]) + alg_all_vars(a[3])
    if k == "leftjoin":
        return alg_all_vars(a[1]) + alg_all_vars(a[2]) + expr_vars(a[3])
    if k == "filter":
        return expr_vars(a[1]) + alg_all_vars(a[2])
    if k in ("union", "minus"):
        return alg_all_vars(a[1]) + alg_all_vars(a[2])
    if k == "extend":
        return [int(a[2])] + expr_vars(a[3]) + alg_all_vars(a[1])
    if k == "graph":
        return _pv(a[1]) + alg_all_vars(a[2])
    if k == "values":
        return _ints(a[1])
    if k == "project":
        return _ints(a[2]) + alg_all_vars(a[1])
    raise ValueError(a)


def exists_free(e):
    k = e[0]
    if k in ("var", "const", "bound"):
        return True
    if k == "cmp":
        return exists_free(e[2]) and exists_free(e[3])
    if k in ("and", "or"):
        return exists_free(e[1]) and exists_free(e[2])
    if k == "not":
        return exists_free(e[1])
    return False


def _exists_body(a):
    k = a[0]
    if k == "bgp":
        return True
    if k == "join":
        return a[1] == "0" and _exists_body(a[2]) and _exists_body(a[3])
    if k == "union":
        return _exists_body(a[1]) and _exists_body(a[2])
    if k == "graph":
        return _exists_body(a[2])
    return False


def _exists_ok(a):
    if a[0] == "filter":
        return a[4] == "1" and exists_free(a[1]) and _exists_body(a[2])
    return _exists_body(a)


def scope_problems(rel, ann, must, may):
    """kinds of the ways the annotation `ann` is inexact on the relevant variables `rel` (see Safe.lean):
       K3 listed but never bound by the sub-pattern, K1 listed but bound only in some solutions, K2 bound but not listed"""
    out = set()
    for i in rel:
        if i in ann and i not in must:
            out.add("K1" if i in may else "K3")
        if i in may and i not in ann:
            out.add("K2")
    return out


def alg_problems(a, out=None):
    """set of reasons why `Alg.safe` is false (empty set = safe): K1/K2/K3 (known-finding classes), 'illformed-bind',
    'exists-unsupported', 'noiso'"""
    out = set() if out is None else out
    k = a[0]

    def ex(e):
        kk = e[0]
        if kk == "cmp":
            ex(e[2]); ex(e[3])
        elif kk in ("and", "or"):
            ex(e[1]); ex(e[2])
        elif kk == "not":
            ex(e[1])
        elif kk in ("exists", "nexists"):
            if not _exists_ok(e[1]):
                out.add("exists-unsupported")
    if k in ("bgp", "values"):
        pass
    elif k == "join":
        alg_problems(a[2], out); alg_problems(a[3], out)
    elif k == "union":
        alg_problems(a[1], out); alg_problems(a[2], out)
    elif k == "filter":
        alg_problems(a[2], out); ex(a[1])
        if a[4] == "1":
            out.add("noiso")
        out |= scope_problems(expr_vars(a[1]), _ints(a[3]), alg_must(a[2]), alg_may(a[2]))
    elif k == "extend":
        alg_problems(a[1], out); ex(a[3])
        v = int(a[2])
        if v in alg_may(a[1]) or v in expr_vars(a[3]):
            out.add("illformed-bind")
        out |= scope_problems(expr_vars(a[3]), _ints(a[4]), alg_must(a[1]), alg_may(a[1]))
    elif k in ("project",):
        alg_problems(a[1], out)
    elif k == "graph":
        alg_problems(a[2], out)
    elif k == "minus":
        alg_problems(a[1], out); alg_problems(a[2], out)
        if a[3] == "none":
            out.add("exists-unsupported")
        else:
            out |= scope_problems(alg_may(a[2]), _ints(a[3]), alg_must(a[1]), alg_may(a[1]))
        if a[4] != "none" and any(v not in _ints(a[4]) for v in alg_may(a[2])):
            out.add("K2")  # the right side's `_vars` misses a variable it binds (VALUES)
    elif k == "leftjoin":
        alg_problems(a[1], out); alg_problems(a[2], out); ex(a[3])
        p1 = None if a[4] == "none" else _ints(a[4])
        own = [] if (a[4] == "none" or a[5] == "none") else _ints(a[4]) + _ints(a[5])
        out |= scope_problems(expr_vars(a[3]), own, alg_must(a[1]) + alg_must(a[2]), alg_may(a[1]) + alg_may(a[2]))
        if p1 is None:
            out.add("exists-unsupported")
        else:
            out |= scope_problems(alg_may(a[2]) + expr_vars(a[3]), p1, alg_must(a[1]), alg_may(a[1]))
    else:
        raise ValueError(a)
    return out


def _scope_forget(ctx, rel, ann, must, may):
    """mirror of Safe.lean `scopeForget`: only variables the context may bind matter"""
    return scope_problems([i for i in rel if i in ctx], ann, must, may)


def _scope_remember(ctx, rel, ann, must, may):
    """mirror of Safe.lean `scopeRemember`: 'bound but not listed' (K2) matters whatever the context"""
    out = set()
    for i in rel:
        if i in ctx and i in ann and i not in must:
            out.add("K1" if i in may else "K3")
        if i in may and i not in ann:
            out.add("K2")
    return out


def alg_problems_in(a, ctx=(), out=None):
    """set of reasons why `Alg.safeIn a ctx` is false (empty set = safe in every context binding at most `ctx`);
    mirror of RV/C04/Safe.lean `Alg.safeIn` (round g: the context-sensitive `Safe`)"""
    out = set() if out is None else out
    ctx = list(ctx)
    k = a[0]

    def ex(e):
        kk = e[0]
        if kk == "cmp":
            ex(e[2]); ex(e[3])
        elif kk in ("and", "or"):
            ex(e[1]); ex(e[2])
        elif kk == "not":
            ex(e[1])
        elif kk in ("exists", "nexists"):
            if not _exists_ok(e[1]):
                out.add("exists-unsupported")
    if k in ("bgp", "values"):
        pass
    elif k == "join":
        alg_problems_in(a[2], ctx, out)
        alg_problems_in(a[3], ctx + alg_may(a[2]) if a[1] == "1" else ctx, out)
    elif k == "union":
        alg_problems_in(a[1], ctx, out); alg_problems_in(a[2], ctx, out)
    elif k == "filter":
        alg_problems_in(a[2], ctx, out); ex(a[1])
        if a[4] == "1":
            out.add("noiso")
        out |= _scope_forget(ctx, expr_vars(a[1]), _ints(a[3]), alg_must(a[2]), alg_may(a[2]))
    elif k == "extend":
        alg_problems_in(a[1], ctx, out); ex(a[3])
        v = int(a[2])
        if v in alg_may(a[1]) or v in expr_vars(a[3]):
            out.add("illformed-bind")
        out |= _scope_forget(ctx, expr_vars(a[3]), _ints(a[4]), alg_must(a[1]), alg_may(a[1]))
    elif k == "project":
        alg_problems_in(a[1], [], out)
    elif k == "graph":
        alg_problems_in(a[2], ctx, out)
    elif k == "minus":
        alg_problems_in(a[1], ctx, out); alg_problems_in(a[2], [], out)
        if a[3] == "none":
            out.add("exists-unsupported")
        else:
            out |= _scope_remember(ctx, alg_may(a[2]), _ints(a[3]), alg_must(a[1]), alg_may(a[1]))
        if a[4] != "none" and any(v not in _ints(a[4]) for v in alg_may(a[2])):
            out.add("K2")
    elif k == "leftjoin":
        alg_problems_in(a[1], ctx, out); alg_problems_in(a[2], ctx + alg_may(a[1]), out); ex(a[3])
        p1 = None if a[4] == "none" else _ints(a[4])
        own = [] if (a[4] == "none" or a[5] == "none") else _ints(a[4]) + _ints(a[5])
        out |= _scope_forget(ctx, expr_vars(a[3]), own, alg_must(a[1]) + alg_must(a[2]), alg_may(a[1]) + alg_may(a[2]))
        if p1 is None:
            out.add("exists-unsupported")
        else:
            out |= _scope_remember(ctx, alg_may(a[2]) + expr_vars(a[3]), p1, alg_must(a[1]), alg_may(a[1]))
    else:
        raise ValueError(a)
    return out


def alg_in_fragment(a):
    k = a[0]
    if k in ("bgp", "values"):
        return True
    if k == "join":
        return alg_in_fragment(a[2]) and alg_in_fragment(a[3])
    if k == "union":
        return alg_in_fragment(a[1]) and alg_in_fragment(a[2])
    if k == "filter":
        return alg_in_fragment(a[2])
    if k == "extend":
        return alg_in_fragment(a[1])
    if k == "project":
        return alg_in_fragment(a[1])
    if k == "graph":
        return alg_in_fragment(a[2])
    if k == "minus":
        return alg_in_fragment(a[1]) and alg_in_fragment(a[2])
    if k == "leftjoin":
        return alg_in_fragment(a[1]) and alg_in_fragment(a[2])
    return False


def query_pattern(qsx):
    """pattern of an encoded root: (select pv a) (ask pv a) (construct tpl pv a)"""
    return qsx[-1]


# =========================================================================== what rdflib's `_addVars` is expected to compute
# (used by the known-finding matchers of C04: a known `_vars` imprecision is only accepted when the annotations of the tree
#  are exactly the ones the CURRENT `_addVars` produces — a change of `_addVars` itself is a new defect, never a known one)


def expr_annot_vars(e):
    """`_vars` rdflib attaches to an expression node: RelationalExpression -> empty, otherwise the variables below"""
    k = e[0]
    if k in ("var", "bound"):
        return {int(e[1])}
    if k in ("const", "cmp"):
        return set()
    if k in ("and", "or"):
        return expr_annot_vars(e[1]) | expr_annot_vars(e[2])
    if k == "not":
        return expr_annot_vars(e[1])
    if k in ("exists", "nexists"):
        return _pattern_annot_vars(e[1])
    raise ValueError(e)


def _pattern_annot_vars(a):
    """variables `_traverseAgg` meets in the (untranslated) parse tree of an EXISTS pattern"""
    k = a[0]
    if k == "bgp":
        return set(_tpsvars(a[1:]))
    if k == "join":
        return _pattern_annot_vars(a[2]) | _pattern_annot_vars(a[3])
    if k in ("union", "minus"):
        return _pattern_annot_vars(a[1]) | _pattern_annot_vars(a[2])
    if k == "leftjoin":
        return _pattern_annot_vars(a[1]) | _pattern_annot_vars(a[2]) | expr_annot_vars(a[3])
    if k == "filter":
        return expr_annot_vars(a[1]) | _pattern_annot_vars(a[2])
    if k == "graph":
        return set(_pv(a[1])) | _pattern_annot_vars(a[2])
    if k == "extend":
        return {int(a[2])} | expr_annot_vars(a[3]) | _pattern_annot_vars(a[1])
    if k == "values":
        return set(_ints(a[1]))
    if k == "project":
        return set(_ints(a[2])) | _pattern_annot_vars(a[1])
    raise ValueError(a)


def node_vars(a):
    """the `_vars` the current rdflib (`algebra._addVars`) gives to an algebra node outside EXISTS"""
    k = a[0]
    if k == "bgp":
        return set(_tpsvars(a[1:]))
    if k == "join":
        return node_vars(a[2]) | node_vars(a[3])
    if k == "union":
        return node_vars(a[1]) | node_vars(a[2])
    if k == "leftjoin":
        # the condition binds nothing: since main's repair "the condition of an OPTIONAL binds nothing" `_addVars`
        # leaves the `expr` child out, as it does for Filter and Extend
        return node_vars(a[1]) | node_vars(a[2])
    if k == "filter":
        return node_vars(a[2])
    if k == "extend":
        return node_vars(a[1]) | {int(a[2])}
    if k == "minus":
        return node_vars(a[1])
    if k == "graph":
        return set(_pv(a[1])) | node_vars(a[2])
    if k == "values":
        return set()
    if k == "project":
        return node_vars(a[1]) | set(_ints(a[2]))
    raise ValueError(a)


def annotation_mismatches(a, out=None):
    """consumer nodes (outside EXISTS) whose encoded annotation differs from what `_addVars` is expected to give"""
    out = [] if out is None else out
    k = a[0]

    def chk(name, got, want):
        g = None if got == "none" else set(_ints(got))
        if g != want:
            out.append((name, sorted(g) if g is not None else None, sorted(want)))
    if k in ("bgp", "values"):
        pass
    elif k == "join":
        annotation_mismatches(a[2], out); annotation_mismatches(a[3], out)
    elif k == "union":
        annotation_mismatches(a[1], out); annotation_mismatches(a[2], out)
    elif k == "filter":
        annotation_mismatches(a[2], out)
        chk("filter", a[3], node_vars(a[2]))
    elif k == "extend":
        annotation_mismatches(a[1], out)
        chk("extend", a[4], node_vars(a[1]) | {int(a[2])})
    elif k == "minus":
        annotation_mismatches(a[1], out); annotation_mismatches(a[2], out)
        chk("minus.p1", a[3], node_vars(a[1])); chk("minus.p2", a[4], node_vars(a[2]))
    elif k == "leftjoin":
        annotation_mismatches(a[1], out); annotation_mismatches(a[2], out)
        chk("leftjoin.p1", a[4], node_vars(a[1])); chk("leftjoin.p2", a[5], node_vars(a[2]))
    elif k == "graph":
        annotation_mismatches(a[2], out)
    elif k == "project":
        annotation_mismatches(a[1], out)
    else:
        raise ValueError(a)
    return out


def annot_line(a):
    """the annotations found on rdflib's own tree (outside EXISTS), in pre-order, as the driver's `annot` command prints
    those that the Lean model of `analyse` / `_addVars` (RV/C04/Analysis.lean) computes for the same tree"""
    out = []

    def sset(v):
        return "none" if v == "none" else ",".join(str(x) for x in sorted(set(_ints(v))))

    def walk(a):
        k = a[0]
        if k in ("bgp", "values"):
            return
        if k == "join":
            out.append("J" + a[1]); walk(a[2]); walk(a[3])
        elif k == "union":
            walk(a[1]); walk(a[2])
        elif k == "leftjoin":
            out.append("L" + sset(a[4]) + "|" + sset(a[5])); walk(a[1]); walk(a[2])
        elif k == "filter":
            out.append("F" + sset(a[3])); walk(a[2])
        elif k == "extend":
            out.append("E" + sset(a[4])); walk(a[1])
        elif k == "minus":
            out.append("M" + sset(a[3]) + "|" + sset(a[4])); walk(a[1]); walk(a[2])
        elif k == "graph":
            walk(a[2])
        elif k == "project":
            walk(a[1])
        else:
            raise ValueError(a)
    walk(a)
    return "annot " + " ".join(out)


def canon_tree_text(qsx):
    """canonical text of rdflib's own translated tree (parsed s-expression of encode_rdflib_algebra): BGPs as sorted bags of
    triple patterns (reorderTriples is not modelled), variable sets sorted, a VALUES block without rows as `(values)`, the
    CONSTRUCT template left out — the format the driver's `translate` command prints for the Lean model of the translation"""
    def vs(v):
        return "none" if v == "none" else "(vars" + "".join(f" {k}" for k in sorted(set(_ints(v)))) + ")"

    def ex(e):
        k = e[0]
        if k in ("var", "bound", "const"):
            return f"({k} {e[1]})"
        if k == "cmp":
            return f"(cmp {e[1]} {ex(e[2])} {ex(e[3])})"
        if k in ("and", "or"):
            return f"({k} {ex(e[1])} {ex(e[2])})"
        if k == "not":
            return f"(not {ex(e[1])})"
        if k in ("exists", "nexists"):
            return f"({k} {al(e[1])})"
        raise ValueError(e)

    def al(a):
        k = a[0]
        if k == "bgp":
            ts = sorted(" ".join(a[i:i + 3]) for i in range(1, len(a), 3))
            return "(bgp" + "".join(" " + t for t in ts) + ")"
        if k == "join":
            return f"(join {a[1]} {al(a[2])} {al(a[3])})"
        if k == "leftjoin":
            return f"(leftjoin {al(a[1])} {al(a[2])} {ex(a[3])} {vs(a[4])} {vs(a[5])})"
        if k == "filter":
            return f"(filter {ex(a[1])} {al(a[2])} {vs(a[3])} {a[4]})"
        if k == "union":
            return f"(union {al(a[1])} {al(a[2])})"
        if k == "minus":
            return f"(minus {al(a[1])} {al(a[2])} {vs(a[3])} {vs(a[4])})"
        if k == "extend":
            return f"(extend {al(a[1])} {a[2]} {ex(a[3])} {vs(a[4])})"
        if k == "graph":
            return f"(graph {a[1]} {al(a[2])})"
        if k == "values":
            rows = a[2:]
            if not rows:
                return "(values)"
            return ("(values (vars" + "".join(f" {x}" for x in a[1][1:]) + ")" +
                    "".join(" (row" + "".join(f" {c}" for c in r[1:]) + ")" for r in rows) + ")")
        if k == "project":
            return f"(project {al(a[1])} {vs(a[2])})"
        raise ValueError(a)
    form = qsx[0]
    return f"tree ({form} {vs(qsx[-2])} {al(qsx[-1])})"
