"""C20 — a graph backed by a SPARQL endpoint mirrors and updates the endpoint faithfully.  DESIGN §6 C20.

The real `SPARQLStore` / `SPARQLUpdateStore` talk HTTP to an in-process loop-back endpoint
(harness/c20_endpoint.py: backing `Dataset(default_union=False)`, rdflib's own engine, its own result
writers).  One history of reads and writes per case, through `Graph(store, identifier)`,
`Dataset(store)`, `ConjunctiveGraph(store, identifier)` or a read-only `Dataset(SPARQLStore)`.

Case = {"cfg": "graph"|"ds"|"cg"|"ro", "method": "GET"|"POST"|"POST_FORM", "fmt": "xml"|"json",
        "autocommit": bool, "dirty": bool, "hook": bool,
        "extra": 0|1|2|3,   (store built with params={"x-extra": "1"} (1), headers={"X-Extra": "1"} (2), both (3))
        "init": [[s,p,o,g]…], "ginit": [g…],          (endpoint content before the history; g 0 = default graph)
        "ops": [op…]}
  op = ["add", s,p,o, g, via] | ["addN", [[s,p,o,g]…]] | ["remove", s?,p?,o?, g|None, via] | ["remove_graph", g]
     | ["graph", g] | ["dropg", g] (update("DROP GRAPH <g>")) | ["bulk", n, g, via] (n single add() calls)
     | ["update", g, [lop…], style] | ["commit"] | ["rollback"]
     | ["triples", s?,p?,o?, g, via] | ["len", g] | ["contains", s?,p?,o?, g, via] | ["contexts", None|[s,p,o]]
     | ["query", kind, g, arg] | ["slice", s?,p?,o?, g, limit|None, offset|None]
  lop = ["I", [[s,p,o]…]] | ["D", [[s,p,o]…]] | ["W", [s?,p?,o?]]
Terms are small integers (vocabulary below); graph names 90…; 0 = the default graph / "no graph named";
None in a pattern = wildcard; `remove` with g None = no context given (every graph).

Observation per op: "<result> ; <endpoint quads> | <endpoint graph names> ; SENT <requests> ; HTTP <requests> ; RES <answers>" —
the API result, what the BACKING dataset really contains afterwards, every request text the endpoint received for the op
DECODED by the Lean reader (lean/RV/C20/Text.lean), every request AS IT ARRIVED read by the endpoint itself (operation,
carrier, path, Accept, parameters; model: lean/RV/C20/Conn.lean), and for reads every results document sent + the rows
rdflib's parser makes of it (model: lean/RV/C20/Result.lean); compared with the Lean model (state machine + predicted
requests, assembled and read back + predicted answers, written and parsed).
Property oracle (independent of Lean), see `run_impl`: a local mirror driven by the same calls must equal
the backing dataset at every commit boundary (autocommit: after every write), uncommitted writes are
invisible until commit / the next non-dirty read, rollback discards exactly them, every read returns
exactly what the backing dataset holds for that graph, terms come back unchanged, and every request used
the configured HTTP method / result format.
"""
import os
import re
import sys
import warnings

import core  # noqa: F401
from c20_endpoint import endpoint
from rdflib import BNode, ConjunctiveGraph, Dataset, Graph, Literal, URIRef, Variable
from rdflib.graph import DATASET_DEFAULT_GRAPH_ID
from rdflib.namespace import XSD
from rdflib.plugins.stores.sparqlstore import SPARQLStore, SPARQLUpdateStore, _node_to_sparql

warnings.filterwarnings("ignore", category=DeprecationWarning)
warnings.filterwarnings("ignore", category=UserWarning)

ID = "C20"
LEAN_TARGETS = ["RV.C20.Props", "RV.C20.TextProps", "RV.C20.ValuesProps", "RV.C20.ConnProps", "RV.C20.ResultProps", "RV.C20.EndToEnd", "RV.C20.SliceProps", "RV.C20.Audit"]
AUDIT = "RV/C20/Audit.lean"
DRIVER = "drv_c20"
CASES = {"quick": 600, "thorough": 12000, "search": 4000}
RULE = ("random histories (3-11 ops) of add / addN / pattern remove / remove_graph / Dataset.graph / update(text) / "
        "commit / rollback (incl. repeated identical writes inside one uncommitted batch; a named graph created, the creation "
        "undone by rollback or a caller's DROP GRAPH, and created again; one history in 200 with an uncommitted queue of "
        ">1000 / >1024 / >4096 statements) and reads (8 pattern shapes, len, "
        "in, contexts, query, LIMIT/OFFSET slices; named-graph and default-graph reads interleaved) against a "
        "loop-back SPARQL endpoint, through Graph / Dataset / ConjunctiveGraph / read-only Dataset, method GET|POST|"
        "POST_FORM x xml|json x autocommit x dirty_reads x extra params/headers x auth x sparql11 x context_aware x "
        "construction by open()/plugin name (surface audit: design.d/C20.md); non-trivial = at least one write reached the endpoint and "
        "at least one read returned a non-empty answer; distinct = distinct (configuration, init, ops)")
ASSUMPTIONS = [
    "the loop-back endpoint (harness/c20_endpoint.py over rdflib's own SPARQL engine, C04/C10) implements the "
    "SPARQL 1.1 protocol and the meaning of the generated request texts; its default graph is its own graph "
    "(not the union), it records empty named graphs and accepts CREATE GRAPH of an existing graph",
    "blank nodes are outside the property (only the documented refusal and the node_to_sparql hook are exercised)",
    "C0 control characters other than TAB/LF/CR cannot travel in XML 1.0 results and backslash-u sequences are "
    "code-point escapes in SPARQL text: neither is in the vocabulary",
    "quad patterns given to Dataset/ConjunctiveGraph carry graph identifiers (or graphs of the same store); a Graph "
    "object of ANOTHER store as fourth element is by design copied into the dataset and is not driven",
]
TRUSTED = ["harness/c20.py generators, canonicalisation and the mapping of Graph/Dataset/ConjunctiveGraph calls to "
           "store-level contexts", "the reader of lean/RV/C20/Text.lean as the meaning of the SPARQL fragment the store emits", "the protocol reader `serverRead` of lean/RV/C20/Conn.lean and the W3C documents `wireJson`/`wireXml` of lean/RV/C20/Result.lean "
           "as the specification of the transport / results layer",
           "harness/c20_endpoint.py (loop-back endpoint)", "lean/RV/C20/Drive.lean line protocol",
           "HTTP below urllib.request.urlopen (sockets, status codes, time-outs, header capitalisation, default form "
           "Content-Type) and the text level of json.loads / expat are not modelled"]

E = "http://e/"
IRIS = {1: URIRef(E + "s1"), 2: URIRef(E + "s2"), 3: URIRef("http://e/é/ü"), 4: URIRef("urn:x:y"),
        5: URIRef(E + "q?a=1&b=2#frag"), 6: URIRef(E + "a%20b+c"), 7: URIRef("http://[::1]/a#b")}
PREDS = {10: URIRef(E + "p"), 11: URIRef(E + "q#frag"), 12: URIRef("http://www.w3.org/1999/02/22-rdf-syntax-ns#type"),
         13: URIRef(E + "pé")}
LITS = {
    20: Literal(""), 21: Literal(0), 22: Literal(False), 23: Literal("0"), 24: Literal("plain"),
    25: Literal('q"uote'), 26: Literal("apos'trophe"), 27: Literal("back\\slash"), 28: Literal("nl\nline"),
    29: Literal("tab\tx"), 30: Literal("cr\rx"), 31: Literal("é☃\U0001d11e"), 32: Literal("x", lang="en"),
    33: Literal("x", lang="en-GB"), 34: Literal("x"), 35: Literal('end"'), 36: Literal('nl\nend"'),
    37: Literal('a\\"b'), 38: Literal("abc", datatype=URIRef(E + "dt")), 39: Literal("1.0", datatype=XSD.decimal),
    40: Literal(1.5), 41: Literal("\\n"), 42: Literal('""" triple'), 43: Literal("'''"),
    44: Literal("brace } { # <x> WHERE { ?s"), 45: Literal(" lead trail "), 46: Literal("trailing\\"),
    47: Literal(True), 48: Literal("x", datatype=XSD.string), 49: Literal("pct %41 + & = ; \u0085  end"),
    50: Literal("1", datatype=XSD.integer), 51: Literal('"'), 52: Literal("\n"),
    # braces where `_insert_named_graph` must not see them: a long-quoted literal with a lone quote before a brace,
    # single quotes / hash / braces in a short one
    53: Literal('nl\n" { x } "q'), 54: Literal("sq ' { } # <"), 55: Literal('two\n"" } {'),
    56: Literal('nl\n" { x'), 57: Literal('nl\n"} x'),
}
BNODES = {900: BNode("b900"), 901: BNode("b901")}
HOOKED = {1000: URIRef("bnode:bb900"), 1001: URIRef("bnode:bb901")}
GNAME = {90: URIRef(E + "g0"), 91: URIRef(E + "g1"), 92: URIRef(E + "g?x=1&y=2#f"), 93: URIRef(E + "gé")}
G0 = 90
TERM = {**IRIS, **PREDS, **LITS, **BNODES, **HOOKED}
SUBJ_IDS = list(IRIS)
PRED_IDS = list(PREDS)
OBJ_IDS = list(LITS) + list(IRIS)
UNKNOWN = 7777


def TABLES():
    """lean/RV/C20/Tables.lean, regenerated from the live rdflib source on every run"""
    import rdflib.term as T
    chars = ", ".join(f"Char.ofNat {ord(c)}" for c in T._invalid_uri_chars)
    return ("/- GENERATED by harness/c20.py TABLES() from the live rdflib modules — do not edit. -/\n"
            "namespace RV.C20.Tables\n\n"
            "/-- `rdflib.term._invalid_uri_chars`: `URIRef.n3()` raises when one of them occurs -/\n"
            f"def invalidUriChars : List Char := [{chars}]\n\n"
            + _mime_tables() +
            "end RV.C20.Tables\n")


def _mime_tables():
    """the three tables `SPARQLConnector.response_mime_types` reads: rdflib.util's two maps and the names of the
    registered ResultParser plugins (sorted: the registry's order has no meaning)"""
    from rdflib.plugin import plugins
    from rdflib.query import ResultParser
    from rdflib.util import FORMAT_MIMETYPE_MAP, RESPONSE_TABLE_FORMAT_MIMETYPE_MAP

    def q(x):
        return '"' + str(x).replace("\\", "\\\\").replace('"', '\\"') + '"'

    def tab(d):
        return "[" + ", ".join(f"({q(k)}, [{', '.join(q(v) for v in vs)}])" for k, vs in d.items()) + "]"
    names = sorted({p.name for p in plugins(kind=ResultParser)})
    return ("/-- `rdflib.util.FORMAT_MIMETYPE_MAP` -/\n"
            f"def formatMimetypeMap : List (String × List String) := {tab(FORMAT_MIMETYPE_MAP)}\n\n"
            "/-- `rdflib.util.RESPONSE_TABLE_FORMAT_MIMETYPE_MAP` -/\n"
            f"def responseTableMimetypeMap : List (String × List String) := {tab(RESPONSE_TABLE_FORMAT_MIMETYPE_MAP)}\n\n"
            "/-- names of the registered `ResultParser` plugins -/\n"
            f"def resultParserNames : List String := [{', '.join(q(n) for n in names)}]\n\n"
            "/-- `str(rdflib.graph.DATASET_DEFAULT_GRAPH_ID)` -/\n"
            f"def datasetDefaultGraphId : List Char := ({q(str(DATASET_DEFAULT_GRAPH_ID))} : String).toList\n\n")


def tkey(t):
    """strict identity of a term: kind, lexical form, datatype, language"""
    if t is None:
        return None
    if isinstance(t, Literal):
        return ("L", str(t), None if t.datatype is None else str(t.datatype), t.language)
    if isinstance(t, BNode):
        return ("B", str(t))
    return ("U", str(t))


TERM_REV = {tkey(v): k for k, v in TERM.items()}
assert len(TERM_REV) == len(TERM), "vocabulary terms must be pairwise distinct"
GNAME_REV = {tkey(v): k for k, v in GNAME.items()}


def hook_nts(node):
    """the node_to_sparql extension documented in SPARQLStore's docstring"""
    if isinstance(node, BNode):
        return f"<bnode:b{node}>"
    return _node_to_sparql(node)


# ------------------------------------------------------------------ generator


def _triple(rng, objs, bn):
    s = rng.choice(SUBJ_IDS[:4] if rng.random() < 0.8 else SUBJ_IDS)
    o = rng.choice(objs)
    if bn and rng.random() < 0.25:
        if rng.random() < 0.5:
            s = rng.choice(list(BNODES))
        else:
            o = rng.choice(list(BNODES))
    return [s, rng.choice(PRED_IDS[:2] if rng.random() < 0.8 else PRED_IDS), o]


def _mask(rng, t):
    m = rng.choice([0, 0, 1, 2, 3, 4, 5, 6, 7, 7])
    return [None if m & 4 else t[0], None if m & 2 else t[1], None if m & 1 else t[2]]


def gen_case(rng, tier, i):
    boost = 2.5 if tier == "thorough" else 1.0      # share of the surface-audit streams
    cfg = rng.choice(["graph"] * 3 + ["ds"] * 5 + ["cg"] + ["ro"])
    autocommit = rng.random() < 0.4
    dirty = rng.random() < 0.4
    hook = rng.random() < 0.1
    # ---- configuration axes of the public surface (surface audit, design.d/C20.md)
    open_mode = rng.choice([0, 0, 0, 0, 0, 1, 2, 3]) if rng.random() < 0.35 * boost else 0
    auth = rng.random() < 0.08 * boost
    sparql11 = not (rng.random() < 0.04 * boost)
    ca = not (cfg == "graph" and rng.random() < 0.08 * boost)
    norm = not (rng.random() < 0.04 * boost)
    bn = hook or rng.random() < 0.12
    objs = rng.sample(OBJ_IDS, rng.randint(2, 5))
    if rng.random() < 0.5:
        objs += rng.sample([20, 21, 22, 23], 2)  # falsy / look-alike literals
    named = [90, 91] + ([rng.choice([92, 93])] if rng.random() < 0.4 else [])
    graphs = [G0] if cfg == "graph" else [0] + named   # graphs the history may address
    if cfg == "graph" and ca and rng.random() < 0.25 * boost:
        graphs = [G0, G0, 91]      # a second Graph object over the same store, interleaved with the first
    all_graphs = [0] + named

    def wgraph():  # graph for a write / read
        if cfg == "graph":
            return rng.choice(graphs)
        return rng.choice(graphs if rng.random() < 0.8 else [0, 90])

    present = []
    init = []
    for _ in range(rng.randint(0, 5) if cfg != "ro" else rng.randint(2, 7)):
        q = _triple(rng, objs, False) + [rng.choice(all_graphs)]
        if init and rng.random() < 0.35:   # same subject/predicate, other object, (often) other graph
            b = rng.choice(init)
            q = [b[0], b[1], rng.choice(objs), rng.choice(all_graphs)]
        if q not in init:
            init.append(q)
            present.append(q)
    ginit = [rng.choice(named)] if rng.random() < 0.15 else []

    def some_triple(g=None):
        pool = [q[:3] for q in present if g is None or q[3] == g]
        if pool and rng.random() < 0.7:
            return list(rng.choice(pool))
        return _triple(rng, objs, bn)

    ops = []
    n = rng.randint(3, 11)
    wr = 0.35 if cfg == "ro" else 0.62
    for _ in range(n):
        r = rng.random()
        g = wgraph()
        if r < wr:  # ---- writes and boundaries
            k = rng.random()
            if k < 0.30:
                t = _triple(rng, objs, bn) if rng.random() < 0.8 else some_triple()
                via = rng.randint(0, 1)
                if cfg == "ds" and g != 0 and rng.random() < 0.06 * boost:
                    via = 2        # the quad's graph is a Graph object of ANOTHER store
                x = rng.random()
                if x < 0.05 * boost and not (cfg == "cg" and g == 0):
                    ops.append(["set"] + t + [g])
                elif x < 0.09 * boost and not (cfg == "cg" and g == 0):
                    ops.append(["iadd", [t] + ([_triple(rng, objs, False)] if rng.random() < 0.5 else []), g])
                else:
                    ops.append(["add"] + t + [g, via])
                present.append(t + [g])
            elif k < 0.40:
                qs = []
                for _ in range(rng.randint(0, 4)):
                    qs.append(_triple(rng, objs, bn and rng.random() < 0.3) + [g if cfg == "graph" else rng.choice(graphs)])
                ops.append(["addN", qs])
                present += qs
            elif k < 0.62:
                gsel = g
                if cfg in ("ds", "cg") and rng.random() < 0.35:
                    gsel = None
                if cfg == "cg" and gsel == 0:
                    gsel = None
                ops.append(["remove"] + _mask(rng, some_triple(gsel)) + [gsel, rng.randint(0, 1)])
            elif k < 0.67 and cfg in ("ds", "ro"):
                ops.append(["remove_graph", rng.choice(graphs)])
            elif k < 0.71 and cfg in ("ds", "ro"):
                ops.append(["graph", rng.choice(named)])
            elif k < 0.81 and not (cfg == "cg" and g == 0):
                lops = []
                for _ in range(rng.randint(1, 3)):
                    kk = rng.random()
                    if kk < 0.45:
                        tr = [_triple(rng, objs, False) for _ in range(rng.randint(1, 2))]
                        if rng.random() < 0.45:      # braces / quotes / hashes inside literals and IRIs
                            tr[0][2] = rng.choice([44, 53, 54, 55, 56, 57, 36, 42, 25])
                            if rng.random() < 0.3:
                                tr[0][0] = 7
                        lops.append(["I", tr])
                    elif kk < 0.65:
                        lops.append(["D", [some_triple(g)[:3] for _ in range(rng.randint(1, 2))]])
                    else:
                        lops.append(["W", _mask(rng, some_triple(g))])
                lops = [l for l in lops if not any(x in BNODES for row in (l[1] if l[0] != "W" else [l[1]]) for x in row if x)]
                if lops:
                    style = rng.choice([0, 1, 2, 3, 5])
                    if rng.random() < 0.08 * boost:
                        style = 7                      # initNs given, not used by the text
                    elif autocommit and rng.random() < 0.08 * boost:
                        style = 6                      # prefixed names resolved through initNs
                    if rng.random() < 0.3:
                        w = ["W", _mask(rng, some_triple(g))]
                        w[1] = [x if x not in BNODES else None for x in w[1]]
                        if any(x is not None for x in w[1]):
                            lops, style = [w], 4
                    ops.append(["update", g, lops, style])
            elif k < 0.90:
                ops.append(["commit"])
            elif k < 0.97 or rng.random() > 0.5 * boost:
                ops.append(["rollback"])
            else:   # calls that neither read nor write: re-open, close, bind, switching method / result format
                ops.append(["nop", rng.choice(["reopen", "close", "bind", "method:GET", "method:POST", "method:POST_FORM",
                                               "format:xml", "format:json"])])
        else:  # ---- reads
            k = rng.random()
            if rng.random() < 0.05 * boost and cfg != "graph":
                # the store's own projections (subjects, predicate_objects, …): the endpoint's default graph
                kind = rng.choice(["subjects", "predicates", "objects", "subject_predicates", "subject_objects",
                                   "predicate_objects"])
                t = some_triple(0)
                t = [x if x not in BNODES else None for x in t]
                free = {"subjects": (0,), "predicates": (1,), "objects": (2,), "subject_predicates": (0, 1),
                        "subject_objects": (0, 2), "predicate_objects": (1, 2)}[kind]
                pat = [None if (j in free or rng.random() < 0.3) else t[j] for j in range(3)]
                ops.append(["proj", kind] + pat)
            elif k < 0.38:
                ops.append(["triples"] + _mask(rng, some_triple(g)) + [g, rng.randint(0, 2)])
            elif k < 0.48 and sparql11:
                ops.append(["len", g])
            elif k < 0.62:
                t = some_triple(g)
                ops.append(["contains"] + (t if rng.random() < 0.7 else _mask(rng, t)) + [g, rng.randint(0, 1)])
            elif k < 0.74 and cfg != "graph":
                falsy = [q[:3] for q in present if q[2] in (20, 21, 22)]
                ops.append(["contexts", None if rng.random() < 0.4 else
                            (list(rng.choice(falsy)) if falsy and rng.random() < 0.6 else some_triple())])
            elif k < 0.93:
                kind = rng.choice(["spo", "pfx", "bind", "bind2", "ask", "named"])
                if rng.random() < 0.10 * boost:
                    kind = "construct"
                if kind == "named" and cfg == "graph":
                    kind = "spo"
                if not sparql11 and kind in ("bind", "bind2"):
                    kind = "spo"       # initBindings are refused for SPARQL 1.0 endpoints (documented)
                t = some_triple(g)
                t = [x if x not in BNODES else 1 for x in t]
                ops.append(["query", kind, g, t])
            else:
                p = _mask(rng, some_triple(g))
                p = [x if x not in BNODES else None for x in p]
                if None not in p and rng.random() < 0.5:
                    p[rng.randint(0, 2)] = None
                ob = rng.choice(["x", "s", "p", "o"]) if rng.random() < 0.3 * boost else "-"
                if None in p:
                    lim, off = rng.choice([None, 1, 2, 5]), rng.choice([None, 0, 1, 2])
                    ops.append(["slice"] + p + [g, lim, off, ob])
                else:   # fully bound (ASK) under a LIMIT / an "ORDER BY" attribute
                    ops.append(["slice"] + p + [g, rng.choice([1, 2, 5]), None, ob])
    # ---- repeated IDENTICAL writes inside one uncommitted batch (each queues the very same request text):
    #      add/remove/add, remove/add/remove of one triple, the same addN / update twice, duplicates in addN
    if cfg != "ro" and rng.random() < 0.3:
        g = wgraph()
        if cfg == "cg" and g == 0:
            g = G0
        t = some_triple(g)
        t = [x if x not in BNODES else 1 for x in t]
        via = rng.randint(0, 1)
        a, rm = ["add"] + t + [g, via], ["remove"] + t + [g, via]
        k = rng.random()
        if k < 0.3:
            burst = [a, rm, a]
        elif k < 0.55:
            burst = [rm, a, rm]
        elif k < 0.7:
            burst = [a, rm, a, rm, a]
        elif k < 0.85:
            qs = [t + [g], _triple(rng, objs, False) + [g], t + [g]]
            burst = [["addN", qs], rm, ["addN", qs]]
        else:
            u = ["update", g, [["I", [t]]], 0]
            burst = [u, rm, u]
        if rng.random() < 0.75:
            autocommit = False
        if rng.random() < 0.4:
            burst.insert(rng.randint(1, len(burst) - 1), ["contains"] + t + [g, 0])   # a read inside the batch
        burst.append(rng.choice([["commit"], ["len", g], ["triples", None, None, None, g, 0]]))
        at = rng.randint(0, len(ops))
        ops[at:at] = burst
    # ---- extra request parameters / headers given to the store constructor; graph-addressed reads alternate
    extra = rng.choice([0, 0, 1, 1, 2, 3])
    if extra and cfg != "graph" and rng.random() < 0.7:
        for _ in range(rng.randint(1, 2)):
            gn = rng.choice(named)
            alt = [["triples", None, None, None, gn, rng.randint(0, 2)], ["triples", None, None, None, 0, 0],
                   ["len", gn], ["len", 0], ["contains"] + _mask(rng, some_triple(0)) + [0, 0]]
            if rng.random() < 0.5:
                alt.insert(1, ["add"] + _triple(rng, objs, False) + [0, 0])
            at = rng.randint(0, len(ops))
            ops[at:at] = alt
    # ---- a named graph created, the creation undone WITHOUT remove_graph() (rollback, or a caller's DROP GRAPH), and the
    #      same graph asked for again: the second Dataset.graph(name) must send CREATE GRAPH again (the empty graph is part
    #      of the endpoint's state and of graphs() / contexts())
    if cfg == "ds" and rng.random() < 0.12 * (1.5 if tier == "thorough" else 1.0):
        gn = rng.choice(named)
        k = rng.random()
        if k < 0.45:
            autocommit = False
            seq = [["graph", gn], ["rollback"], ["graph", gn], rng.choice([["commit"], ["contexts", None]])]
        elif k < 0.85:
            seq = [["graph", gn]] + ([["commit"]] if rng.random() < 0.5 else []) + [["dropg", gn], ["graph", gn]]
            seq.append(rng.choice([["commit"], ["contexts", None]]))
        else:
            seq = [["graph", gn], ["remove_graph", gn], ["graph", gn], ["contexts", None]]
        if rng.random() < 0.5:
            seq.append(["contexts", None])
        at = rng.randint(0, len(ops))
        ops[at:at] = seq
    if not autocommit and rng.random() < 0.6:
        ops.append(rng.choice([["commit"], ["rollback"], ["len", wgraph()]]))
    # ---- long transactions: an uncommitted queue of more than 1000 / 1024 / 4096 statements (no implicit flush may
    #      happen: nothing is visible before commit(), rollback() discards all of it).  One history in 200.
    if i % 200 == 57 and cfg in ("graph", "ds", "cg"):
        autocommit = False
        size = [1000 + rng.randint(1, 40), 1024 + rng.randint(1, 20), 4096 + rng.randint(1, 10)][(i // 200) % 3]
        g = G0 if cfg in ("graph", "cg") else rng.choice([0, 90])
        tail = rng.choice(["rollback", "rollback", "commit", "dirty"]) if size < 2000 else "rollback"
        ops = [["add"] + _triple(rng, objs, False) + [g, 0], ["commit"], ["bulk", size, g, rng.randint(0, 1)]]
        if tail == "rollback":
            ops += [["rollback"], ["len", g]]
        elif tail == "commit":
            ops += [["commit"], ["len", g]]
        else:
            dirty = True
            ops += [["len", g], ["rollback"], ["len", g]]
    case = {"cfg": cfg, "method": rng.choice(["GET", "POST", "POST_FORM"]), "fmt": rng.choice(["xml", "json"]),
            "autocommit": autocommit, "dirty": dirty, "hook": hook, "extra": extra, "init": init, "ginit": ginit,
            "ops": ops, "open": open_mode, "auth": auth, "sparql11": sparql11, "ca": ca, "norm": norm}
    if not case["autocommit"]:     # prefixed-name texts are only decodable alone: autocommit
        for o in case["ops"]:
            if o[0] == "update" and o[3] == 6:
                o[3] = 7
    if not sparql11:     # len and initBindings are refused for SPARQL 1.0 endpoints (documented): not driven
        case["ops"] = [o for o in ops if o[0] != "len" and not (o[0] == "update" and o[3] == 4)
                       and not (o[0] == "query" and o[1] in ("bind", "bind2"))] or [["commit"]]
    if open_mode == 3:   # Graph("SPARQLUpdateStore") + open(): the store is built by the plugin registry with defaults
        case.update(method="GET", fmt="xml", autocommit=True, hook=False, extra=0, auth=False, sparql11=True, ca=True)
        if cfg == "ro":
            case["open"] = 2
    return case


# ------------------------------------------------------------------ mapping API level -> store level


def ctx_of(cfg, kind, g, ca=True):
    """the store-level graph an API call addresses: number, 0 (endpoint default graph) or None (no context).
    Follows Graph.add/…, ConjunctiveGraph._spoc/.triples/.remove, Dataset (default_union False); a store that is
    not context aware (`context_aware=False`) addresses the endpoint's default graph whatever the graph is called."""
    if not ca:
        return 0
    if cfg == "cg" and g == 0 and kind == "write":
        return G0            # ConjunctiveGraph.add(triple) writes to its default_context, named <g0>
    return g


def _w(x):
    return "*" if x is None else str(x)


def _g(x):
    return "-" if x == 0 else str(x)


def _cps(text):
    return "_" if text == "" else ",".join(str(ord(c)) for c in text)


def vocab_lines():
    """the vocabulary as text, for the Lean writers / reader (blank nodes never reach a request text)"""
    out = []
    for k, t in TERM.items():
        if isinstance(t, BNode):
            continue
        if isinstance(t, Literal):
            dt = "-" if t.datatype is None else _cps(str(t.datatype))
            lg = "-" if t.language is None else _cps(t.language)
            out.append(f"vocab {k} L {_cps(str(t))} {dt} {lg}")
        else:
            out.append(f"vocab {k} I {_cps(str(t))}")
    for k, g in GNAME.items():
        out.append(f"gvocab {k} {_cps(str(g))}")
    return out


VOCAB_LINES = None
ING_STATS = []


def model_lines(case):
    global VOCAB_LINES
    if VOCAB_LINES is None:
        VOCAB_LINES = vocab_lines()
    cfg = case["cfg"]
    ro = cfg == "ro"
    lines = list(VOCAB_LINES)
    lines.append(f"reset {int(case['autocommit'])} {int(case['dirty'])} {int(case['hook'])} {int(ro)}")
    lines.append(conn_line(case))
    for q in case["init"]:
        lines.append("init " + " ".join(str(x) for x in q[:3]) + " " + _g(q[3]))
    for g in case.get("ginit", []):
        lines.append(f"ginit {g}")
    for op in case["ops"]:
        for cmd in op_commands(case, op):
            lines.append(cmd)
            lines.append("obs")
            lines.append("sent")
            lines.append("senttext")
            lines.append("senthttp")
            lines.append("sentres")
    return lines


# ------------------------------------------------------------------ result layer (lean/RV/C20/Result.lean)

RES_OPS = ("triples", "len", "contains", "contexts", "proj")     # reads whose ANSWER the model predicts
_RES_NS = "{http://www.w3.org/2005/sparql-results#}"
_XML_LANG = "{http://www.w3.org/XML/1998/namespace}lang"


def canon_j(v):
    """canonical form of a JSON value (mirrors `canonJ` of lean/RV/C20/Drive.lean)"""
    if v is None:
        return "N"
    if v is True:
        return "T"
    if v is False:
        return "F"
    if isinstance(v, str):
        return "s" + _cps(v)
    if isinstance(v, list):
        return "[" + ",".join(canon_j(x) for x in v) + "]"
    if isinstance(v, dict):
        return "{" + ",".join(sorted(k + ":" + canon_j(x) for k, x in v.items())) + "}"
    return "#"


def canon_jdoc(d):
    """the same with the `results.bindings` array sorted (`canonJDoc`)"""
    if not isinstance(d, dict):
        return canon_j(d)
    out = []
    for k, v in d.items():
        if k == "results" and isinstance(v, dict):
            inner = []
            for k2, v2 in v.items():
                if k2 == "bindings" and isinstance(v2, list):
                    inner.append(k2 + ":[" + ",".join(sorted(canon_j(x) for x in v2)) + "]")
                else:
                    inner.append(k2 + ":" + canon_j(v2))
            out.append(k + ":{" + ",".join(sorted(inner)) + "}")
        else:
            out.append(k + ":" + canon_j(v))
    return "{" + ",".join(sorted(out)) + "}"


def canon_x(e):
    """canonical form of an element tree (`canonX`): local names, attributes sorted, children of `results` sorted"""
    tag = e.tag[len(_RES_NS):] if e.tag.startswith(_RES_NS) else e.tag
    attrs = sorted(("xml:lang" if k == _XML_LANG else k) + "=" + _cps(v) for k, v in e.attrib.items())
    kids = [canon_x(c) for c in e]
    if tag == "results":
        kids.sort()
    return "<" + tag + " " + ",".join(attrs) + " " + _cps(e.text or "") + " [" + "".join(kids) + "]>"


def _rterm(t):
    if t is None:
        return "-"
    if isinstance(t, BNode):
        return "B" + _cps(str(t))
    if isinstance(t, Literal):
        if t.language is not None:
            return "L" + _cps(str(t)) + "@" + _cps(t.language)
        if t.datatype is not None:
            return "T" + _cps(str(t)) + "^" + _cps(str(t.datatype))
        return "P" + _cps(str(t))
    return "I" + _cps(str(t))


def canon_res(res):
    """what rdflib's result parser made of a document (`showResult`): rows aligned to the variables, sorted"""
    if res.type == "ASK":
        return "A true" if res.askAnswer else "A false"
    rows = sorted(" ".join(_rterm(c) for c in row) for row in res)
    return "S " + ",".join(str(v) for v in res.vars) + " | " + " ; ".join(rows)


def response_obs(fmt, body):
    """`<document as sent, canonical> => <as parsed by rdflib's result parser, canonical>`"""
    import json
    from io import BytesIO
    from xml.etree import ElementTree
    from rdflib.query import Result
    try:
        if fmt == "json":
            doc = "J " + canon_jdoc(json.loads(body.decode("utf-8")))
            res = Result.parse(BytesIO(body), content_type="application/sparql-results+json")
        else:
            doc = "X " + canon_x(ElementTree.fromstring(body))
            res = Result.parse(BytesIO(body), content_type="application/sparql-results+xml")
        return doc + " => " + canon_res(res)
    except Exception as e:  # noqa: BLE001
        return f"unparsable({type(e).__name__})"


AUTH_VALUE = "Basic dXNlcjpwOncgZA=="     # base64("user:p:w d")


def endpoint_paths(case):
    """(query endpoint, update endpoint) relative to the loop-back server's base URL"""
    return ("/sparql", "/sparql") if case.get("open", 0) == 2 else ("/query", "/update")


def conn_line(case):
    """the connector configuration for the transport model (lean/RV/C20/Conn.lean)"""
    qp, up = endpoint_paths(case)
    auth = _cps(AUTH_VALUE) if case.get("auth") else "-"
    up_ = "_" if case["cfg"] == "ro" else _cps(up)        # a read-only SPARQLStore has no update endpoint
    return (f"conn {case['method']} {_cps(qp)} {up_} {case['fmt']} {case.get('extra', 0)} {auth} "
            f"{int(case.get('ca', True))}")


def op_commands(case, op):
    """the model command(s) one API call amounts to (Graph.set = remove + add, an add whose graph is a Graph object
    of another store = a look-up of the dataset's graphs + add)"""
    cfg = case["cfg"]
    ca = case.get("ca", True)
    # the graph is passed as the call names it; a store that is not context aware is mapped to the endpoint's default
    # graph by the MODEL (`_is_contextual` in lean/RV/C20/Conn.lean, configured by the `conn` line)
    C = lambda kind, g: ctx_of(cfg, kind, g, True)  # noqa: E731
    k = op[0]
    if k == "add":
        add = f"add {op[1]} {op[2]} {op[3]} {_g(C('write', op[4]))}"
        return ["contexts", add] if op[5] == 2 else [add]
    if k == "addN":
        return [" ".join(["addN"] + [f"{q[0]} {q[1]} {q[2]} {_g(C('write', q[3]))}" for q in op[1]])]
    if k == "iadd":
        uniq = [list(t) for t in dict.fromkeys(tuple(t) for t in op[1])]    # the operand is a Graph: a set
        return [" ".join(["addN"] + [f"{t[0]} {t[1]} {t[2]} {_g(C('write', op[2]))}" for t in uniq])]
    if k == "set":
        s_, p_, o_, g = op[1:5]
        rg = "*" if (cfg in ("ds", "cg", "ro") and g == 0) else _g(C("read", g))   # Dataset.set removes from every graph
        return [f"remove {s_} {p_} * {rg}", f"add {s_} {p_} {o_} {_g(C('write', g))}"]
    if k == "remove":
        g = "*" if op[4] is None else _g(C("read", op[4]))
        return [f"remove {_w(op[1])} {_w(op[2])} {_w(op[3])} {g}"]
    if k in ("remove_graph", "dropg"):      # a caller's update("DROP GRAPH <g>") means what remove_graph(g) means
        return [f"rgraph {_g(op[1])}"]
    if k == "bulk":
        return [f"add {t[0]} {t[1]} {t[2]} {_g(C('write', op[2]))}" for t in bulk_triples(op[1])]
    if k == "graph":
        return [f"cgraph {op[1]}"]
    if k == "update":
        toks = []
        for l in op[2]:
            if l[0] in ("I", "D"):
                toks += [l[0], str(len(l[1]))] + [str(x) for t in l[1] for x in t]
            else:
                toks += ["W"] + [_w(x) for x in l[1]]
        return [" ".join(["update", _g(C("write", op[1]))] + toks)]
    if k in ("commit", "rollback"):
        return [k]
    if k == "nop":
        return ["nop " + op[1]]
    if k == "triples":
        return [f"triples {_w(op[1])} {_w(op[2])} {_w(op[3])} {_g(C('read', op[4]))}"]
    if k == "proj":
        return [f"triples {_w(op[2])} {_w(op[3])} {_w(op[4])} -"]
    if k == "len":
        return [f"len {_g(C('read', op[1]))}"]
    if k == "contains":
        return [f"contains {_w(op[1])} {_w(op[2])} {_w(op[3])} {_g(C('read', op[4]))}"]
    if k == "contexts":
        return ["contexts" if op[1] is None else "contexts " + " ".join(str(x) for x in op[1])]
    if k == "query":
        kind, g, t = op[1], _g(C("read", op[2])), op[3]
        if kind in ("spo", "construct"):
            return [f"triples * * * {g}"]
        if kind == "pfx":
            return [f"triples * 10 * {g}"]
        if kind == "bind":
            return [f"triples * * {t[2]} {g}"]
        if kind == "bind2":
            return [f"triples {t[0]} * {t[2]} {g}"]
        if kind == "ask":
            return [f"contains {t[0]} {t[1]} {t[2]} {g}"]
        return ["namedquads"]
    if k == "slice":
        ob = op[7] if len(op) > 7 else "-"
        return [f"slice {_w(op[1])} {_w(op[2])} {_w(op[3])} {_g(C('read', op[4]))} "
                f"{'-' if op[5] is None else op[5]} {'-' if op[6] is None else op[6]} {ob}"]
    return ["unknown-op"]


BULK_OBJS = [24, 23, 21, 1, 2, 32, 38, 27, 20, 50]


def bulk_triples(n):
    """the n triples a `bulk` op adds one by one (160 distinct ones, repeated: every add() queues a statement)"""
    subs, preds = SUBJ_IDS[:4], PRED_IDS
    return [[subs[j % 4], preds[(j // 4) % 4], BULK_OBJS[(j // 16) % len(BULK_OBJS)]] for j in range(n)]


def _model_blocks(case, out):
    """per op: (result, endpoint obs, predicted requests, predicted request texts)"""
    n0 = len(VOCAB_LINES or vocab_lines()) + 2 + len(case["init"]) + len(case.get("ginit", []))
    body = out[n0:]
    return [tuple(body[i:i + 6]) for i in range(0, len(body) - 5, 6)]


def _merge_blocks(case, blocks):
    """one (result, endpoint obs, predicted requests, predicted texts) per API call"""
    res, i = [], 0
    for op in case["ops"]:
        n = len(op_commands(case, op))
        part = blocks[i:i + n]
        i += n
        if len(part) < n:
            break
        sent = [b[2] for b in part if b[2] != "-"]
        txt = [b[3] for b in part if b[3] != "none"]
        http = [b[4] for b in part if b[4] != "-"]
        ans = [b[5] for b in part if b[5] != "-"]
        res.append((part[-1][0], part[-1][1], " | ".join(sent) if sent else "-", " ".join(txt) if txt else "none",
                    " | ".join(http) if http else "-", " | ".join(ans) if ans else "-"))
    return res


PROJ_POS = {"subjects": (0,), "predicates": (1,), "objects": (2,), "subject_predicates": (0, 1),
            "subject_objects": (0, 2), "predicate_objects": (1, 2)}


def _blank_op(case, op):
    """requests whose text is outside the reader's fragment are compared as `U?` / `Q?`"""
    if op[0] == "query" and op[1] in ("pfx", "named", "construct"):
        return "q"
    if op[0] == "update" and op[3] == 6:
        return "u"            # prefixed names (only generated with autocommit: the request holds this text alone)
    return None


def select_model_obs(case, out):
    res = []
    for op, (o, e, sent, _txt, http, ans) in zip(case["ops"], _merge_blocks(case, _model_blocks(case, out))):
        b = _blank_op(case, op)
        if b and sent != "-":
            sent = " | ".join(("Q?" if r.startswith("Q") else r) if b == "q" else ("U?" if r.startswith("U") else r)
                              for r in sent.split(" | "))
        if op[0] == "proj" and o.startswith("T"):
            pos = PROJ_POS[op[1]]
            rows = {tuple(int(t.split(",")[j]) for j in pos) for t in o[2:].split(" ") if t}
            o = "P " + " ".join(",".join(map(str, x)) for x in sorted(rows))
        res.append(f"{o} ; {e} ; SENT {sent} ; HTTP {http} ; RES {ans if op[0] in RES_OPS else '~'}")
    return res


def ing_requests(case):
    """(graph IRI, caller text) of every update() call on a named graph (what `_insert_named_graph` rewrites)"""
    out = []
    cfg = case["cfg"]
    for op in case["ops"]:
        if op[0] != "update" or op[3] == 4 or any(x in BNODES for x in _flat(op[2]) if isinstance(x, int)):
            continue
        g = op[1]
        if g == 0 or not case.get("ca", True):
            continue
        out.append((str(GNAME[g]), update_text(op[2], 0 if op[3] == 7 else op[3], lambda x: TERM[x])))
    return out


ASM_STATS = []


def driver_session(case, captured, meta=None):
    """One run of the compiled Lean driver for this case: the model's predicted request texts (to be compared
    with the captured texts here) and the Lean READER applied to every captured request text.
    captured = per op a list of ("u", None, text) | ("q", graph-or-None, text).  Returns per op (decoded, texts)."""
    import subprocess
    exe = core.driver_path(sys.modules[__name__])
    if not os.path.exists(exe):
        return None
    lines = model_lines(case)
    n_model = len(lines)
    for reqs in captured:
        for kind, g, text in reqs:
            if kind == "u":
                lines.append(f"decode u {_cps(text)}")
            else:
                lines.append(f"decode q {'-' if g is None else _cps(g)} {_cps(text)}")
    n_dec = len(lines) - n_model
    ings = ing_requests(case)
    for giri, text in ings:
        lines.append(f"ing {_cps(giri)} {_cps(text)}")
    # the transport model assembles the HTTP request for every captured text under the configuration of that moment
    n_pre_asm = len(lines)
    flat_meta = [m for ms in (meta or []) for m in ms]
    for m in flat_meta:
        dg = "-" if m["dg"] is None else _cps(m["dg"])
        lines.append(f"asm {m['cmethod']} {_cps(m['ep_path'])} {m['cfmt']} {case.get('extra', 0)} "
                     f"{_cps(AUTH_VALUE) if case.get('auth') else '-'} {m['kind']} {dg} {_cps(m['text'])}")
    p = subprocess.run([exe], input="\n".join(lines) + "\n", stdout=subprocess.PIPE, stderr=subprocess.PIPE,
                       text=True, timeout=60 * float(os.environ.get("VERIF_TIMEOUT_SCALE", "1") or 1))
    out = p.stdout.split("\n")
    if p.returncode != 0 or len(out) < len(lines):
        return None
    # statistic: the request as it arrived (URL and body bytes) is byte for byte the one the Lean model assembles
    same = 0
    for m, o in zip(flat_meta, out[n_pre_asm:n_pre_asm + len(flat_meta)]):
        body = "-" if m["raw_body"] is None else ("_" if not m["raw_body"] else ",".join(str(b) for b in m["raw_body"]))
        same += int(o == f"{_cps(m['raw_path'])} {body}")
    ASM_STATS.append((len(flat_meta), same))
    blocks = _merge_blocks(case, _model_blocks(case, out[:n_model]))
    dec = out[n_model:n_model + n_dec]
    # statistic: the Lean model of _insert_named_graph rewrites the caller's text character for character like the store
    sent_updates = [text for reqs in captured for kind, _g, text in reqs if kind == "u"]
    ING_STATS.append((len(ings), sum(1 for o in out[n_model + n_dec:n_model + n_dec + len(ings)]
                                     if any(o in _cps(t) for t in sent_updates))))
    res, j = [], 0
    for reqs, blk in zip(captured, blocks):
        d = dec[j:j + len(reqs)]
        j += len(reqs)
        res.append((d, blk[3]))
    return res


# ------------------------------------------------------------------ running the implementation


def _tid(t):
    return TERM_REV.get(tkey(t), UNKNOWN)


def _gid(name):
    return 0 if name is None else GNAME_REV.get(tkey(name), UNKNOWN)


def _fmt_triples(ts):
    return "T " + " ".join(",".join(map(str, t)) for t in sorted(ts))


def _fmt_quads(qs):
    return " ".join(",".join(map(str, q)) for q in sorted(qs))


def _fmt_names(ns):
    return ",".join(map(str, sorted(ns)))


class Mirror:
    """the local dataset that receives the same calls ("the same effect as on a local graph")"""

    def __init__(self, cfg, quads=(), names=(), ca=True):
        self.ds = Dataset(default_union=False)
        for s, p, o, g in quads:
            (self.ds.default_graph if g is None else self.ds.get_context(g)).add((s, p, o))
        for g in names:
            self.ds.graph(g)
        self.ca = ca
        if cfg == "graph" and not ca:
            self.top = self.ds.default_graph
        elif cfg == "graph":
            self.top = Graph(store=self.ds.store, identifier=GNAME[G0])
        elif cfg == "cg":
            self.top = ConjunctiveGraph(store=self.ds.store, identifier=GNAME[G0])
        else:
            self.top = self.ds

    def quads(self):
        out = set()
        for c in self.ds.store.contexts():
            name = None if c.identifier == DATASET_DEFAULT_GRAPH_ID else c.identifier
            for (s, p, o), _ in self.ds.store.triples((None, None, None), c):
                out.add((s, p, o, name))
        return out

    def names(self):
        return {c.identifier for c in self.ds.store.contexts() if c.identifier != DATASET_DEFAULT_GRAPH_ID}


def _kq(qs):
    return {(tkey(s), tkey(p), tkey(o), tkey(g)) for s, p, o, g in qs}


def _kn(ns):
    return {tkey(n) for n in ns}


def update_text(lops, style, term):
    if style == 6:
        plain = term

        class _P:          # renders <http://e/NAME> as ex:NAME
            def __init__(self, t):
                self.t = t

            def n3(self):
                t = self.t
                if isinstance(t, URIRef) and str(t).startswith(E) and re.fullmatch(r"[A-Za-z][A-Za-z0-9]*", str(t)[len(E):]):
                    return "ex:" + str(t)[len(E):]
                return t.n3()
        term = lambda x: _P(plain(x))  # noqa: E731
    parts = []
    for l in lops:
        if l[0] in ("I", "D"):
            body = " ".join(f"{term(t[0]).n3()} {term(t[1]).n3()} {term(t[2]).n3()} ." for t in l[1])
            kw = ("INSERT DATA" if l[0] == "I" else "DELETE DATA")
            if style == 1:
                kw = kw.lower()
            parts.append(f"{kw} {{ {body} }}")
        else:
            vs = ["?a", "?b", "?c"]
            pat = " ".join(vs[i] if x is None else term(x).n3() for i, x in enumerate(l[1]))
            parts.append(f"DELETE WHERE {{ {pat} }}" if style != 1 else f"delete where {{ {pat} . }}")
    text = " ;\n".join(parts)
    if style == 2:
        text = "# a comment with a { brace\n" + text + "\n# trailing } comment"
    if style == 3:
        text = "PREFIX unused: <http://e/unused#>\n" + text
    if style == 5:   # comments with braces INSIDE the blocks, a quote in a comment
        i = text.rfind(" }")
        text = text[:i] + "\n# { \n }" + text[i + 2:]
        text = text.replace("{ ", "{ # } { \" '\n ", 1)
    return text


def run_impl(case):
    cfg = case["cfg"]
    ep = endpoint()
    ep.reset()
    hook = case["hook"]

    def term(x, enc=False):
        if x is None:
            return None
        t = TERM[x]
        if enc and hook and isinstance(t, BNode):
            return URIRef(f"bnode:b{t}")
        return t

    init_quads = [(term(s), term(p), term(o), None if g == 0 else GNAME[g]) for s, p, o, g in case["init"]]
    ep.load(init_quads, [GNAME[g] for g in case.get("ginit", [])])
    kw = {"method": case["method"], "returnFormat": case["fmt"]}
    if hook:
        kw["node_to_sparql"] = hook_nts
    extra = case.get("extra", 0)
    if extra & 1:
        kw["params"] = {"x-extra": "1"}
    if extra & 2:
        kw["headers"] = {"X-Extra": "1"}
    ca = case.get("ca", True)
    open_mode = case.get("open", 0)
    if case.get("auth"):
        kw["auth"] = ("user", "p:w d")
    if not case.get("sparql11", True):
        kw["sparql11"] = False
    if not ca:
        kw["context_aware"] = False
    import rdflib as _rdflib
    norm_before = _rdflib.NORMALIZE_LITERALS
    _rdflib.NORMALIZE_LITERALS = case.get("norm", True)
    q_url, u_url = ep.url + "/query", ep.url + "/update"
    if open_mode == 2:
        q_url = u_url = ep.url + "/sparql"          # one endpoint for both protocols
    if open_mode == 3:       # built by the plugin registry from its name, then open()
        if cfg == "graph":
            top = Graph("SPARQLUpdateStore", identifier=GNAME[G0])
        elif cfg == "cg":
            top = ConjunctiveGraph("SPARQLUpdateStore", identifier=GNAME[G0])
        else:
            top = Dataset("SPARQLUpdateStore")
        top.open((q_url, u_url))
        store = top.store
    else:
        if cfg == "ro":
            store = SPARQLStore(None if open_mode else q_url, **kw)
            if open_mode:
                store.open(q_url)
        else:
            store = SPARQLUpdateStore(None if open_mode else q_url, None if open_mode else u_url,
                                      autocommit=case["autocommit"], dirty_reads=case["dirty"], **kw)
            if open_mode == 1:
                store.open((q_url, u_url))
            elif open_mode == 2:
                store.open(q_url)
        if cfg == "graph":
            top = Graph(store, identifier=GNAME[G0])
        elif cfg == "cg":
            top = ConjunctiveGraph(store, identifier=GNAME[G0])
        else:
            top = Dataset(store)
    cur = {"method": case["method"], "fmt": case["fmt"]}      # may be switched by `nop` operations
    ep.log.clear()
    mirror = Mirror(cfg, ep.quads(), ep.graph_names(), ca)
    autocommit = case["autocommit"] or cfg == "ro"
    dirty = case["dirty"]
    visible = (_kq(ep.quads()), _kn(ep.graph_names()))   # what the endpoint showed at the last flush
    init_state = visible
    obs, viol = [], []
    stats = {"cases": 1, "cfg_" + cfg: 1, "method_" + case["method"]: 1, "fmt_" + case["fmt"]: 1,
             "autocommit": int(case["autocommit"]), "dirty": int(dirty), "hook": int(hook),
             "extra_params": int(bool(case.get("extra", 0) & 1)), "extra_headers": int(bool(case.get("extra", 0) & 2)),
             "axis_open_" + ["ctor", "open_pair", "open_single_endpoint", "plugin_name"][open_mode]: 1,
             "axis_auth": int(bool(case.get("auth"))), "axis_sparql10": int(not case.get("sparql11", True)),
             "axis_not_context_aware": int(not ca), "axis_normalize_literals_off": int(not case.get("norm", True))}
    reached, answered = cfg == "ro", False
    captured, captured_meta, http_obs, res_obs = [], [], [], []

    def bump(k, n=1):
        stats[k] = stats.get(k, 0) + n

    def view(t, g):
        """the Graph object an API call on graph g goes through"""
        if cfg == "graph":
            if g == G0 or not ca:
                return t
            bump("axis_second_graph_object_same_store")
            return Graph(t.store, identifier=GNAME[g])       # another Graph object over the same store
        if g == 0:
            return t if cfg == "cg" else t.default_graph
        return t.get_context(GNAME[g])

    def do_write(t, op, enc):
        """the API call of a write, identical for the store under test and the local mirror"""
        k = op[0]
        T = lambda x: term(x, enc)  # noqa: E731
        if k == "add":
            s, p, o, g, via = op[1:]
            tr = (T(s), T(p), T(o))
            if cfg == "graph":
                view(t, g).add(tr)
            elif g == 0:
                (t.add(tr) if via == 0 or cfg == "cg" else t.default_graph.add(tr))
            elif via == 0:
                t.add(tr + (GNAME[g],))
            elif via == 2:      # the graph of the quad is a Graph object of another (Memory) store
                t.add(tr + (Graph(identifier=GNAME[g]),))
            else:
                t.get_context(GNAME[g]).add(tr)
        elif k == "set":
            s, p, o, g = op[1:5]
            tgt = t if (g == 0 and cfg != "graph") else view(t, g)
            tgt.set((T(s), T(p), T(o)))
        elif k == "iadd":
            other = Graph()
            for s, p, o in op[1]:
                other.add((T(s), T(p), T(o)))
            tgt = view(t, op[2]) if not (cfg == "cg" and op[2] == 0) else t
            tgt += other
        elif k == "nop":
            what = op[1]
            st_ = t.store
            if isinstance(st_, (SPARQLStore,)):       # the mirror's Memory store has none of these switches
                if what == "reopen":
                    if isinstance(st_, SPARQLUpdateStore):
                        st_.open((st_.query_endpoint, st_.update_endpoint))
                    else:
                        st_.open(st_.query_endpoint)
                elif what == "close":
                    t.close()
                elif what == "bind":
                    st_.bind("zz", URIRef("http://e/zz#"))
                elif what.startswith("method:"):
                    st_.method = what[7:]
                    cur["method"] = what[7:]
                elif what.startswith("format:"):
                    st_.returnFormat = what[7:]
                    cur["fmt"] = what[7:]
        elif k == "addN":
            if cfg == "graph":
                by = {}
                for s, p, o, g in op[1]:
                    by.setdefault(g, []).append((T(s), T(p), T(o)))
                for g, trs in by.items():
                    v = view(t, g)
                    v.addN([tr + (v,) for tr in trs])
            else:
                def gid(g):
                    if g == 0:
                        return t.default_context.identifier if cfg == "cg" else DATASET_DEFAULT_GRAPH_ID
                    return GNAME[g]
                t.addN([(T(s), T(p), T(o), gid(g)) for s, p, o, g in op[1]])
        elif k == "remove":
            s, p, o, g, via = op[1:]
            tr = (T(s), T(p), T(o))
            if cfg == "graph":
                view(t, g).remove(tr)
            elif g is None:
                t.remove(tr)
            elif g == 0:
                (t.default_graph.remove(tr) if via == 0 else t.remove(tr + (DATASET_DEFAULT_GRAPH_ID,)))
            elif via == 0:
                t.remove(tr + (GNAME[g],))
            else:
                t.get_context(GNAME[g]).remove(tr)
        elif k == "remove_graph":
            g = op[1]
            t.remove_graph(t.default_graph if g == 0 else GNAME[g])
        elif k == "graph":
            t.graph(GNAME[op[1]])
        elif k == "dropg":
            t.update("DROP GRAPH " + GNAME[op[1]].n3())
        elif k == "bulk":
            for tr in bulk_triples(op[1]):
                do_write(t, ["add"] + tr + [op[2], op[3]], enc)
        elif k == "update":
            g, lops, style = op[1:]
            tgt = t if (g == 0 and cfg not in ("cg", "graph")) else view(t, g)
            if style == 4:   # one DELETE/WHERE whose bound positions arrive as initBindings
                pat = lops[0][1]
                ib = {"abc"[i]: T(x) for i, x in enumerate(pat) if x is not None}
                tgt.update("DELETE { ?a ?b ?c } WHERE { ?a ?b ?c }", initBindings=ib)
            elif style == 6:  # prefixed names, resolved through initNs
                tgt.update(update_text(lops, 6, T), initNs={"ex": E})
            elif style == 7:  # initNs given, not used
                tgt.update(update_text(lops, 0, T), initNs={"zz": "http://e/zz#"})
            else:
                tgt.update(update_text(lops, style, T))
        elif k == "commit":
            t.commit()
        elif k == "rollback":
            t.rollback()

    def expected(g, pat, B):
        g = ctx_of(cfg, "read", g, ca)
        gname = None if g == 0 else GNAME[g]
        out = set()
        for s, p, o, c in B:
            if tkey(c) == tkey(gname) and all(x is None or tkey(TERM[x]) == tkey(y) for x, y in zip(pat, (s, p, o))):
                out.add((tkey(s), tkey(p), tkey(o)))
        return out

    for k_i, op in enumerate(case["ops"]):
        k = op[0]
        bump("op_" + k)
        is_read = k in ("triples", "len", "contains", "contexts", "query", "slice", "proj")
        internal_read = k == "add" and op[5] == 2     # ConjunctiveGraph._graph looks the dataset's graphs up first
        has_bn = any(isinstance(x, int) and x in BNODES for x in _flat(op))
        n_log = len(ep.log)
        if k == "nop":
            bump("axis_nop_" + op[1].split(":")[0])
        if internal_read:
            bump("axis_add_foreign_graph_object")
        if k == "update" and op[3] in (6, 7):
            bump("axis_update_initNs")
        out, exc = "ok", None
        result = None
        try:
            if not is_read:
                do_write(top, op, False)
            elif k == "triples":
                s, p, o, g, via = op[1:]
                pat = (term(s), term(p), term(o))
                if cfg in ("ds", "ro", "cg") and g == 0 and (via == 0 or cfg == "cg"):
                    result = list(top.triples(pat))
                elif via == 2 and cfg != "graph" and not (cfg == "cg" and g == G0):
                    # quad pattern on the Dataset / ConjunctiveGraph (a ConjunctiveGraph asked for its OWN
                    # identifier means its union = the endpoint's default graph: documented, not driven)
                    result = list(top.triples(pat + (DATASET_DEFAULT_GRAPH_ID if g == 0 else GNAME[g],)))
                else:
                    result = list(view(top, g).triples(pat))
                out = _fmt_triples([(_tid(a), _tid(b), _tid(c)) for a, b, c in result])
            elif k == "len":
                g = op[1]
                result = len(top) if (g == 0 and cfg != "graph") else len(view(top, g))
                out = f"N {result}"
            elif k == "contains":
                s, p, o, g = op[1:5]
                via = op[5] if len(op) > 5 else 0
                pat = (term(s), term(p), term(o))
                if g == 0 and cfg != "graph":
                    result = pat in top
                elif via == 1 and cfg != "graph" and not (cfg == "cg" and g == G0):  # quad membership
                    result = (pat + (GNAME[g],)) in top
                else:
                    result = pat in view(top, g)
                out = "B " + ("true" if result else "false")
            elif k == "contexts":
                tr = None if op[1] is None else tuple(term(x) for x in op[1])
                gs = list(top.graphs(tr)) if cfg in ("ds", "ro") else list(top.contexts(tr))
                result = [c.identifier for c in gs if c.identifier != DATASET_DEFAULT_GRAPH_ID]
                out = "G " + _fmt_names([_gid(x) for x in result])
            elif k == "proj":
                kind, s, p, o = op[1:]
                a = {"subjects": (p, o), "predicates": (s, o), "objects": (s, p), "subject_predicates": (o,),
                     "subject_objects": (p,), "predicate_objects": (s,)}[kind]
                rows = list(getattr(store, kind)(*[term(x) for x in a]))
                pos = {"subjects": (0,), "predicates": (1,), "objects": (2,), "subject_predicates": (0, 1),
                       "subject_objects": (0, 2), "predicate_objects": (1, 2)}[kind]
                result = [r if isinstance(r, tuple) else (r,) for r in rows]     # projections: duplicates are legitimate
                out = "P " + " ".join(",".join(map(str, x)) for x in sorted({tuple(_tid(v) for v in r) for r in result}))
            elif k == "query":
                kind, g, t3 = op[1:]
                tgt = top if (g == 0 and cfg != "graph") else view(top, g)
                dbg = {"DEBUG": True} if k_i % 3 == 0 else {}
                if dbg:
                    bump("axis_debug_flag")
                if kind == "spo":
                    rows = list(tgt.query("SELECT ?s ?p ?o WHERE { ?s ?p ?o }", **dbg))
                    result = [(r[0], r[1], r[2]) for r in rows]
                elif kind == "construct":
                    bump("axis_query_construct")
                    res = tgt.query("CONSTRUCT { ?s ?p ?o } WHERE { ?s ?p ?o }", **dbg)
                    result = list(res.graph)
                elif kind == "pfx":
                    rows = list(tgt.query("SELECT ?s ?o WHERE { ?s ex:p ?o }", initNs={"ex": E}))
                    result = [(r[0], PREDS[10], r[1]) for r in rows]
                elif kind == "bind":
                    rows = list(tgt.query("SELECT ?s ?p ?o WHERE { ?s ?p ?o }", initBindings={"o": term(t3[2])}))
                    result = [(r[0], r[1], r[2]) for r in rows]
                elif kind == "bind2":
                    rows = list(tgt.query("SELECT ?s ?p ?o WHERE { ?s ?p ?o }",
                                          initBindings={"o": term(t3[2]), "s": term(t3[0])}))
                    result = [(r[0], r[1], r[2]) for r in rows]
                elif kind == "ask":
                    res = tgt.query(f"ASK {{ {term(t3[0]).n3()} {term(t3[1]).n3()} {term(t3[2]).n3()} }}")
                    result = bool(res.askAnswer)
                else:
                    rows = list(top.query("SELECT ?g ?s ?p ?o WHERE { GRAPH ?g { ?s ?p ?o } }"))
                    result = [(r[1], r[2], r[3], r[0]) for r in rows]
                if kind == "ask":
                    out = "B " + ("true" if result else "false")
                elif kind == "named":
                    out = "Q " + _fmt_quads([(_tid(a), _tid(b), _tid(c), _gid(d)) for a, b, c, d in result])
                else:
                    out = _fmt_triples([(_tid(a), _tid(b), _tid(c)) for a, b, c in result])
            elif k == "slice":
                s, p, o, g, lim, off = op[1:7]
                v = view(top, g) if not (cfg == "cg" and g == 0) else Graph(store, identifier=DATASET_DEFAULT_GRAPH_ID)
                if v is top and cfg == "graph":
                    v = Graph(store, identifier=GNAME[G0])
                if lim is not None:
                    v.LIMIT = lim
                if off is not None:
                    v.OFFSET = off
                ob = op[7] if len(op) > 7 else "-"
                if ob != "-":
                    bump("axis_slice_orderby_attr")
                    setattr(v, "ORDER BY", Variable(ob) if ob in "spo" else ob)
                try:
                    result = list(v.triples((term(s), term(p), term(o))))
                finally:  # "Removes LIMIT and OFFSET if not required for the next triple() calls"
                    for a in ("LIMIT", "OFFSET", "ORDER BY"):
                        if hasattr(v, a):
                            delattr(v, a)
                out = "ok"
        except Exception as e:  # noqa: BLE001
            exc = e
            msg = str(e)
            if "does not support BNodes" in msg:
                out = "Refused"
            elif isinstance(e, TypeError) and "read only" in msg:
                out = "ReadOnly"
                if is_read:
                    viol.append(f"raise: op {k_i} {op[0]} (a read) raised {type(e).__name__}: {msg[:120]}")
            else:
                out = "Other"
                viol.append(f"raise: op {k_i} {op[0]} raised {type(e).__name__}: {msg[:120]}")
            bump("exc_" + out)

        B, N = ep.quads(), ep.graph_names()
        KB, KN = _kq(B), _kn(N)
        obs.append(f"{out} ; " + _fmt_quads([(_tid(s), _tid(p), _tid(o), _gid(g)) for s, p, o, g in B])
                   + " | " + _fmt_names([_gid(n) for n in N]))
        reqs, metas, https = [], [], []
        for ent in ep.log[n_log:]:
            if "text" not in ent:
                continue
            if ent["path"] == "/update":
                reqs.append(("u", None, ent["text"]))
            else:
                dg = ent.get("default-graph-uri", [])
                reqs.append(("q", dg[0] if dg else None, ent["text"]))
            # the request as a SPARQL 1.1 Protocol server understands it (parsed by the endpoint with urllib.parse,
            # independently of the Lean reader): operation, carrier, path, Accept types, every parameter but the text
            kind, dg_, text_ = reqs[-1]
            metas.append({"kind": kind, "dg": dg_, "text": text_, "cmethod": cur["method"], "cfmt": cur["fmt"],
                          "ep_path": ent["url_path"], "raw_path": ent["raw_path"], "raw_body": ent["raw_body"]})
            acc = ",".join(sorted(x for x in ent["accept"].split(", ")))
            ps = "&".join(sorted(f"{_cps(k_)}={_cps(v_)}" for k_, v_ in ent.get("params", [])
                                 if k_ != ent.get("text_key")))
            https.append(f"{'U' if kind == 'u' else 'Q'} {ent.get('via')} {ent['url_path']} a:{acc} p:{ps}")
        # the result layer: every results document the endpoint sent for this read, and what rdflib's parser makes of it
        if k in RES_OPS:
            docs = [response_obs(ent.get("format"), ent["res_body"]) for ent in ep.log[n_log:] if "res_body" in ent]
            res_obs.append(" | ".join(docs) if docs else "-")
            bump("result_documents_compared", len(docs))
        else:
            res_obs.append("~")
        captured.append(reqs)
        captured_meta.append(metas)
        http_obs.append(" | ".join(https) if https else "-")
        if any(_tid(x) == UNKNOWN for q in B for x in q[:3]) or any(_gid(q[3]) == UNKNOWN for q in B):
            viol.append(f"term: after op {k_i} the endpoint holds a term that is not one of the terms written: "
                        f"{[q for q in B if UNKNOWN in [_tid(x) for x in q[:3]] + [_gid(q[3])]][:2]!r}")

        # ---- blank nodes: only the documented refusal is part of the property
        if has_bn and not hook and out != "Refused" and not (cfg == "ro" and not is_read):
            viol.append(f"refusal: op {k_i} {op} carries a blank node but was not refused ({out})")
        # ---- read-only store
        if cfg == "ro":
            if not is_read and k != "nop" and out != "ReadOnly":
                viol.append(f"readonly: op {k_i} {op[0]} on a read-only SPARQLStore answered {out}")
            if (KB, KN) != visible:
                viol.append(f"readonly: op {k_i} changed the endpoint")

        # ---- the mirror receives the same write
        wrote = False
        KM_before = (_kq(mirror.quads()), _kn(mirror.names()))
        if cfg != "ro" and not is_read and k not in ("commit", "rollback") and out == "ok":
            try:
                do_write(mirror.top, op, True)
                wrote = True
            except Exception as e:  # noqa: BLE001
                viol.append(f"raise: local mirror refused op {k_i}: {type(e).__name__}: {e}")
        elif cfg != "ro" and k == "set" and out == "Refused" and op[1] not in BNODES:
            # Graph.set = remove((s, p, None)) then add((s, p, o)): the store accepted the remove call and refused
            # only the add (blank-node object), so the local dataset receives the remove ("the same calls")
            try:
                s_, p_, _o, g_ = op[1:5]
                tgt = mirror.top if (g_ == 0 and cfg != "graph") else view(mirror.top, g_)
                tgt.remove((term(s_, True), term(p_, True), None))
            except Exception as e:  # noqa: BLE001
                viol.append(f"raise: local mirror refused the remove part of op {k_i}: {type(e).__name__}: {e}")
        KM, KMN = _kq(mirror.quads()), _kn(mirror.names())

        def same(tag, what):
            if KB != KM:
                miss, extra = sorted(KM - KB, key=repr)[:2], sorted(KB - KM, key=repr)[:2]
                viol.append(f"{tag}: after op {k_i} {op[0]} {what}: endpoint lacks {miss} / has unexpected {extra}")
            elif KN != KMN:
                viol.append(f"{tag}: after op {k_i} {op[0]} {what}: endpoint graphs {sorted(KN)} but local graphs {sorted(KMN)}")

        if cfg != "ro":
            if autocommit:
                same("mirror", "the endpoint differs from a local dataset given the same calls")
                visible = (KB, KN)
            elif k == "commit":
                same("commit", "commit() did not make the endpoint equal to the local dataset")
                visible = (KB, KN)
            elif k == "rollback":
                if (KB, KN) != visible:
                    viol.append(f"rollback: op {k_i} rollback() changed the endpoint")
                mirror = Mirror(cfg, _unkey_quads(visible[0]), _unkey_names(visible[1]), ca)
            elif is_read and not dirty:
                same("readflush", "a read without dirty_reads must first make queued writes visible")
                visible = (KB, KN)
            elif internal_read and not dirty:
                # the call reads (the dataset's graphs) before it writes: what was queued BEFORE it becomes visible
                if (KB, KN) != KM_before:
                    viol.append(f"readflush: op {k_i} add (graph object of another store: the dataset looks its graphs "
                                f"up first) must make the writes queued before it visible, and only those")
                visible = (KB, KN)
            else:   # queued write, or dirty read
                if (KB, KN) != visible:
                    viol.append(f"early: op {k_i} {op[0]} changed the endpoint before commit "
                                f"(autocommit off{', dirty read' if is_read else ''})")
            if (KB, KN) != init_state:
                reached = True

        # ---- reads return exactly what the endpoint's dataset contains
        if is_read and exc is None and not has_bn:
            bump("read_results", len(result) if isinstance(result, list) else 1)
            if k == "proj":
                want = {tuple(t[j] for j in PROJ_POS[op[1]]) for t in expected(0, op[2:5], B)}
                got = {tuple(tkey(v) for v in r) for r in result}
                if got != want:
                    viol.append(f"read: op {k_i} store.{op[1]} returned {sorted(got - want, key=repr)[:2]} extra, "
                                f"{sorted(want - got, key=repr)[:2]} missing w.r.t. the endpoint's default graph")
                answered |= bool(got)
            elif k == "triples" or (k == "query" and op[1] in ("spo", "pfx", "bind", "bind2", "construct")):
                if k == "triples":
                    pat, g = op[1:4], op[4]
                else:
                    g = op[2]
                    pat = {"spo": [None, None, None], "construct": [None, None, None], "pfx": [None, 10, None],
                           "bind": [None, None, op[3][2]],
                           "bind2": [op[3][0], None, op[3][2]]}[op[1]]
                want = expected(g, pat, B)
                got = [(tkey(a), tkey(b), tkey(c)) for a, b, c in result]
                if set(got) != want or len(got) != len(set(got)):
                    viol.append(f"read: op {k_i} {op} returned {sorted(set(got) - want)[:2]} extra, "
                                f"{sorted(want - set(got))[:2]} missing, {len(got) - len(set(got))} duplicates "
                                f"w.r.t. the endpoint's graph")
                answered |= bool(got)
            elif k == "len":
                want = len(expected(op[1], [None, None, None], B))
                if result != want:
                    viol.append(f"read: op {k_i} len = {result}, the endpoint's graph has {want} triples")
            elif k == "contains" or (k == "query" and op[1] == "ask"):
                pat, g = (op[1:4], op[4]) if k == "contains" else (op[3], op[2])  # (op[5] = via)
                want = bool(expected(g, pat, B))
                if result != want:
                    viol.append(f"read: op {k_i} {op} answered {result}, the endpoint's graph says {want}")
                answered |= bool(result)
            elif k == "contexts":
                if op[1] is None:
                    want = KN
                else:
                    want = {tkey(c) for s, p, o, c in B if c is not None
                            and (tkey(s), tkey(p), tkey(o)) == tuple(tkey(TERM[x]) for x in op[1])}
                got = [tkey(x) for x in result]
                if set(got) != want or len(got) != len(set(got)):
                    viol.append(f"read: op {k_i} {op} returned graphs {sorted(got)}, the endpoint has {sorted(want)}")
                answered |= bool(got)
            elif k == "query" and op[1] == "named":
                want = {(tkey(s), tkey(p), tkey(o), tkey(c)) for s, p, o, c in B if c is not None}
                got = [(tkey(a), tkey(b), tkey(c), tkey(d)) for a, b, c, d in result]
                if set(got) != want or len(got) != len(set(got)):
                    viol.append(f"read: op {k_i} named-graph query returned {len(got)} rows, endpoint has {len(want)} named quads")
                answered |= bool(got)
            elif k == "slice":
                s, p, o, g, lim, off = op[1:7]
                want = expected(g, [s, p, o], B)
                got = [(tkey(a), tkey(b), tkey(c)) for a, b, c in result]
                n_want = max(0, len(want) - (off or 0))
                if lim is not None:
                    n_want = min(n_want, lim)
                if not set(got) <= want or len(got) != len(set(got)) or len(got) != n_want:
                    viol.append(f"read: op {k_i} LIMIT {lim} OFFSET {off} returned {len(got)} triples "
                                f"({len(set(got) - want)} not in the graph), expected {n_want} of {len(want)}")

        # ---- transport: configured method / result format / UTF-8 body
        for ent in ep.log[n_log:]:
            bump("http_requests")
            if ent["path"] == "/query":
                via = {"GET": "get", "POST": "direct", "POST_FORM": "form"}[cur["method"]]
                if ent.get("via") != via or ent["method"] != ("GET" if via == "get" else "POST"):
                    viol.append(f"transport: op {k_i} query sent via {ent['method']}/{ent.get('via')}, configured {cur['method']}")
                if ent.get("format") not in (None, cur["fmt"]) and not ent.get("error"):
                    viol.append(f"transport: op {k_i} result format {ent.get('format')} served, configured {cur['fmt']}")
            elif ent["path"] == "/update":
                if ent["method"] != "POST" or ent.get("via") not in ("direct", "form"):
                    viol.append(f"transport: op {k_i} update not sent by POST")
            if not ent.get("utf8", True):
                viol.append(f"transport: op {k_i} request body is not UTF-8")
            want_auth = "Basic dXNlcjpwOncgZA==" if case.get("auth") else None     # base64("user:p:w d")
            if ent.get("auth") != want_auth:
                viol.append(f"transport: op {k_i} Authorization header arrived as {ent.get('auth')!r}, "
                            f"the store was built with auth={kw.get('auth')}")
            if ent.get("x_param", []) != (["1"] if extra & 1 else []):
                viol.append(f"transport: op {k_i} extra request parameter arrived as {ent.get('x_param')}, "
                            f"the store was built with params={kw.get('params')}")
            if ent.get("x_header") != ("1" if extra & 2 else None):
                viol.append(f"transport: op {k_i} extra request header arrived as {ent.get('x_header')!r}, "
                            f"the store was built with headers={kw.get('headers')}")
            # SPARQL 1.1 Protocol: the dataset parameters change what a request means; the store never asks for any
            # but default-graph-uri on queries (and the text parameter of GET / form requests)
            allowed = {"x-extra"} | ({"default-graph-uri"} if ent["path"] == "/query" else set())
            if ent.get("text_key"):
                allowed.add(ent["text_key"])
            odd = sorted({k_ for k_, _v in ent.get("params", [])} - allowed)
            if odd:
                viol.append(f"transport: op {k_i} request carries parameter(s) {odd} the call did not ask for")
            if ent["path"] == "/query" and len(ent.get("default-graph-uri", [])) > 1:
                viol.append(f"transport: op {k_i} query sent with several default-graph-uri {ent['default-graph-uri']}")
            if ent.get("error") and exc is None:
                viol.append(f"transport: op {k_i} endpoint rejected a request ({ent['error'][:100]}) silently")

    # ---- the text layer: every captured request text goes through the Lean READER (decoded operation =
    #      what the model predicts, compared as part of obs), and where the model has a writer for it the
    #      captured text must be character for character the text the Lean WRITER produces
    del ING_STATS[:]
    del ASM_STATS[:]
    sess = driver_session(case, captured, captured_meta)
    if ASM_STATS:
        bump("http_requests_assembled_by_lean", ASM_STATS[0][0])
        bump("http_requests_byte_identical_to_lean_assembly", ASM_STATS[0][1])
    if ING_STATS:
        bump("named_graph_rewrites", ING_STATS[0][0])
        bump("named_graph_rewrites_found_verbatim_in_a_sent_request", ING_STATS[0][1])
    for k_i, op in enumerate(case["ops"]):
        if sess is None:
            obs[k_i] += " ; SENT no-driver ; HTTP " + http_obs[k_i] + " ; RES " + res_obs[k_i]
            continue
        dec, mtxt = sess[k_i]
        reqs = captured[k_i]
        bl = _blank_op(case, op)
        if bl:
            dec = [("Q?" if bl == "q" else "U?") if kind == bl else d for d, (kind, _g, _t) in zip(dec, reqs)]
        sent = " | ".join(dec) if dec else "-"
        mt = [] if mtxt == "none" else mtxt.split(" ")
        # character-for-character comparison with the Lean writers: a statistic, NOT part of obs — another
        # spelling that the reader decodes to the same operation is a harmless refactoring
        if len(mt) == len(reqs):
            for m, (kind, _g, text) in zip(mt, reqs):
                if m != "-" and not (op[0] == "query" and kind == "q"):
                    bump("texts_compared_with_lean_writer")
                    bump("texts_identical_to_lean_writer", int(m == _cps(text)))
        bump("requests_decoded", len(reqs))
        obs[k_i] += f" ; SENT {sent} ; HTTP {http_obs[k_i]} ; RES {res_obs[k_i]}"

    _rdflib.NORMALIZE_LITERALS = norm_before
    return {"obs": obs, "viol": viol, "nontrivial": bool(reached and answered),
            "key": repr((cfg, case["method"], case["fmt"], case["autocommit"], case["dirty"], case["hook"],
                         case.get("extra", 0), case["init"], case["ops"])),
            "stats": stats}


def _flat(x):
    for y in x:
        if isinstance(y, (list, tuple)):
            yield from _flat(y)
        else:
            yield y


_KEY_TERM = {tkey(v): v for v in list(TERM.values()) + list(GNAME.values())}


def _unkey(k):
    if k is None:
        return None
    if k in _KEY_TERM:
        return _KEY_TERM[k]
    if k[0] == "L":
        return Literal(k[1], datatype=None if k[2] is None else URIRef(k[2]), lang=k[3])
    return BNode(k[1]) if k[0] == "B" else URIRef(k[1])


def _unkey_quads(kq):
    return [tuple(_unkey(x) for x in q) for q in kq]


def _unkey_names(kn):
    return [_unkey(x) for x in kn]


# ------------------------------------------------------------------ shrinking, matchers


def shrink(case):
    ops, init = case["ops"], case["init"]
    for op in ops:      # a long transaction: first try it alone (every candidate that still fails costs a 1000-statement parse)
        if op[0] == "bulk" and (len(ops) > 1 or init):
            yield {**case, "ops": [op], "init": [], "ginit": []}
    for i in range(len(ops)):
        yield {**case, "ops": ops[:i] + ops[i + 1:]}
    for i in range(len(init)):
        yield {**case, "init": init[:i] + init[i + 1:]}
    if case.get("ginit"):
        yield {**case, "ginit": []}
    if case["method"] != "GET":
        yield {**case, "method": "GET"}
    if case["fmt"] != "xml":
        yield {**case, "fmt": "xml"}
    if case["hook"]:
        yield {**case, "hook": False}
    if case.get("extra", 0):
        yield {**case, "extra": 0}
        if case["extra"] == 3:
            yield {**case, "extra": 1}
            yield {**case, "extra": 2}
    if not case["autocommit"]:
        yield {**case, "autocommit": True}
    if case["dirty"]:
        yield {**case, "dirty": False}
    for i, op in enumerate(ops):
        if op[0] == "bulk":
            for n in (op[1] // 2, op[1] * 3 // 4, op[1] - 100, op[1] - 10):
                if 0 < n < op[1]:
                    yield {**case, "ops": ops[:i] + [["bulk", n] + op[2:]] + ops[i + 1:]}
        if op[0] == "addN" and len(op[1]) > 1:
            for j in range(len(op[1])):
                yield {**case, "ops": ops[:i] + [["addN", op[1][:j] + op[1][j + 1:]]] + ops[i + 1:]}
        if op[0] == "update" and len(op[2]) > 1 and op[3] != 4:
            for j in range(len(op[2])):
                yield {**case, "ops": ops[:i] + [["update", op[1], op[2][:j] + op[2][j + 1:], op[3]]] + ops[i + 1:]}
        if op[0] == "update" and op[3] not in (0, 4):  # styles 1,2,3,5 -> 0
            yield {**case, "ops": ops[:i] + [["update", op[1], op[2], 0]] + ops[i + 1:]}


MATCHERS = {}
