#!/venv/bin/python
"""./check <PROPERTY> [--tier quick|thorough] [--replay file] — see harness/core.py."""
import argparse, importlib, os, sys
sys.path.insert(0, os.path.dirname(os.path.abspath(__file__)))
import core  # noqa: E402  (puts the repository under test first on sys.path)


def main():
    ap = argparse.ArgumentParser()
    ap.add_argument("prop")
    ap.add_argument("--tier", default=os.environ.get("VERIF_TIER", "quick"), choices=["quick", "thorough"])
    ap.add_argument("--replay")
    a = ap.parse_args()
    seed = int(os.environ.get("VERIF_SEED", "0") or 0)
    mod = importlib.import_module(a.prop.lower())
    try:
        rc = core.run_property(mod, tier=a.tier, seed=seed, replay=a.replay)
    except Exception:
        import traceback
        traceback.print_exc()
        print(f"[{a.prop}] infrastructure error (exit 2)")
        rc = 2
    sys.exit(rc)


main()
